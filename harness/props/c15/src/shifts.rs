//! shifts, bit queries, bitwise operations, comparisons: every form against the reference routes
//! `Uint::overflowing_shl/shr`, the inherent `Uint` bit queries, `Uint::bitand/bitor/bitxor/not`,
//! `Ord::cmp`.

use crate::arith::{ops6_clone, ops6_copy};
use crate::out::*;
use crate::{outcome, rt};
use crypto_bigint::{
    BitOps, BoxedUint, ConstantTimeSelect, Integer, Limb, ShlVartime, ShrVartime, Uint, Wrapping, WrappingShl, WrappingShr, Zero,
};
use std::cmp::Ordering;
use subtle::{Choice, ConditionallySelectable, ConstantTimeEq, ConstantTimeGreater, ConstantTimeLess};
use vmodel::gen;
use vmodel::*;

/// boxed `overflowing_*` returns (value, overflow flag); normalise to the fixed `ConstCtOption` shape
/// after checking the documented "zero on overflow"
fn bopt(name: &str, g: Result<(BoxedUint, Choice), String>) -> Result<Out, Fail> {
    match g {
        Err(_) => Ok(Out::Panic),
        Ok(r) => {
            if bool::from(r.1) {
                vensure!(bool::from(r.0.is_zero()), "{name}: documented to return zero on overflow, got {}", hex(&bl(&r.0)));
                Ok(Out::none())
            } else {
                Ok(Out::val(bl(&r.0)))
            }
        }
    }
}

pub fn shift<const N: usize>(t: &mut Tape, c: &mut Case) -> CaseResult {
    let bits = 64 * N as u32;
    let al = gen::limbs(t, N);
    let s = gen::shift_amount(t, bits as u64) as u32;
    c.limbs("a", &al);
    c.num("shift", s as u64);
    let a = uint::<N>(&al);
    let ba = boxed(&al);
    let over = s >= bits;
    c.label(if over { "shift >= BITS" } else if s % 64 == 0 { "shift multiple of 64" } else { "shift within range" });
    c.nontrivial(!is_zero(&al) && s >= 1);

    macro_rules! dir {
        ($shl:ident, $shl_vartime:ident, $overflowing_shl:ident, $overflowing_shl_vartime:ident, $wrapping_shl:ident,
         $wrapping_shl_vartime:ident, $shl_assign:ident, $overflowing_shl_assign:ident, $WrappingShl:ident, $ShlVartime:ident, $op:tt, $opa:tt, $tag:literal) => {{
            let refv = total(concat!("Uint::", stringify!($overflowing_shl)), || a.$overflowing_shl(s))?;
            let refv: Option<Uint<N>> = refv.into();
            vensure!(refv.is_some() == !over, concat!("Uint::", stringify!($overflowing_shl), ": is_some must be shift < BITS (documented)"));
            let w_opt = match &refv { Some(v) => Out::val(ul(v)), None => Out::none() };
            let w_panic = match &refv { Some(v) => Out::val(ul(v)), None => Out::Panic };
            let w_wrap = match &refv { Some(v) => Out::val(ul(v)), None => Out::val(vec![0; N]) };

            let r = Routes::new(concat!($tag, " (overflowing: none iff shift >= BITS)"), concat!("Uint::", stringify!($overflowing_shl)), w_opt);
            rt!(r, concat!("Uint::", stringify!($overflowing_shl_vartime)), a.$overflowing_shl_vartime(s));
            rt!(r, concat!("<Uint as ", stringify!($ShlVartime), ">::", stringify!($overflowing_shl_vartime)), $ShlVartime::$overflowing_shl_vartime(&a, s));
            r.check(concat!("BoxedUint::", stringify!($overflowing_shl)), bopt(stringify!($overflowing_shl), guard(|| ba.$overflowing_shl(s)))?)?;
            r.check(concat!("BoxedUint::", stringify!($overflowing_shl_assign)), bopt(stringify!($overflowing_shl_assign), guard(|| { let mut x = ba.clone(); let o = x.$overflowing_shl_assign(s); (x, o) }))?)?;
            rt!(r, concat!("BoxedUint::", stringify!($shl_vartime)), ba.$shl_vartime(s));
            rt!(r, concat!("<BoxedUint as ", stringify!($ShlVartime), ">::", stringify!($overflowing_shl_vartime)), $ShlVartime::$overflowing_shl_vartime(&ba, s));

            let r = Routes::new(concat!($tag, " (panics iff shift >= BITS)"), concat!("Uint::", stringify!($overflowing_shl)), w_panic);
            rt!(r, concat!("Uint::", stringify!($shl)), a.$shl(s));
            rt!(r, concat!("Uint::", stringify!($shl_vartime)), a.$shl_vartime(s));
            rt!(r, concat!("Uint ", stringify!($op), " u32"), a $op s);
            rt!(r, concat!("&Uint ", stringify!($op), " u32"), &a $op s);
            rt!(r, concat!("Uint ", stringify!($op), " usize"), a $op (s as usize));
            rt!(r, concat!("&Uint ", stringify!($op), " usize"), &a $op (s as usize));
            rt!(r, concat!("Uint ", stringify!($opa), " u32"), { let mut x = a; x $opa s; x });
            rt!(r, concat!("Uint ", stringify!($opa), " usize"), { let mut x = a; x $opa (s as usize); x });
            rt!(r, concat!("BoxedUint::", stringify!($shl)), ba.$shl(s));
            rt!(r, concat!("BoxedUint::", stringify!($shl_assign)), { let mut x = ba.clone(); BoxedUint::$shl_assign(&mut x, s); x });
            rt!(r, concat!("BoxedUint ", stringify!($op), " u32"), ba.clone() $op s);
            rt!(r, concat!("&BoxedUint ", stringify!($op), " u32"), &ba $op s);
            rt!(r, concat!("BoxedUint ", stringify!($op), " usize"), ba.clone() $op (s as usize));
            rt!(r, concat!("&BoxedUint ", stringify!($op), " usize"), &ba $op (s as usize));
            rt!(r, concat!("BoxedUint ", stringify!($opa), " u32"), { let mut x = ba.clone(); x $opa s; x });
            rt!(r, concat!("BoxedUint ", stringify!($opa), " usize"), { let mut x = ba.clone(); x $opa (s as usize); x });
            if s <= i32::MAX as u32 {
                rt!(r, concat!("Uint ", stringify!($op), " i32"), a $op (s as i32));
                rt!(r, concat!("&Uint ", stringify!($op), " i32"), &a $op (s as i32));
                rt!(r, concat!("Uint ", stringify!($opa), " i32"), { let mut x = a; x $opa (s as i32); x });
                rt!(r, concat!("BoxedUint ", stringify!($op), " i32"), ba.clone() $op (s as i32));
                rt!(r, concat!("&BoxedUint ", stringify!($op), " i32"), &ba $op (s as i32));
                rt!(r, concat!("BoxedUint ", stringify!($opa), " i32"), { let mut x = ba.clone(); x $opa (s as i32); x });
            }

            // wrapping forms: for shift >= BITS the fixed methods document zero; the boxed and trait
            // docs speak of masking the shift; all routes must still agree with each other (C15)
            let r = Routes::new(concat!($tag, " (wrapping)"), concat!("Uint::", stringify!($overflowing_shl), " / zero"), w_wrap);
            rt!(r, concat!("Uint::", stringify!($wrapping_shl)), a.$wrapping_shl(s));
            rt!(r, concat!("Uint::", stringify!($wrapping_shl_vartime)), a.$wrapping_shl_vartime(s));
            rt!(r, concat!("<Uint as ", stringify!($WrappingShl), ">::", stringify!($wrapping_shl)), $WrappingShl::$wrapping_shl(&a, s));
            rt!(r, concat!("<Uint as ", stringify!($ShlVartime), ">::", stringify!($wrapping_shl_vartime)), $ShlVartime::$wrapping_shl_vartime(&a, s));
            rt!(r, concat!("Wrapping<Uint> ", stringify!($op), " u32"), Wrapping(a) $op s);
            rt!(r, concat!("&Wrapping<Uint> ", stringify!($op), " u32"), &Wrapping(a) $op s);
            rt!(r, concat!("BoxedUint::", stringify!($wrapping_shl)), ba.$wrapping_shl(s));
            rt!(r, concat!("BoxedUint::", stringify!($wrapping_shl_vartime)), ba.$wrapping_shl_vartime(s));
            rt!(r, concat!("<BoxedUint as ", stringify!($WrappingShl), ">::", stringify!($wrapping_shl)), $WrappingShl::$wrapping_shl(&ba, s));
            rt!(r, concat!("<BoxedUint as ", stringify!($ShlVartime), ">::", stringify!($wrapping_shl_vartime)), $ShlVartime::$wrapping_shl_vartime(&ba, s));
            rt!(r, concat!("Wrapping<BoxedUint> ", stringify!($op), " u32"), Wrapping(ba.clone()) $op s);
            rt!(r, concat!("&Wrapping<BoxedUint> ", stringify!($op), " u32"), &Wrapping(ba.clone()) $op s);
        }};
    }
    dir!(shl, shl_vartime, overflowing_shl, overflowing_shl_vartime, wrapping_shl, wrapping_shl_vartime, shl_assign, overflowing_shl_assign, WrappingShl, ShlVartime, <<, <<=, "shl");
    dir!(shr, shr_vartime, overflowing_shr, overflowing_shr_vartime, wrapping_shr, wrapping_shr_vartime, shr_assign, overflowing_shr_assign, WrappingShr, ShrVartime, >>, >>=, "shr");

    // negative i32 shift: documented nowhere as valid; every operator form must reject it the same way
    if t.chance(1, 16) {
        c.label("negative i32 shift");
        let neg = -((s % 1000) as i32) - 1;
        let r = Routes::new("shift by negative i32", "Uint << i32", outcome!(a << neg));
        rt!(r, "&Uint << i32", &a << neg);
        rt!(r, "Uint >> i32", a >> neg);
        rt!(r, "BoxedUint << i32", ba.clone() << neg);
        rt!(r, "&BoxedUint >> i32", &ba >> neg);
        vensure!(r.want.is_panic(), "shift by a negative i32 did not panic");
    }

    // wide shifts (lo, hi) versus the boxed double-width shift. The documentation of the wide forms
    // says "none if shift >= Self::BITS" while they return a value up to 2*BITS: for
    // BITS <= shift < 2*BITS both behaviours are accepted.
    if s < 2 * bits || t.chance(1, 4) {
        let hl = gen::limbs(t, N);
        c.limbs("hi", &hl);
        let h = uint::<N>(&hl);
        let wide = boxed(&[al.clone(), hl.clone()].concat());
        let split = |o: Option<BoxedUint>| o.map(|v| { let w = bl(&v); (w[..N].to_vec(), w[N..].to_vec()) });
        let middle = s >= bits && s < 2 * bits;
        let r = crate::reference!("wide shl", "BoxedUint(2N limbs)::shl_vartime", split(wide.shl_vartime(s)));
        let got = outcome!(Uint::<N>::overflowing_shl_vartime_wide((a, h), s));
        if !(middle && got == Out::none()) {
            r.check("Uint::overflowing_shl_vartime_wide", got)?;
        }
        let r = crate::reference!("wide shr", "BoxedUint(2N limbs)::shr_vartime", split(wide.shr_vartime(s)));
        let got = outcome!(Uint::<N>::overflowing_shr_vartime_wide((a, h), s));
        if !(middle && got == Out::none()) {
            r.check("Uint::overflowing_shr_vartime_wide", got)?;
        }
    }
    Ok(())
}

pub fn bits<const N: usize>(t: &mut Tape, c: &mut Case) -> CaseResult {
    let nbits = 64 * N as u32;
    let al = gen::limbs(t, N);
    let idx = gen::shift_amount(t, nbits as u64) as u32;
    c.limbs("a", &al);
    c.num("index", idx as u64);
    let a = uint::<N>(&al);
    let ba = boxed(&al);
    c.nontrivial(!is_zero(&al) && !al.iter().all(|&w| w == u64::MAX));
    c.label(if idx >= nbits { "bit index out of range" } else { "bit index in range" });

    macro_rules! query {
        ($name:ident $(, $vt:ident)?) => {{
            let r = crate::reference!(stringify!($name), "Uint (inherent)", a.$name());
            rt!(r, concat!("<Uint as BitOps>::", stringify!($name)), BitOps::$name(&a));
            rt!(r, concat!("BoxedUint::", stringify!($name)), ba.$name());
            rt!(r, concat!("<BoxedUint as BitOps>::", stringify!($name)), BitOps::$name(&ba));
            $(
                rt!(r, concat!("Uint::", stringify!($vt)), a.$vt());
                rt!(r, concat!("<Uint as BitOps>::", stringify!($vt)), BitOps::$vt(&a));
                rt!(r, concat!("<BoxedUint as BitOps>::", stringify!($vt)), BitOps::$vt(&ba));
            )?
        }};
    }
    query!(bits, bits_vartime);
    query!(leading_zeros, leading_zeros_vartime);
    query!(trailing_zeros, trailing_zeros_vartime);
    query!(trailing_ones, trailing_ones_vartime);
    {
        // inherent boxed vartime forms
        let r = crate::reference!("bits", "Uint::bits", a.bits());
        rt!(r, "BoxedUint::bits_vartime", ba.bits_vartime());
        rt!(r, "BITS - leading_zeros", nbits - a.leading_zeros());
        let r = crate::reference!("trailing_zeros", "Uint::trailing_zeros", a.trailing_zeros());
        rt!(r, "BoxedUint::trailing_zeros_vartime", ba.trailing_zeros_vartime());
        let r = crate::reference!("trailing_ones", "Uint::trailing_ones", a.trailing_ones());
        rt!(r, "BoxedUint::trailing_ones_vartime", ba.trailing_ones_vartime());
        rt!(r, "(!a).trailing_zeros()", (!a).trailing_zeros());
    }
    let r = crate::reference!("bit(index)", "Uint::bit", a.bit(idx));
    rt!(r, "Uint::bit_vartime", a.bit_vartime(idx));
    rt!(r, "<Uint as BitOps>::bit", BitOps::bit(&a, idx));
    rt!(r, "<Uint as BitOps>::bit_vartime", BitOps::bit_vartime(&a, idx));
    rt!(r, "BoxedUint::bit", ba.bit(idx));
    rt!(r, "BoxedUint::bit_vartime", ba.bit_vartime(idx));
    rt!(r, "<BoxedUint as BitOps>::bit", BitOps::bit(&ba, idx));
    rt!(r, "<BoxedUint as BitOps>::bit_vartime", BitOps::bit_vartime(&ba, idx));

    let r = Routes::new("precision", "Uint::BITS", Out::val(vec![nbits as u64]));
    rt!(r, "<Uint as BitOps>::bits_precision", BitOps::bits_precision(&a));
    rt!(r, "BoxedUint::bits_precision", ba.bits_precision());
    rt!(r, "<BoxedUint as BitOps>::bits_precision", BitOps::bits_precision(&ba));
    rt!(r, "8 * <Uint as BitOps>::bytes_precision", 8 * BitOps::bytes_precision(&a) as u32);
    rt!(r, "8 * <BoxedUint as BitOps>::bytes_precision", 8 * BitOps::bytes_precision(&ba) as u32);
    rt!(r, "64 * <Uint as Integer>::nlimbs", 64 * Integer::nlimbs(&a) as u32);
    rt!(r, "64 * BoxedUint::nlimbs", 64 * ba.nlimbs() as u32);
    rt!(r, "64 * <BoxedUint as Integer>::nlimbs", 64 * Integer::nlimbs(&ba) as u32);
    let r = crate::reference!("log2_bits", "floor(log2(BITS))", 31 - nbits.leading_zeros());
    rt!(r, "<Uint as BitOps>::log2_bits", BitOps::log2_bits(&a));
    rt!(r, "<BoxedUint as BitOps>::log2_bits", BitOps::log2_bits(&ba));

    // set_bit (index in range only: the out-of-range behaviour is documented differently per type)
    let i = idx % nbits;
    let v = t.bool();
    c.num("set_value", v as u64);
    let r = crate::reference!("set_bit", "<Uint as BitOps>::set_bit", { let mut x = a; BitOps::set_bit(&mut x, i, Choice::from(v as u8)); x });
    rt!(r, "<Uint as BitOps>::set_bit_vartime", { let mut x = a; BitOps::set_bit_vartime(&mut x, i, v); x });
    rt!(r, "<BoxedUint as BitOps>::set_bit", { let mut x = ba.clone(); BitOps::set_bit(&mut x, i, Choice::from(v as u8)); x });
    rt!(r, "<BoxedUint as BitOps>::set_bit_vartime", { let mut x = ba.clone(); BitOps::set_bit_vartime(&mut x, i, v); x });
    rt!(r, "a | (1 << i)  /  a & !(1 << i)", {
        let m = Uint::<N>::ONE.shl(i);
        if v { a | m } else { a & !m }
    });
    Ok(())
}

pub fn bitops<const N: usize>(t: &mut Tape, c: &mut Case) -> CaseResult {
    let (al, bl_) = gen::pair(t, N);
    let lw = gen::limb_word(t);
    c.limbs("a", &al);
    c.limbs("b", &bl_);
    c.num("limb", lw);
    let (a, b) = (uint::<N>(&al), uint::<N>(&bl_));
    let (ba, bb) = (boxed(&al), boxed(&bl_));
    c.nontrivial(!is_zero(&al) && !is_zero(&bl_) && al != bl_);

    macro_rules! fam {
        ($bitand:ident, $wrapping_and:ident, $checked_and:ident, $op:tt, $opa:tt, $tag:literal) => {{
            let r = crate::reference!($tag, "Uint (inherent)", a.$bitand(&b));
            rt!(r, concat!("Uint::", stringify!($wrapping_and)), a.$wrapping_and(&b));
            rt!(r, concat!("Uint::", stringify!($checked_and)), a.$checked_and(&b));
            ops6_copy!(r, "Uint", $op, $opa, a, b);
            ops6_copy!(r, "Wrapping<Uint>", $op, $opa, Wrapping(a), Wrapping(b));
            rt!(r, concat!("BoxedUint::", stringify!($bitand)), ba.$bitand(&bb));
            rt!(r, concat!("BoxedUint::", stringify!($wrapping_and)), ba.$wrapping_and(&bb));
            rt!(r, concat!("BoxedUint::", stringify!($checked_and)), ba.$checked_and(&bb));
            ops6_clone!(r, "BoxedUint", $op, $opa, ba, bb);
            ops6_clone!(r, "Wrapping<BoxedUint>", $op, $opa, Wrapping(ba.clone()), Wrapping(bb.clone()));
        }};
    }
    fam!(bitand, wrapping_and, checked_and, &, &=, "and");
    fam!(bitor, wrapping_or, checked_or, |, |=, "or");
    fam!(bitxor, wrapping_xor, checked_xor, ^, ^=, "xor");

    let r = crate::reference!("not", "Uint::not", a.not());
    rt!(r, "!Uint", !a);
    rt!(r, "!Wrapping<Uint>", !Wrapping(a));
    rt!(r, "BoxedUint::not", ba.not());
    rt!(r, "!BoxedUint", !ba.clone());
    rt!(r, "!Wrapping<BoxedUint>", !Wrapping(ba.clone()));
    rt!(r, "a ^ MAX", a ^ Uint::<N>::MAX);

    let r = crate::reference!("and limb", "Uint::bitand_limb", a.bitand_limb(Limb(lw)));
    rt!(r, "BoxedUint::bitand_limb", ba.bitand_limb(Limb(lw)));
    rt!(r, "Uint & (limb in every position)", a & Uint::<N>::from_words([lw; N]));
    Ok(())
}

pub fn cmp<const N: usize>(t: &mut Tape, c: &mut Case) -> CaseResult {
    let (al, bl_) = match t.weighted(&[3, 1, 1]) {
        0 => gen::pair(t, N),
        1 => {
            // differ in exactly one limb
            let a = gen::limbs(t, N);
            let mut b = a.clone();
            let i = t.index(N);
            b[i] = gen::limb_word(t);
            (a, b)
        }
        _ => (gen::limbs(t, N), gen::limbs(t, N)),
    };
    let ch = t.bool();
    c.limbs("a", &al);
    c.limbs("b", &bl_);
    c.num("choice", ch as u64);
    let (a, b) = (uint::<N>(&al), uint::<N>(&bl_));
    let (ba, bb) = (boxed(&al), boxed(&bl_));
    c.nontrivial(!is_zero(&al) && !is_zero(&bl_));
    let ord = total("Ord::cmp for Uint", || Ord::cmp(&a, &b))?;
    c.label(match ord {
        Ordering::Less => "cmp: less",
        Ordering::Equal => "cmp: equal",
        Ordering::Greater => "cmp: greater",
    });
    let r = Routes::new("cmp", "<Uint as Ord>::cmp", outcome!(ord));
    rt!(r, "Uint::cmp_vartime", a.cmp_vartime(&b));
    rt!(r, "<Uint as PartialOrd>::partial_cmp", a.partial_cmp(&b).unwrap());
    rt!(r, "<BoxedUint as Ord>::cmp", Ord::cmp(&ba, &bb));
    rt!(r, "BoxedUint::cmp_vartime", ba.cmp_vartime(&bb));
    rt!(r, "<BoxedUint as PartialOrd>::partial_cmp", ba.partial_cmp(&bb).unwrap());
    rt!(r, "reverse of cmp(b, a)", Ord::cmp(&b, &a).reverse());
    rt!(r, "reverse of BoxedUint::cmp_vartime(b, a)", bb.cmp_vartime(&ba).reverse());

    macro_rules! pred {
        ($tag:literal, $want:expr; $($name:literal => $e:expr),* $(,)?) => {{
            let r = Routes::new($tag, "<Uint as Ord>::cmp", outcome!($want));
            $( rt!(r, $name, $e); )*
        }};
    }
    pred!("eq", ord == Ordering::Equal;
        "Uint == Uint" => a == b,
        "<Uint as ConstantTimeEq>::ct_eq" => a.ct_eq(&b),
        "!(Uint != Uint)" => !(a != b),
        "!<Uint as ConstantTimeEq>::ct_ne" => !bool::from(a.ct_ne(&b)),
        "BoxedUint == BoxedUint" => ba == bb,
        "<BoxedUint as ConstantTimeEq>::ct_eq" => ba.ct_eq(&bb),
        "!<BoxedUint as ConstantTimeEq>::ct_ne" => !bool::from(ba.ct_ne(&bb)),
    );
    pred!("lt", ord == Ordering::Less;
        "Uint < Uint" => a < b,
        "<Uint as ConstantTimeLess>::ct_lt" => a.ct_lt(&b),
        "<Uint as ConstantTimeGreater>::ct_gt (swapped)" => b.ct_gt(&a),
        "!(Uint >= Uint)" => !(a >= b),
        "BoxedUint < BoxedUint" => ba < bb,
        "<BoxedUint as ConstantTimeLess>::ct_lt" => ba.ct_lt(&bb),
        "<BoxedUint as ConstantTimeGreater>::ct_gt (swapped)" => bb.ct_gt(&ba),
    );
    pred!("gt", ord == Ordering::Greater;
        "Uint > Uint" => a > b,
        "<Uint as ConstantTimeGreater>::ct_gt" => a.ct_gt(&b),
        "!(Uint <= Uint)" => !(a <= b),
        "BoxedUint > BoxedUint" => ba > bb,
        "<BoxedUint as ConstantTimeGreater>::ct_gt" => ba.ct_gt(&bb),
    );
    // min / max through Ord
    let r = Routes::new("max", "<Uint as Ord>::cmp", Out::val(if ord == Ordering::Less { bl_.clone() } else { al.clone() }));
    rt!(r, "Ord::max for Uint", Ord::max(a, b));
    rt!(r, "Ord::max for BoxedUint", Ord::max(ba.clone(), bb.clone()));

    // selection
    let chc = Choice::from(ch as u8);
    let r = Routes::new("select", "documented: a if choice == 0, b if choice == 1", Out::val(if ch { bl_.clone() } else { al.clone() }));
    rt!(r, "<Uint as ConditionallySelectable>::conditional_select", Uint::<N>::conditional_select(&a, &b, chc));
    rt!(r, "<Uint as ConstantTimeSelect>::ct_select", <Uint<N> as ConstantTimeSelect>::ct_select(&a, &b, chc));
    rt!(r, "<Uint as ConstantTimeSelect>::ct_assign", { let mut x = a; ConstantTimeSelect::ct_assign(&mut x, &b, chc); x });
    rt!(r, "<Uint as ConditionallySelectable>::conditional_assign", { let mut x = a; x.conditional_assign(&b, chc); x });
    rt!(r, "<Uint as ConstantTimeSelect>::ct_swap (first)", { let (mut x, mut y) = (a, b); <Uint<N> as ConstantTimeSelect>::ct_swap(&mut x, &mut y, chc); x });
    rt!(r, "<BoxedUint as ConstantTimeSelect>::ct_select", BoxedUint::ct_select(&ba, &bb, chc));
    rt!(r, "<BoxedUint as ConstantTimeSelect>::ct_assign", { let mut x = ba.clone(); x.ct_assign(&bb, chc); x });
    rt!(r, "<BoxedUint as ConstantTimeSelect>::ct_swap (first)", { let (mut x, mut y) = (ba.clone(), bb.clone()); BoxedUint::ct_swap(&mut x, &mut y, chc); x });
    rt!(r, "<Wrapping<Uint> as ConditionallySelectable>::conditional_select", Wrapping::<Uint<N>>::conditional_select(&Wrapping(a), &Wrapping(b), chc));

    // zero / odd predicates
    let r = Routes::new("is_zero", "a == ZERO", outcome!(a == Uint::<N>::ZERO));
    rt!(r, "<Uint as Zero>::is_zero", Zero::is_zero(&a));
    rt!(r, "<Uint as num_traits::Zero>::is_zero", num_traits::Zero::is_zero(&a));
    rt!(r, "Uint::to_nz is none", bool::from(a.to_nz().is_none()));
    rt!(r, "BoxedUint::is_zero", ba.is_zero());
    rt!(r, "!BoxedUint::is_nonzero", !bool::from(ba.is_nonzero()));
    rt!(r, "<BoxedUint as Zero>::is_zero", Zero::is_zero(&ba));
    rt!(r, "<BoxedUint as num_traits::Zero>::is_zero", num_traits::Zero::is_zero(&ba));
    rt!(r, "NonZero::new(BoxedUint) is none", bool::from(crypto_bigint::NonZero::new(ba.clone()).is_none()));
    let r = Routes::new("is_odd", "bit 0", outcome!(a.bit_vartime(0)));
    rt!(r, "<Uint as Integer>::is_odd", Integer::is_odd(&a));
    rt!(r, "!<Uint as Integer>::is_even", !bool::from(Integer::is_even(&a)));
    rt!(r, "Uint::to_odd is some", bool::from(a.to_odd().is_some()));
    rt!(r, "<BoxedUint as Integer>::is_odd", Integer::is_odd(&ba));
    rt!(r, "BoxedUint::to_odd is some", bool::from(ba.to_odd().is_some()));
    rt!(r, "Odd::new(BoxedUint) is some", bool::from(crypto_bigint::Odd::new(ba.clone()).is_some()));
    let r = Routes::new("is_one", "a == ONE", outcome!(a == Uint::<N>::ONE));
    rt!(r, "<Uint as num_traits::One>::is_one", num_traits::One::is_one(&a));
    rt!(r, "BoxedUint::is_one", ba.is_one());
    rt!(r, "<BoxedUint as num_traits::One>::is_one", num_traits::One::is_one(&ba));
    Ok(())
}

/// boxed comparisons across precisions against the zero-padded comparison (finding F-06b: cmp_vartime)
pub fn boxed_cmp_mixed(max: usize) -> impl Fn(&mut Tape, &mut Case) -> CaseResult {
    move |t, c| {
        let l = t.usize_in(1, max);
        let r_ = t.usize_in(1, max);
        let al = gen::limbs(t, l);
        let bl_ = match t.weighted(&[2, 2, 1]) {
            0 => gen::limbs(t, r_),
            1 => {
                // same low limbs, zero / non-zero padding
                let mut v = al.clone();
                v.resize(r_, if t.bool() { 0 } else { gen::limb_word(t) });
                v
            }
            _ => gen::shape_z(t, r_),
        };
        c.limbs("a", &al);
        c.limbs("b", &bl_);
        c.label(if l == r_ { "boxed cmp: equal precision" } else if l < r_ { "boxed cmp: lhs narrower" } else { "boxed cmp: lhs wider" });
        c.nontrivial(l != r_ && !is_zero(&al) && !is_zero(&bl_));
        let (ba, bb) = (boxed(&al), boxed(&bl_));
        // reference: the constant-time Ord impl (documented in the source as zero-padded), itself
        // cross-checked against the same comparison at the common (widened) precision
        let w = 64 * l.max(r_) as u32;
        let ord = total("Ord::cmp for BoxedUint (widened)", || Ord::cmp(&ba.widen(w), &bb.widen(w)))?;
        if ord == Ordering::Equal && l != r_ {
            c.label("boxed cmp: equal values, different precision");
        }
        let r = Routes::new("boxed cmp across precisions", "<BoxedUint as Ord>::cmp after widen", outcome!(ord));
        rt!(r, "<BoxedUint as Ord>::cmp", Ord::cmp(&ba, &bb));
        rt!(r, "<BoxedUint as PartialOrd>::partial_cmp", ba.partial_cmp(&bb).unwrap());
        rt!(r, "from ct_lt / ct_gt", if bool::from(ba.ct_lt(&bb)) { Ordering::Less } else if bool::from(ba.ct_gt(&bb)) { Ordering::Greater } else { Ordering::Equal });
        let e = Routes::new("boxed eq across precisions", "<BoxedUint as Ord>::cmp after widen", outcome!(ord == Ordering::Equal));
        rt!(e, "BoxedUint == BoxedUint", ba == bb);
        rt!(e, "<BoxedUint as ConstantTimeEq>::ct_eq", ba.ct_eq(&bb));
        // cmp_vartime
        let got = outcome!(ba.cmp_vartime(&bb));
        if got != r.want {
            if l != r_ {
                // F-06b signature: only the limbs of self were visited
                let narrow = if l < r_ {
                    // comparison of the low l limbs only
                    let lo = boxed(&bl_[..l]);
                    outcome!(Ord::cmp(&ba, &lo))
                } else {
                    Out::Panic // self wider: index out of bounds
                };
                if got.is_panic() || got == narrow {
                    return Err(Fail::known("F-06b", format!("BoxedUint::cmp_vartime across precisions ({l} vs {r_} limbs) gives {:?}, zero-padded comparison gives {:?}", got, r.want)));
                }
            }
            vfail!("boxed cmp across precisions: route `BoxedUint::cmp_vartime` gives {:?} but reference route `{}` gives {:?}", got, r.refname, r.want);
        }
        Ok(())
    }
}
