//! modular arithmetic, inversion, gcd, square root: fixed vs boxed, ct vs vartime, inherent vs
//! trait, one-shot vs precomputed inverter.

use crate::gens;
use crate::out::*;
use crate::{outcome, rt};
use crypto_bigint::modular::SafeGcdInverter;
use crypto_bigint::{
    AddMod, BoxedUint, Gcd, InvMod, Inverter, Limb, MulMod, NegMod, NonZero, Odd, PrecomputeInverter, SquareRoot, SubMod, Uint,
};
use num_traits::One;
use subtle::Choice;
use vmodel::gen;
use vmodel::*;

fn bsome(r: (BoxedUint, Choice)) -> Option<BoxedUint> {
    if bool::from(r.1) {
        Some(r.0)
    } else {
        None
    }
}

pub fn modarith<const N: usize>(t: &mut Tape, c: &mut Case) -> CaseResult {
    let (pl, class) = gens::any_modulus(t, N);
    let pb = big(&pl);
    let al = limbs_exact(&gen::residue(t, &pb), N);
    let bl_ = match t.weighted(&[3, 1, 1]) {
        0 => limbs_exact(&gen::residue(t, &pb), N),
        1 => al.clone(),
        _ => limbs_exact(&((&pb - big(&al)) % &pb), N), // a + b = p
    };
    c.limbs("p", &pl);
    c.limbs("a", &al);
    c.limbs("b", &bl_);
    c.label(class);
    let odd = pl[0] & 1 == 1;
    c.nontrivial(pb.bits() >= 2 && !is_zero(&al) && !is_zero(&bl_));
    if big(&al) + big(&bl_) >= pb {
        c.label("modarith: a + b >= p");
    }
    if big(&al) < big(&bl_) {
        c.label("modarith: a < b");
    }
    let (a, b, p) = (uint::<N>(&al), uint::<N>(&bl_), uint::<N>(&pl));
    let (ba, bb, bp) = (boxed(&al), boxed(&bl_), boxed(&pl));

    let r = crate::reference!("add_mod", "Uint::add_mod", a.add_mod(&b, &p));
    rt!(r, "<Uint as AddMod>::add_mod", AddMod::add_mod(&a, &b, &p));
    rt!(r, "BoxedUint::add_mod", ba.add_mod(&bb, &bp));
    rt!(r, "<BoxedUint as AddMod>::add_mod", AddMod::add_mod(&ba, &bb, &bp));
    rt!(r, "BoxedUint::add_mod_assign", { let mut x = ba.clone(); x.add_mod_assign(&bb, &bp); x });
    rt!(r, "commuted Uint::add_mod", b.add_mod(&a, &p));

    let r = crate::reference!("double_mod", "Uint::double_mod", a.double_mod(&p));
    rt!(r, "Uint::add_mod(a, a)", a.add_mod(&a, &p));
    rt!(r, "BoxedUint::double_mod", ba.double_mod(&bp));
    rt!(r, "BoxedUint::add_mod(a, a)", ba.add_mod(&ba, &bp));

    let r = crate::reference!("sub_mod", "Uint::sub_mod", a.sub_mod(&b, &p));
    rt!(r, "<Uint as SubMod>::sub_mod", SubMod::sub_mod(&a, &b, &p));
    rt!(r, "BoxedUint::sub_mod", ba.sub_mod(&bb, &bp));
    rt!(r, "<BoxedUint as SubMod>::sub_mod", SubMod::sub_mod(&ba, &bb, &bp));
    rt!(r, "Uint::add_mod(a, neg_mod(b))", a.add_mod(&b.neg_mod(&p), &p));

    let r = crate::reference!("neg_mod", "Uint::neg_mod", a.neg_mod(&p));
    rt!(r, "<Uint as NegMod>::neg_mod", NegMod::neg_mod(&a, &p));
    rt!(r, "BoxedUint::neg_mod", ba.neg_mod(&bp));
    rt!(r, "<BoxedUint as NegMod>::neg_mod", NegMod::neg_mod(&ba, &bp));
    rt!(r, "Uint::sub_mod(0, a)", Uint::<N>::ZERO.sub_mod(&a, &p));

    if odd {
        let nz = NonZero::new(p).unwrap();
        let r = crate::reference!("mul_mod (odd p)", "Uint::mul_mod_vartime", a.mul_mod_vartime(&b, &nz));
        rt!(r, "<Uint as MulMod>::mul_mod", MulMod::mul_mod(&a, &b, &p));
        rt!(r, "Uint::rem_wide_vartime(split_mul)", Uint::<N>::rem_wide_vartime(a.split_mul(&b), &nz));
        rt!(r, "BoxedUint::mul_mod", ba.mul_mod(&bb, &bp));
        rt!(r, "<BoxedUint as MulMod>::mul_mod", MulMod::mul_mod(&ba, &bb, &bp));
        rt!(r, "commuted Uint::mul_mod_vartime", b.mul_mod_vartime(&a, &nz));
    }
    Ok(())
}

/// `Uint::mul_mod` needs a `Concat` impl
pub fn mulmod_wide<const N: usize, const W: usize>(t: &mut Tape, c: &mut Case) -> CaseResult
where
    Uint<N>: crypto_bigint::Concat<Output = Uint<W>>,
    Uint<W>: crypto_bigint::Split<Output = Uint<N>>,
{
    let (pl, class) = gens::odd_modulus3(t, N);
    let pb = big(&pl);
    let al = limbs_exact(&gen::residue(t, &pb), N);
    let bl_ = limbs_exact(&gen::residue(t, &pb), N);
    c.limbs("p", &pl);
    c.limbs("a", &al);
    c.limbs("b", &bl_);
    c.label(class);
    c.nontrivial(big(&al) * big(&bl_) >= pb);
    let (a, b, p) = (uint::<N>(&al), uint::<N>(&bl_), uint::<N>(&pl));
    let nz = NonZero::new(p).unwrap();
    let r = crate::reference!("mul_mod (odd p, ct vs vartime)", "Uint::mul_mod_vartime", a.mul_mod_vartime(&b, &nz));
    rt!(r, "Uint::mul_mod", a.mul_mod(&b, &nz));
    rt!(r, "BoxedUint::mul_mod", boxed(&al).mul_mod(&boxed(&bl_), &boxed(&pl)));
    Ok(())
}

pub fn special<const N: usize>(t: &mut Tape, c: &mut Case) -> CaseResult {
    let cw = match t.weighted(&[3, 2, 1]) {
        0 => gen::word(t).max(1),
        1 => t.pick(&[1u64, 2, 3, 189, 0x1000003d1, u64::MAX, u64::MAX - 1, 1 << 63, 1 << 32]),
        _ => t.u64().max(1),
    };
    let pb = pow2(64 * N as u64) - num_bigint::BigUint::from(cw);
    let al = limbs_exact(&gen::residue(t, &pb), N);
    let bl_ = limbs_exact(&gen::residue(t, &pb), N);
    c.num("c", cw);
    c.limbs("a", &al);
    c.limbs("b", &bl_);
    c.nontrivial(!is_zero(&al) && !is_zero(&bl_));
    if cw == u64::MAX {
        c.label("special: c = MAX");
    }
    let pl = limbs_exact(&pb, N);
    let (a, b, p) = (uint::<N>(&al), uint::<N>(&bl_), uint::<N>(&pl));
    let (ba, bb) = (boxed(&al), boxed(&bl_));
    let nz = NonZero::new(p).unwrap();
    let cl = Limb(cw);

    let r = crate::reference!("add_mod_special", "Uint::add_mod(p = 2^B - c)", a.add_mod(&b, &p));
    rt!(r, "Uint::add_mod_special", a.add_mod_special(&b, cl));
    let r = crate::reference!("sub_mod_special", "Uint::sub_mod(p = 2^B - c)", a.sub_mod(&b, &p));
    rt!(r, "Uint::sub_mod_special", a.sub_mod_special(&b, cl));
    rt!(r, "BoxedUint::sub_mod_special", ba.sub_mod_special(&bb, cl));
    let r = crate::reference!("neg_mod_special", "Uint::neg_mod(p = 2^B - c)", a.neg_mod(&p));
    rt!(r, "Uint::neg_mod_special", a.neg_mod_special(cl));
    rt!(r, "BoxedUint::neg_mod_special", ba.neg_mod_special(cl));
    let r = crate::reference!("mul_mod_special", "Uint::rem_wide_vartime(split_mul, p = 2^B - c)", Uint::<N>::rem_wide_vartime(a.split_mul(&b), &nz));
    rt!(r, "Uint::mul_mod_special", a.mul_mod_special(&b, cl));
    rt!(r, "BoxedUint::mul_mod_special", ba.mul_mod_special(&bb, cl));
    Ok(())
}

pub fn inv<const N: usize, const U: usize>(t: &mut Tape, c: &mut Case) -> CaseResult
where
    Odd<Uint<N>>: PrecomputeInverter<Inverter = SafeGcdInverter<N, U>, Output = Uint<N>>,
{
    let (ml, class) = gens::any_modulus(t, N);
    let mb = big(&ml);
    let al = match t.weighted(&[4, 2, 1, 1]) {
        0 => limbs_exact(&gen::residue(t, &mb), N),
        1 => gen::limbs(t, N),
        2 => {
            // multiple of a small factor / power of two times unit
            let k = t.edgy(64 * N as u64 - 1);
            limbs_of(&((big(&gen::odd(t, N)) << k) & mask(64 * N as u64)), N)
        }
        _ => gen::related(t, &ml),
    };
    c.limbs("a", &al);
    c.limbs("m", &ml);
    c.label(class);
    let ab = big(&al);
    let g = gens::gcd_big(&ab, &mb);
    c.nontrivial(!g.is_one() || ml[0] & 1 == 0 || ab >= mb);
    c.label(if g.is_one() { "inv: invertible" } else { "inv: not invertible" });
    if ab >= mb {
        c.label("inv: a >= m");
    }
    let (a, m) = (uint::<N>(&al), uint::<N>(&ml));
    let (ba, bm) = (boxed(&al), boxed(&ml));

    let r = crate::reference!("inv_mod", "Uint::inv_mod", a.inv_mod(&m));
    rt!(r, "<Uint as InvMod>::inv_mod", InvMod::inv_mod(&a, &m));
    rt!(r, "BoxedUint::inv_mod", ba.inv_mod(&bm));
    rt!(r, "<BoxedUint as InvMod>::inv_mod", InvMod::inv_mod(&ba, &bm));
    let general = r.want.clone();

    if ml[0] & 1 == 1 {
        let odd = Odd::new(m).unwrap();
        let bodd = Odd::new(bm.clone()).unwrap();
        let r = crate::reference!("inv_odd_mod", "Uint::inv_odd_mod", a.inv_odd_mod(&odd));
        rt!(r, "Uint::inv_mod (odd modulus)", a.inv_mod(&m));
        rt!(r, "SafeGcdInverter::new(m, 1).inv", SafeGcdInverter::<N, U>::new(&odd, &Uint::ONE).inv(&a));
        rt!(r, "SafeGcdInverter::new(m, 1).inv_vartime", SafeGcdInverter::<N, U>::new(&odd, &Uint::ONE).inv_vartime(&a));
        rt!(r, "BoxedUint::inv_odd_mod", ba.inv_odd_mod(&bodd));
        // the Inverter trait documents "none if value is zero"; for m = 1 the value 0 is its own
        // inverse, so both answers are documented there: skip the trait routes for m = 1
        if !mb.is_one() {
            let pre = total("Odd<Uint>::precompute_inverter", || odd.precompute_inverter())?;
            rt!(r, "Odd<Uint>::precompute_inverter().invert", Inverter::invert(&pre, &a));
            rt!(r, "Odd<Uint>::precompute_inverter().invert_vartime", Inverter::invert_vartime(&pre, &a));
            let bpre = total("Odd<BoxedUint>::precompute_inverter", || bodd.precompute_inverter())?;
            rt!(r, "Odd<BoxedUint>::precompute_inverter().invert", Inverter::invert(&bpre, &ba));
            rt!(r, "Odd<BoxedUint>::precompute_inverter().invert_vartime", Inverter::invert_vartime(&bpre, &ba));
            // a precomputed inverter is reusable: second value through the same inverter
            let a2l = limbs_exact(&gen::residue(t, &mb), N);
            c.limbs("a2", &a2l);
            let (a2, ba2) = (uint::<N>(&a2l), boxed(&a2l));
            let r2 = crate::reference!("inv_odd_mod (second value, reused inverter)", "Uint::inv_odd_mod", a2.inv_odd_mod(&odd));
            rt!(r2, "reused Odd<Uint>::precompute_inverter().invert", Inverter::invert(&pre, &a2));
            rt!(r2, "reused Odd<BoxedUint>::precompute_inverter().invert", Inverter::invert(&bpre, &ba2));
            rt!(r2, "BoxedUint::inv_odd_mod", ba2.inv_odd_mod(&bodd));
        }
        let _ = general;
    }
    Ok(())
}

pub fn inv2k<const N: usize, const U: usize>(t: &mut Tape, c: &mut Case) -> CaseResult
where
    Odd<Uint<N>>: PrecomputeInverter<Inverter = SafeGcdInverter<N, U>, Output = Uint<N>>,
{
    let bits = 64 * N as u32;
    let al = match t.weighted(&[4, 2, 2, 1]) {
        0 => gen::odd(t, N),
        1 => gen::limbs(t, N),
        2 => {
            let j = t.range(1, bits as u64 - 1);
            limbs_of(&((big(&gen::odd(t, N)) << j) & mask(bits as u64)), N)
        }
        _ => vec![u64::MAX; N],
    };
    let k = match t.weighted(&[6, 2, 1]) {
        0 => t.range(0, bits as u64) as u32,
        1 => gens::shift_in(t, bits),
        _ => bits + 1 + t.below(66) as u32, // k > BITS: not representable; the ct form treats it as BITS
    };
    c.limbs("a", &al);
    c.num("k", k as u64);
    let a = uint::<N>(&al);
    let ba = boxed(&al);
    let a_odd = al[0] & 1 == 1;
    c.nontrivial(k >= 1);
    c.label(if k > bits { "inv_mod2k: k > BITS" } else if k == bits { "inv_mod2k: k = BITS" } else { "inv_mod2k: k < BITS" });
    c.label(if a_odd { "inv_mod2k: a odd" } else { "inv_mod2k: a even" });

    let r = crate::reference!("inv_mod2k", "Uint::inv_mod2k", a.inv_mod2k(k));
    vensure!(!r.want.is_panic(), "Uint::inv_mod2k panicked");
    vensure!(r.want.is_none() == !(k == 0 || a_odd), "Uint::inv_mod2k: documented none iff k > 0 and a even; got {:?}", r.want);
    let vt = outcome!(a.inv_mod2k_vartime(k));
    if vt != r.want {
        if k > bits && vt.is_panic() && !r.want.is_panic() {
            return Err(Fail::known("F-11a", format!("Uint::inv_mod2k_vartime(k = {k} > BITS = {bits}) panics while Uint::inv_mod2k returns {:?}", r.want)));
        }
        vfail!("inv_mod2k: route `Uint::inv_mod2k_vartime` gives {:?} but reference route `Uint::inv_mod2k` gives {:?}", vt, r.want);
    }
    rt!(r, "BoxedUint::inv_mod2k", bsome(ba.inv_mod2k(k)));
    rt!(r, "BoxedUint::inv_mod2k_vartime", bsome(ba.inv_mod2k_vartime(k)));
    if k >= 1 && k < bits {
        let m = limbs_of(&pow2(k as u64), N);
        rt!(r, "Uint::inv_mod(2^k)", a.inv_mod(&uint::<N>(&m)));
        rt!(r, "BoxedUint::inv_mod(2^k)", ba.inv_mod(&boxed(&m)));
    }
    Ok(())
}

pub fn gcd<const N: usize, const U: usize>(t: &mut Tape, c: &mut Case) -> CaseResult
where
    Odd<Uint<N>>: PrecomputeInverter<Inverter = SafeGcdInverter<N, U>, Output = Uint<N>>,
{
    let b = 64 * N as u64;
    let (xl, yl, class) = match t.weighted(&[3, 3, 1, 1, 1, 1]) {
        0 => {
            let (x, y) = gen::pair(t, N);
            (x, y, "gcd: related shapes")
        }
        1 => {
            // d*u*2^i, d*v*2^j
            let h = ((N + 1) / 2).max(1);
            let d = big(&gen::limbs(t, h));
            let u = big(&gen::limbs(t, (N - h).max(1)));
            let v = big(&gen::limbs(t, (N - h).max(1)));
            let (i, j) = (t.edgy(63), t.edgy(63));
            let x = ((&d * u) << i) & mask(b);
            let y = ((&d * v) << j) & mask(b);
            (limbs_of(&x, N), limbs_of(&y, N), "gcd: common factor d, powers of two")
        }
        2 => (vec![0; N], gen::limbs(t, N), "gcd: x = 0"),
        3 => (gen::limbs(t, N), vec![0; N], "gcd: y = 0"),
        4 => {
            let x = gen::limbs(t, N);
            (x.clone(), x, "gcd: x = y")
        }
        _ => (gen::odd(t, N), gen::limbs(t, N), "gcd: x odd"),
    };
    c.limbs("x", &xl);
    c.limbs("y", &yl);
    c.label(class);
    let g = gens::gcd_big(&big(&xl), &big(&yl));
    c.nontrivial(!g.is_one());
    let x_odd = xl[0] & 1 == 1;
    c.label(if x_odd { "gcd: lhs odd (vartime route)" } else { "gcd: lhs even" });
    let (x, y) = (uint::<N>(&xl), uint::<N>(&yl));
    let (bx, by) = (boxed(&xl), boxed(&yl));

    let r = crate::reference!("gcd", "Uint::gcd", x.gcd(&y));
    rt!(r, "<Uint as Gcd>::gcd", Gcd::gcd(&x, &y));
    rt!(r, "<Uint as Gcd>::gcd_vartime", Gcd::gcd_vartime(&x, &y));
    rt!(r, "commuted Uint::gcd", y.gcd(&x));
    rt!(r, "<BoxedUint as Gcd>::gcd", Gcd::gcd(&bx, &by));
    rt!(r, "<BoxedUint as Gcd>::gcd_vartime", Gcd::gcd_vartime(&bx, &by));
    if x_odd {
        let ox = Odd::new(x).unwrap();
        let obx = Odd::new(bx.clone()).unwrap();
        rt!(r, "Odd<Uint>::gcd_vartime", ox.gcd_vartime(&y));
        rt!(r, "<Odd<BoxedUint> as Gcd<BoxedUint>>::gcd", Gcd::gcd(&obx, &by));
        rt!(r, "<Odd<BoxedUint> as Gcd<BoxedUint>>::gcd_vartime", Gcd::gcd_vartime(&obx, &by));
    }
    // signed routes on non-negative values (top bit clear): gcd of magnitudes is the same operation
    if xl[N - 1] >> 63 == 0 && yl[N - 1] >> 63 == 0 {
        let (ix, iy) = (x.as_int(), y.as_int());
        rt!(r, "<Uint as Gcd<Int>>::gcd", Gcd::gcd(&x, &iy));
        rt!(r, "<Uint as Gcd<Int>>::gcd_vartime", Gcd::gcd_vartime(&x, &iy));
        rt!(r, "<Int as Gcd>::gcd", Gcd::gcd(&ix, &iy));
        rt!(r, "<Int as Gcd>::gcd_vartime", Gcd::gcd_vartime(&ix, &iy));
        rt!(r, "<Int as Gcd<Uint>>::gcd", Gcd::gcd(&ix, &y));
        rt!(r, "<Int as Gcd<Uint>>::gcd_vartime", Gcd::gcd_vartime(&ix, &y));
    }
    Ok(())
}

pub fn sqrt<const N: usize>(t: &mut Tape, c: &mut Case) -> CaseResult {
    let (al, class) = gens::sqrt_input(t, N);
    c.limbs("a", &al);
    c.label(class);
    c.nontrivial(bit_len(&al) >= 3);
    let a = uint::<N>(&al);
    let ba = boxed(&al);
    let r = crate::reference!("sqrt", "Uint::sqrt", a.sqrt());
    rt!(r, "Uint::sqrt_vartime", a.sqrt_vartime());
    rt!(r, "Uint::wrapping_sqrt", a.wrapping_sqrt());
    rt!(r, "Uint::wrapping_sqrt_vartime", a.wrapping_sqrt_vartime());
    rt!(r, "<Uint as SquareRoot>::sqrt", SquareRoot::sqrt(&a));
    rt!(r, "<Uint as SquareRoot>::sqrt_vartime", SquareRoot::sqrt_vartime(&a));
    rt!(r, "BoxedUint::sqrt", ba.sqrt());
    rt!(r, "BoxedUint::sqrt_vartime", ba.sqrt_vartime());
    rt!(r, "BoxedUint::wrapping_sqrt", ba.wrapping_sqrt());
    rt!(r, "BoxedUint::wrapping_sqrt_vartime", ba.wrapping_sqrt_vartime());
    rt!(r, "<BoxedUint as SquareRoot>::sqrt", SquareRoot::sqrt(&ba));
    rt!(r, "<BoxedUint as SquareRoot>::sqrt_vartime", SquareRoot::sqrt_vartime(&ba));
    let root = a.sqrt();
    let exact = root.wrapping_mul(&root) == a; // root < 2^(B/2), the square cannot overflow
    c.label(if exact { "sqrt: perfect square" } else { "sqrt: not a square" });
    let r = Routes::new("checked_sqrt", "Uint::sqrt + square", if exact { Out::val(ul(&root)) } else { Out::none() });
    rt!(r, "Uint::checked_sqrt", a.checked_sqrt());
    rt!(r, "Uint::checked_sqrt_vartime", a.checked_sqrt_vartime());
    rt!(r, "BoxedUint::checked_sqrt", ba.checked_sqrt());
    rt!(r, "BoxedUint::checked_sqrt_vartime", ba.checked_sqrt_vartime());
    Ok(())
}
