//! C03 — multiplication and squaring return the exact product for all widths.
//!
//! Oracle: `num_bigint::BigUint` product, split / truncated to the documented shape of each form.

use crypto_bigint::{BoxedUint, Checked, CheckedMul, Concat, Limb, Uint, WideningMul, Wrapping, WrappingMul};
use num_bigint::BigUint;
use vmodel::gen;
use vmodel::*;

mod surface;

pub fn spec() -> PropSpec {
    PropSpec {
        id: "C03",
        rule: "cases: operand pairs built from edge shapes (constants, 2^k±1, patterned limbs 0/MAX/…, runs of ones, random bit length, uniform, zero-padded), related operands, and a recursive Karatsuba-half construction (halves equal / ±1 / zero / ordered oppositely at every split level); every multiplication / squaring form of the width is checked on each pair against the BigUint product. non-trivial: both operands have >= 2 significant bits and the exact product needs more than one limb; distinct by the operand limbs (+ widths). surface/* (API-surface audit, /verif/audit/B.md): the same generators and rule at further widths (13, 15, 17, 24, 33 limbs, more mixed and Concat widths) and through further routes (generic functions, by-reference wrapper forms, Checked operands that are none or were built through From<CtOption> / constant-time selection / a bincode round trip; limb pairs also as (a, floor(MAX/a) + {-1,0,1})); pow route (num_traits::pow): exponent 0..7, base arbitrary / of about BITS/e bits (powers on both sides of 2^BITS) / below 4, non-trivial when the base has >= 2 bits, the exponent is >= 2 and the power needs more than one limb. Since seeding round 4: Karatsuba operands with an all-ones middle column of the square (x1 = s, x0 = b - (s^2+1)/2 +- 1, at every recursion level), and the source-literal dictionary (one pair in twelve).",
        assumptions: vec![
            "num-bigint multiplication is correct (independent implementation)".into(),
            "bridging uses from_words/to_words only".into(),
        ],
        subchecks,
    }
}

// ------------------------------------------------------------------------------------------------
// generators

/// Recursive operand builder: at each even split, the high half is related to the low half
/// (equal, ±1, complement, …) or built independently, down to small sizes.
pub(crate) fn kara_build(t: &mut Tape, n: usize) -> Limbs {
    if n < 4 || n % 2 == 1 || t.chance(1, 4) {
        return gen::limbs(t, n);
    }
    let h = n / 2;
    if t.chance(1, 10) {
        // x = x1 * b + x0 (b = 2^(64h)) with hi(x0^2) + lo(x1^2) = b - 1 (+ a small offset): the middle
        // column of the Karatsuba recombination of x^2 is all ones, so a carry from the column below
        // has to ripple through a whole half. x1 = s odd and small, x0 = b - (s^2 + 1)/2 gives exactly
        // b - 1; the offsets and x1 * x0 variants land next to it.
        let s = (t.edgy(1 << 30) | 1) as u128;
        let c = (s * s + 1) / 2;
        let c = match t.below(4) {
            0 | 1 => c,
            2 => c + 1,
            _ => c.saturating_sub(1).max(1),
        };
        // x0 = b - c
        let mut lo = vec![u64::MAX; h];
        let (c0, c1) = (c as u64, (c >> 64) as u64);
        let (d0, br) = u64::MAX.overflowing_sub(c0.wrapping_sub(1));
        lo[0] = d0;
        let _ = br;
        if h >= 2 && c1 > 0 {
            lo[1] = u64::MAX - c1;
        }
        let mut hi = vec![0u64; h];
        hi[0] = s as u64;
        let mut v = if t.chance(3, 4) { [lo, hi].concat() } else { [hi, lo].concat() };
        v.truncate(n);
        return v;
    }
    let lo = kara_build(t, h);
    let hi = match t.weighted(&[3, 2, 1, 3]) {
        0 => gen::related(t, &lo),
        1 => vec![0; h],
        2 => vec![u64::MAX; h],
        _ => kara_build(t, h),
    };
    let mut v = if t.bool() { [lo, hi].concat() } else { [hi, lo].concat() };
    v.truncate(n);
    v
}

pub(crate) fn operand(t: &mut Tape, n: usize) -> Limbs {
    if n >= 4 && t.chance(1, 2) {
        kara_build(t, n)
    } else {
        gen::limbs(t, n)
    }
}

pub(crate) fn mul_pair(t: &mut Tape, l: usize, r: usize) -> (Limbs, Limbs) {
    let a = operand(t, l);
    let b = if l == r && t.chance(1, 3) {
        // related operand: same halves swapped, or a Rel transform
        if l >= 2 && l % 2 == 0 && t.bool() {
            let h = l / 2;
            [&a[h..], &a[..h]].concat()
        } else {
            gen::related(t, &a)
        }
    } else {
        operand(t, r)
    };
    let (mut a, mut b) = (a, b);
    // a limb tied to an integer literal of the source under test (fuzzer-style dictionary)
    gen::dict_salt(t, &mut a, &mut b);
    (a, b)
}

pub(crate) fn classify(c: &mut Case, a: &[u64], b: &[u64], prod: &BigUint) {
    let nt = bit_len(a) >= 2 && bit_len(b) >= 2 && prod.bits() > 64;
    c.nontrivial(nt);
    if a.len() == b.len() && a.len() >= 2 && a.len() % 2 == 0 {
        let h = a.len() / 2;
        let (x0, x1) = (big(&a[..h]), big(&a[h..]));
        let (y0, y1) = (big(&b[..h]), big(&b[h..]));
        let sx = x0.cmp(&x1);
        let sy = y1.cmp(&y0);
        use std::cmp::Ordering::*;
        let lab = match (sx, sy) {
            (Equal, _) | (_, Equal) => "halves: a difference is zero",
            (Less, Less) | (Greater, Greater) => "halves: z1 >= 0",
            _ => "halves: z1 < 0",
        };
        c.label(lab);
    }
    if a.iter().chain(b.iter()).all(|&w| w == 0 || w == u64::MAX) {
        c.label("all limbs in {0,MAX}");
    }
}

// ------------------------------------------------------------------------------------------------
// Limb

fn limb_case(t: &mut Tape, c: &mut Case) -> CaseResult {
    let (a, b, x, carry) = (gen::word(t), gen::word(t), gen::word(t), gen::word(t));
    c.num("a", a);
    c.num("b", b);
    c.num("acc", x);
    c.num("carry", carry);
    let p = a as u128 * b as u128;
    c.nontrivial(p >> 64 != 0);
    let (la, lb) = (Limb(a), Limb(b));
    // mac: acc + a*b + carry, exact for every word value (fits 2 limbs)
    let m = x as u128 + p + carry as u128;
    let (lo, hi) = total("Limb::mac", || Limb(x).mac(la, lb, Limb(carry)))?;
    veq!((lo.0, hi.0), (m as u64, (m >> 64) as u64), "Limb::mac");
    veq!(la.wrapping_mul(lb).0, p as u64, "Limb::wrapping_mul");
    veq!(WrappingMul::wrapping_mul(&la, &lb).0, p as u64, "WrappingMul for Limb");
    let sat = if p >> 64 != 0 { u64::MAX } else { p as u64 };
    veq!(la.saturating_mul(lb).0, sat, "Limb::saturating_mul");
    let ck = la.checked_mul(&lb);
    veq!(bool::from(ck.is_some()), p >> 64 == 0, "Limb::checked_mul is_some");
    if p >> 64 == 0 {
        veq!(ck.unwrap().0, p as u64, "Limb::checked_mul value");
    }
    let ops: [(&str, Box<dyn Fn() -> Limb>); 4] = [
        ("Limb * Limb", Box::new(move || la * lb)),
        ("Limb * &Limb", Box::new(move || la * &lb)),
        ("&Limb * Limb", Box::new(move || &la * lb)),
        ("&Limb * &Limb", Box::new(move || &la * &lb)),
    ];
    for (name, f) in ops.iter() {
        match guard(|| f()) {
            Ok(v) => {
                vensure!(p >> 64 == 0, "{name}: returned {:#x} although the product overflows", v.0);
                veq!(v.0, p as u64, "{name}");
            }
            Err(_) => vensure!(p >> 64 != 0, "{name}: panicked although the product fits"),
        }
    }
    // Wrapping / Checked wrappers
    let w = Wrapping(la) * Wrapping(lb);
    veq!(w.0 .0, p as u64, "Wrapping<Limb> *");
    let mut w2 = Wrapping(la);
    w2 *= Wrapping(lb);
    veq!(w2.0 .0, p as u64, "Wrapping<Limb> *=");
    let mut w3 = Wrapping(la);
    w3 *= &Wrapping(lb);
    veq!(w3.0 .0, p as u64, "Wrapping<Limb> *= &");
    let ch = Checked::new(la) * Checked::new(lb);
    veq!(bool::from(ch.0.is_some()), p >> 64 == 0, "Checked<Limb> * is_some");
    let mut ch2 = Checked::new(la);
    ch2 *= Checked::new(lb);
    veq!(bool::from(ch2.0.is_some()), p >> 64 == 0, "Checked<Limb> *= is_some");
    if p >> 64 == 0 {
        veq!(ch.0.unwrap().0, p as u64, "Checked<Limb> * value");
        veq!(ch2.0.unwrap().0, p as u64, "Checked<Limb> *= value");
    }
    Ok(())
}

// ------------------------------------------------------------------------------------------------
// fixed widths

pub(crate) fn fixed_mul<const L: usize, const R: usize>(t: &mut Tape, c: &mut Case) -> CaseResult {
    let (al, bl_) = mul_pair(t, L, R);
    c.limbs("a", &al);
    c.limbs("b", &bl_);
    let (a, b) = (uint::<L>(&al), uint::<R>(&bl_));
    let prod = big(&al) * big(&bl_);
    classify(c, &al, &bl_, &prod);
    let want_lo = limbs_of(&prod, L);
    let want_hi = limbs_of(&(&prod >> (64 * L as u64)), R);
    let overflow = !is_zero(&want_hi);
    if overflow {
        c.label("overflows lhs width");
    }

    let (lo, hi) = total("split_mul", || a.split_mul(&b))?;
    veq!(ul(&lo), want_lo, "split_mul lo (U{}xU{})", 64 * L, 64 * R);
    veq!(ul(&hi), want_hi, "split_mul hi (U{}xU{})", 64 * L, 64 * R);
    // commuted
    let (lo2, hi2) = total("split_mul commuted", || b.split_mul(&a))?;
    let want_lo2 = limbs_of(&prod, R);
    let want_hi2 = limbs_of(&(&prod >> (64 * R as u64)), L);
    veq!(ul(&lo2), want_lo2, "split_mul commuted lo (U{}xU{})", 64 * R, 64 * L);
    veq!(ul(&hi2), want_hi2, "split_mul commuted hi (U{}xU{})", 64 * R, 64 * L);

    veq!(ul(&a.wrapping_mul(&b)), want_lo, "wrapping_mul");
    let sat = if overflow { vec![u64::MAX; L] } else { want_lo.clone() };
    veq!(ul(&a.saturating_mul(&b)), sat, "saturating_mul");
    let ck = CheckedMul::checked_mul(&a, &b);
    veq!(bool::from(ck.is_some()), !overflow, "checked_mul is_some");
    if !overflow {
        veq!(ul(&ck.unwrap()), want_lo, "checked_mul value");
    }
    let ops: [(&str, Box<dyn Fn() -> Uint<L>>); 6] = [
        ("Uint * Uint", Box::new(move || a * b)),
        ("Uint * &Uint", Box::new(move || a * &b)),
        ("&Uint * Uint", Box::new(move || &a * b)),
        ("&Uint * &Uint", Box::new(move || &a * &b)),
        ("Uint *= Uint", Box::new(move || { let mut x = a; x *= b; x })),
        ("Uint *= &Uint", Box::new(move || { let mut x = a; x *= &b; x })),
    ];
    for (name, f) in ops.iter() {
        match guard(|| f()) {
            Ok(v) => {
                vensure!(!overflow, "{name}: returned although the product overflows the lhs width");
                veq!(ul(&v), want_lo, "{name}");
            }
            Err(_) => vensure!(overflow, "{name}: panicked although the product fits"),
        }
    }
    Ok(())
}

/// equal-width-only forms: trait WrappingMul, Wrapping / Checked wrappers, squaring
pub(crate) fn fixed_sq<const L: usize>(t: &mut Tape, c: &mut Case) -> CaseResult {
    let (al, bl_) = mul_pair(t, L, L);
    c.limbs("a", &al);
    c.limbs("b", &bl_);
    let (a, b) = (uint::<L>(&al), uint::<L>(&bl_));
    let prod = big(&al) * big(&bl_);
    classify(c, &al, &al, &(big(&al) * big(&al)));
    let want_lo = limbs_of(&prod, L);
    let overflow = prod.bits() > 64 * L as u64;

    veq!(ul(&WrappingMul::wrapping_mul(&a, &b)), want_lo, "WrappingMul::wrapping_mul");
    veq!(ul(&(Wrapping(a) * Wrapping(b)).0), want_lo, "Wrapping * Wrapping");
    veq!(ul(&(Wrapping(a) * &Wrapping(b)).0), want_lo, "Wrapping * &Wrapping");
    veq!(ul(&(&Wrapping(a) * Wrapping(b)).0), want_lo, "&Wrapping * Wrapping");
    veq!(ul(&(&Wrapping(a) * &Wrapping(b)).0), want_lo, "&Wrapping * &Wrapping");
    let mut w = Wrapping(a);
    w *= Wrapping(b);
    veq!(ul(&w.0), want_lo, "Wrapping *=");
    let mut w = Wrapping(a);
    w *= &Wrapping(b);
    veq!(ul(&w.0), want_lo, "Wrapping *= &");
    let mut chs = vec![
        ("Checked * Checked", Checked::new(a) * Checked::new(b)),
        ("Checked * &Checked", Checked::new(a) * &Checked::new(b)),
        ("&Checked * Checked", &Checked::new(a) * Checked::new(b)),
        ("&Checked * &Checked", &Checked::new(a) * &Checked::new(b)),
    ];
    let mut x = Checked::new(a);
    x *= Checked::new(b);
    chs.push(("Checked *=", x));
    let mut x = Checked::new(a);
    x *= &Checked::new(b);
    chs.push(("Checked *= &", x));
    for (name, ch) in chs {
        veq!(bool::from(ch.0.is_some()), !overflow, "{name} is_some");
        if !overflow {
            veq!(ul(&ch.0.unwrap()), want_lo, "{name} value");
        }
    }
    // a none operand stays none
    let none = Checked::<Uint<L>>(subtle::CtOption::new(a, 0.into()));
    vensure!(!bool::from((none * Checked::new(Uint::<L>::ONE)).0.is_some()), "Checked: none * 1 must stay none");

    // squaring
    let sq = big(&al) * big(&al);
    let s_lo = limbs_of(&sq, L);
    let s_hi = limbs_of(&(&sq >> (64 * L as u64)), L);
    let s_over = !is_zero(&s_hi);
    let (lo, hi) = total("square_wide", || a.square_wide())?;
    veq!(ul(&lo), s_lo, "square_wide lo (U{})", 64 * L);
    veq!(ul(&hi), s_hi, "square_wide hi (U{})", 64 * L);
    let (mlo, mhi) = a.split_mul(&a);
    veq!((ul(&lo), ul(&hi)), (ul(&mlo), ul(&mhi)), "square_wide == split_mul(a, a)");
    veq!(ul(&a.wrapping_square()), s_lo, "wrapping_square");
    let sat = if s_over { vec![u64::MAX; L] } else { s_lo.clone() };
    veq!(ul(&a.saturating_square()), sat, "saturating_square");
    let cs = a.checked_square();
    veq!(bool::from(cs.is_some()), !s_over, "checked_square is_some");
    if !s_over {
        veq!(ul(&cs.unwrap()), s_lo, "checked_square value");
    }
    Ok(())
}

/// widening forms for widths with a `Concat` impl (W = 2L)
pub(crate) fn fixed_wide<const L: usize, const W: usize>(t: &mut Tape, c: &mut Case) -> CaseResult
where
    Uint<L>: Concat<Output = Uint<W>>,
    Uint<L>: crypto_bigint::ConcatMixed<Uint<L>, MixedOutput = Uint<W>>,
{
    let (al, bl_) = mul_pair(t, L, L);
    c.limbs("a", &al);
    c.limbs("b", &bl_);
    let (a, b) = (uint::<L>(&al), uint::<L>(&bl_));
    let prod = big(&al) * big(&bl_);
    classify(c, &al, &bl_, &prod);
    let want = limbs_of(&prod, W);
    veq!(ul(&total("widening_mul", || a.widening_mul(&b))?), want, "Uint::widening_mul (U{})", 64 * L);
    veq!(ul(&WideningMul::widening_mul(&a, b)), want, "WideningMul::widening_mul by value");
    veq!(ul(&WideningMul::widening_mul(&a, &b)), want, "WideningMul::widening_mul by ref");
    let sq = limbs_of(&(big(&al) * big(&al)), W);
    veq!(ul(&a.widening_square()), sq, "widening_square");
    veq!(ul(&a.square()), sq, "square");
    Ok(())
}

/// mixed widening forms (W = L + R) where `ConcatMixed` exists
pub(crate) fn fixed_wide_mixed<const L: usize, const R: usize, const W: usize>(t: &mut Tape, c: &mut Case) -> CaseResult
where
    Uint<L>: crypto_bigint::ConcatMixed<Uint<R>, MixedOutput = Uint<W>>,
{
    let (al, bl_) = mul_pair(t, L, R);
    c.limbs("a", &al);
    c.limbs("b", &bl_);
    let (a, b) = (uint::<L>(&al), uint::<R>(&bl_));
    let prod = big(&al) * big(&bl_);
    classify(c, &al, &bl_, &prod);
    let want = limbs_of(&prod, W);
    veq!(ul(&total("widening_mul mixed", || a.widening_mul(&b))?), want, "Uint::widening_mul (U{}xU{})", 64 * L, 64 * R);
    veq!(ul(&WideningMul::widening_mul(&a, b)), want, "WideningMul mixed by value");
    veq!(ul(&WideningMul::widening_mul(&a, &b)), want, "WideningMul mixed by ref");
    Ok(())
}

// ------------------------------------------------------------------------------------------------
// boxed

pub(crate) const BOXED_BIASED: [usize; 24] = [1, 2, 3, 4, 7, 8, 15, 16, 17, 24, 25, 31, 32, 33, 34, 47, 48, 49, 50, 63, 64, 65, 66, 96];

pub(crate) fn boxed_len(t: &mut Tape, max: usize) -> usize {
    let n = match t.weighted(&[3, 1]) {
        0 => t.pick(&BOXED_BIASED),
        _ => t.usize_in(1, max),
    };
    n.min(max)
}

fn boxed_mul_case(max: usize) -> impl Fn(&mut Tape, &mut Case) -> CaseResult {
    move |t, c| {
        let l = boxed_len(t, max);
        let r = match t.weighted(&[2, 2, 3]) {
            0 => l,
            1 => (l + t.usize_in(0, 3)).min(max).max(1),
            _ => boxed_len(t, max),
        };
        let (l, r) = if t.bool() { (l, r) } else { (r, l) };
        let (al, bl_) = mul_pair(t, l, r);
        c.limbs("a", &al);
        c.limbs("b", &bl_);
        c.label(if l.min(r) >= 32 { "boxed: karatsuba path" } else { "boxed: schoolbook path" });
        if l.min(r) >= 32 && l != r {
            c.label("boxed: karatsuba with unequal lengths");
        }
        let (a, b) = (boxed(&al), boxed(&bl_));
        let prod = big(&al) * big(&bl_);
        classify(c, &al, &bl_, &prod);
        let want = limbs_of(&prod, l + r);
        let want_lo = limbs_of(&prod, l);
        let overflow = prod.bits() > 64 * l as u64;

        let p = total("BoxedUint::mul", || a.mul(&b))?;
        veq!(p.nlimbs(), l + r, "BoxedUint::mul result limbs");
        veq!(bl(&p), want, "BoxedUint::mul ({l}x{r} limbs)");
        veq!(bl(&total("BoxedUint::mul commuted", || b.mul(&a))?), want, "BoxedUint::mul commuted ({r}x{l} limbs)");
        let w = total("BoxedUint::wrapping_mul", || a.wrapping_mul(&b))?;
        veq!(bl(&w), want_lo, "BoxedUint::wrapping_mul ({l}x{r})");
        veq!(bl(&WrappingMul::wrapping_mul(&a, &b)), want_lo, "WrappingMul for BoxedUint");
        let ck = total("BoxedUint::checked_mul", || a.checked_mul(&b))?;
        veq!(bool::from(ck.is_some()), !overflow, "BoxedUint::checked_mul is_some ({l}x{r})");
        if !overflow {
            veq!(bl(&Option::<BoxedUint>::from(ck).unwrap()), want_lo, "BoxedUint::checked_mul value");
        }
        veq!(bl(&WideningMul::widening_mul(&a, &b)), want, "WideningMul<&BoxedUint>");
        veq!(bl(&WideningMul::widening_mul(&a, b.clone())), want, "WideningMul<BoxedUint>");
        // &a * &b: documented as checked (panics on overflow of the lhs width)
        match guard(|| &a * &b) {
            Ok(v) => {
                vensure!(!overflow, "&BoxedUint * &BoxedUint returned although the product overflows");
                veq!(bl(&v), want_lo, "&BoxedUint * &BoxedUint");
            }
            Err(_) => vensure!(overflow, "&BoxedUint * &BoxedUint panicked although the product fits"),
        }
        // by-value operator forms and *=: whatever their width, the value must be the exact product
        // (they return the widened product; the width question belongs to C15)
        let forms: [(&str, Box<dyn Fn() -> BoxedUint>); 5] = [
            ("BoxedUint * BoxedUint", Box::new(|| a.clone() * b.clone())),
            ("BoxedUint * &BoxedUint", Box::new(|| a.clone() * &b)),
            ("&BoxedUint * BoxedUint", Box::new(|| &a * b.clone())),
            ("BoxedUint *= BoxedUint", Box::new(|| { let mut x = a.clone(); x *= b.clone(); x })),
            ("BoxedUint *= &BoxedUint", Box::new(|| { let mut x = a.clone(); x *= &b; x })),
        ];
        for (name, f) in forms.iter() {
            match guard(|| f()) {
                Ok(v) => {
                    let got = bbig(&v);
                    if v.nlimbs() >= l + r || !overflow {
                        vensure!(got == prod, "{name}: got {:x}, want exact product {:x}", got, prod);
                    } else {
                        vfail!("{name}: returned a {}-limb value although the product overflows and no panic occurred", v.nlimbs());
                    }
                }
                Err(m) => vensure!(overflow, "{name}: panicked ({m}) although the product fits"),
            }
        }
        let mut wr = Wrapping(a.clone());
        wr *= Wrapping(b.clone());
        veq!(bl(&wr.0), want_lo, "Wrapping<BoxedUint> *=");
        let mut wr = Wrapping(a.clone());
        wr *= &Wrapping(b.clone());
        veq!(bl(&wr.0), want_lo, "Wrapping<BoxedUint> *= &");
        // the four generic operator forms of the wrapper (src/wrapping.rs, through WrappingMul):
        // "wrapping to the width of `self`", i.e. of the left operand, also for unequal precisions
        let (wa, wb) = (Wrapping(a.clone()), Wrapping(b.clone()));
        let wforms: [(&str, Box<dyn Fn() -> Wrapping<BoxedUint>>); 4] = [
            ("Wrapping<BoxedUint> * Wrapping<BoxedUint>", Box::new(|| wa.clone() * wb.clone())),
            ("Wrapping<BoxedUint> * &Wrapping<BoxedUint>", Box::new(|| wa.clone() * &wb)),
            ("&Wrapping<BoxedUint> * Wrapping<BoxedUint>", Box::new(|| &wa * wb.clone())),
            ("&Wrapping<BoxedUint> * &Wrapping<BoxedUint>", Box::new(|| &wa * &wb)),
        ];
        for (name, f) in wforms.iter() {
            let v = total(name, || f())?;
            veq!(bl(&v.0), want_lo, "{name} ({l}x{r} limbs)");
        }
        Ok(())
    }
}

fn boxed_square_case(max: usize) -> impl Fn(&mut Tape, &mut Case) -> CaseResult {
    move |t, c| {
        let l = boxed_len(t, max);
        let al = operand(t, l);
        c.limbs("a", &al);
        c.label(if l >= 64 && l % 2 == 0 { "boxed square: karatsuba path" } else { "boxed square: schoolbook path" });
        let a = boxed(&al);
        let sq = big(&al) * big(&al);
        classify(c, &al, &al, &sq);
        let s = total("BoxedUint::square", || a.square())?;
        veq!(s.nlimbs(), 2 * l, "BoxedUint::square result limbs");
        veq!(bl(&s), limbs_of(&sq, 2 * l), "BoxedUint::square ({l} limbs)");
        veq!(bl(&a.mul(&a)), limbs_of(&sq, 2 * l), "BoxedUint::mul(a, a) ({l} limbs)");
        Ok(())
    }
}

// ------------------------------------------------------------------------------------------------

macro_rules! fixed_eq {
    ($v:ident, $q:expr; $($n:literal),*) => { $(
        $v.push(SubCheck::new(format!("fixed/mul/U{}xU{}", 64*$n, 64*$n), $q, fixed_mul::<$n, $n>).tape(16 + 3 * $n));
        $v.push(SubCheck::new(format!("fixed/square+wrappers/U{}", 64*$n), $q, fixed_sq::<$n>).tape(16 + 3 * $n));
    )* };
}
macro_rules! fixed_mixed {
    ($v:ident, $q:expr; $(($l:literal, $r:literal)),*) => { $(
        $v.push(SubCheck::new(format!("fixed/mul/U{}xU{}", 64*$l, 64*$r), $q, fixed_mul::<$l, $r>).tape(16 + 2 * ($l + $r)));
    )* };
}
macro_rules! fixed_widening {
    ($v:ident, $q:expr; $(($l:literal, $w:literal)),*) => { $(
        $v.push(SubCheck::new(format!("fixed/widening/U{}", 64*$l), $q, fixed_wide::<$l, $w>).tape(16 + 3 * $l));
    )* };
}
macro_rules! fixed_widening_mixed {
    ($v:ident, $q:expr; $(($l:literal, $r:literal, $w:literal)),*) => { $(
        $v.push(SubCheck::new(format!("fixed/widening/U{}xU{}", 64*$l, 64*$r), $q, fixed_wide_mixed::<$l, $r, $w>).tape(16 + 2 * ($l + $r)));
    )* };
}

fn subchecks(ctx: &Ctx) -> Vec<SubCheck> {
    let mut v = vec![];
    v.push(SubCheck::new("limb/mac+mul", 20000, limb_case).tape(16));
    fixed_eq!(v, 2500; 1, 2, 3, 4, 5, 6, 7, 8);
    fixed_eq!(v, 1500; 9, 10, 11, 12, 16);
    fixed_eq!(v, 800; 32);
    fixed_mixed!(v, 1200; (1, 2), (2, 1), (1, 4), (4, 1), (2, 3), (3, 2), (4, 8), (8, 4), (3, 7), (16, 1), (1, 16), (16, 8), (8, 16), (12, 5), (16, 32), (32, 16));
    fixed_widening!(v, 1200; (1, 2), (2, 4), (3, 6), (4, 8), (6, 12), (8, 16), (16, 32));
    fixed_widening_mixed!(v, 800; (1, 2, 3), (2, 1, 3), (1, 3, 4), (3, 1, 4), (2, 3, 5), (4, 3, 7), (5, 11, 16), (9, 7, 16), (15, 1, 16));
    if ctx.thorough() {
        fixed_eq!(v, 300; 64);
        fixed_eq!(v, 100; 128);
        fixed_mixed!(v, 300; (64, 32), (32, 64), (128, 1), (1, 128), (64, 128));
        fixed_widening!(v, 300; (32, 64), (64, 128), (128, 256));
    } else {
        fixed_eq!(v, 150; 64);
        fixed_eq!(v, 60; 128);
    }
    v.push(SubCheck::new("boxed/mul/1..=70", 6000, boxed_mul_case(70)).tape(200));
    v.push(SubCheck::new("boxed/mul/1..=140", 2500, boxed_mul_case(140)).tape(330));
    v.push(SubCheck::new("boxed/square/1..=140", 2500, boxed_square_case(140)).tape(200));
    // the first version of this crate ran 120k cases in 0.4 s; scale to a few seconds of quick work
    for sc in v.iter_mut() {
        let wide = sc.name.contains("U4096") || sc.name.contains("U8192") || sc.name.contains("U2048");
        sc.cases *= if wide { 6 } else { 20 };
    }
    // API-surface audit (/verif/audit/B.md): forms, routes and widths no sub-check above reaches
    v.extend(surface::subchecks(ctx));
    v
}
