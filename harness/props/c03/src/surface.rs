//! C03 surface — forms, routes and instantiations of the multiplication API that the sub-checks in
//! `lib.rs` do not call (API-surface audit, table in /verif/audit/B.md).
//!
//! What is asserted comes from the C03 statement ("wrapping forms return a*b mod 2^BITS, checked
//! forms are some exactly when a*b fits, ... the panicking operators panic exactly on overflow") and
//! from the item documentation quoted at each check:
//!
//!  * `Wrapping<Limb>`: the three by-reference operator forms (`src/wrapping.rs:104,113,122` with
//!    `T = Limb`), `Checked<Limb>`: the three by-reference forms and `*= &` (`src/checked.rs:159,174,189`,
//!    `src/limb/mul.rs:106`), with `some` operands (value) and with `none` operands (sticky).
//!  * `Checked<Uint<N>>`: a `none` operand through every operator form (c03 probed `none * some` by
//!    value only; the all-forms probe lived in C04 for U64 / U128 / U256).
//!  * generic-function routes: `fn f<T: Integer>` (`*`, `* &`, `*=`, `*= &`), `fn f<T: CheckedMul>`,
//!    `fn f<T: WrappingMul>`, `fn f<T: WideningMul<R>>` for `T` in {`Limb`, `Uint<N>`, `BoxedUint`};
//!    `num_traits::pow` (generic over `One + Mul`) for `Limb`, `Uint<N>`, `BoxedUint` and their
//!    `Wrapping<_>` wrappers (the only caller of `num_traits::One for Wrapping<T>` together with the
//!    by-value `Mul`).
//!  * wrappers whose operands were *constructed through another route* before use: `From<CtOption>`,
//!    `conditional_select`, `ConstantTimeSelect::{ct_select, ct_assign, ct_swap}`, bincode round trip
//!    (`Deserialize for Checked<T>` / `Wrapping<T>`).
//!  * widths: limb counts outside the listed 1..12,16,32,64,128 (13, 15, 17, 24, 33 and mixed pairs
//!    with them), widening forms at the `Concat` widths not yet instantiated (5→10, 7→14, 10→20,
//!    12→24, 33→66) and further `ConcatMixed` pairs.
//!
//! Non-trivial (the crate's rule): both operands have >= 2 significant bits and the exact product
//! needs more than one limb; for the `pow` route: base >= 2 bits, exponent >= 2, power > one limb.

use crate::{boxed_len, classify, fixed_mul, fixed_sq, fixed_wide, fixed_wide_mixed, mul_pair};
use crypto_bigint::{
    BoxedUint, Checked, CheckedMul, Concat, ConcatMixed, ConstantTimeSelect, Encoding, Integer, Limb, Uint, WideningMul, Wrapping,
    WrappingMul,
};
use num_bigint::BigUint;
use subtle::{Choice, ConditionallySelectable, CtOption};
use vmodel::gen;
use vmodel::*;

// ------------------------------------------------------------------------------------------------
// generic-function routes

/// `fn f<T: Integer>`: the four operator forms the `Integer` bound provides
/// (`Mul<Output = Self>`, `for<'a> Mul<&'a Self, Output = Self>`, `MulAssign<Self>`, `for<'a> MulAssign<&'a Self>`).
fn g_integer_mul<T: Integer>(a: &T, b: &T) -> [(&'static str, Result<T, String>); 4] {
    [
        ("fn<T: Integer> a * b", guard(|| a.clone() * b.clone())),
        ("fn<T: Integer> a * &b", guard(|| a.clone() * b)),
        ("fn<T: Integer> a *= b", guard(|| {
            let mut x = a.clone();
            x *= b.clone();
            x
        })),
        ("fn<T: Integer> a *= &b", guard(|| {
            let mut x = a.clone();
            x *= b;
            x
        })),
    ]
}

fn g_checked<T: CheckedMul>(a: &T, b: &T) -> CtOption<T> {
    a.checked_mul(b)
}

fn g_wrapping<T: WrappingMul>(a: &T, b: &T) -> T {
    a.wrapping_mul(b)
}

fn g_widening<T: WideningMul<R>, R>(a: &T, b: R) -> T::Output {
    a.widening_mul(b)
}

/// `num_traits::pow` is generic over `Clone + One + Mul<T, Output = T>`
fn g_pow<T: Clone + num_traits::One + core::ops::Mul<T, Output = T>>(base: &T, e: usize) -> T {
    num_traits::pow(base.clone(), e)
}

// ------------------------------------------------------------------------------------------------
// Limb

/// (a, b) with products on both sides of 2^64 (construction: b = floor(MAX / a) + {0, 1, -1})
fn limb_pair(t: &mut Tape) -> (u64, u64) {
    let a = gen::word(t);
    let b = match t.weighted(&[3, 2, 2, 1]) {
        0 => gen::word(t),
        1 if a != 0 => u64::MAX / a,
        2 if a != 0 => (u64::MAX / a).wrapping_add(1),
        3 if a != 0 => (u64::MAX / a).saturating_sub(1),
        _ => gen::word(t),
    };
    if t.bool() {
        (a, b)
    } else {
        (b, a)
    }
}

fn copt<T>(c: Checked<T>) -> Option<T> {
    Option::<T>::from(c.0)
}

fn none_of<T>(x: T) -> Checked<T> {
    Checked(CtOption::new(x, Choice::from(0)))
}

/// All six operator forms of `Checked<T>` multiplication for a `Copy` integer.
macro_rules! checked_mul_forms {
    ($x:expr, $y:expr) => {{
        let (x, y) = ($x, $y);
        let mut z1 = x;
        z1 *= y;
        let mut z2 = x;
        z2 *= &y;
        [
            ("Checked * Checked", x * y),
            ("Checked * &Checked", x * &y),
            ("&Checked * Checked", &x * y),
            ("&Checked * &Checked", &x * &y),
            ("Checked *= Checked", z1),
            ("Checked *= &Checked", z2),
        ]
    }};
}

/// All six operator forms of `Wrapping<T>` multiplication for a `Copy` integer.
macro_rules! wrapping_mul_forms {
    ($x:expr, $y:expr) => {{
        let (x, y) = ($x, $y);
        let mut z1 = x;
        z1 *= y;
        let mut z2 = x;
        z2 *= &y;
        [
            ("Wrapping * Wrapping", x * y),
            ("Wrapping * &Wrapping", x * &y),
            ("&Wrapping * Wrapping", &x * y),
            ("&Wrapping * &Wrapping", &x * &y),
            ("Wrapping *= Wrapping", z1),
            ("Wrapping *= &Wrapping", z2),
        ]
    }};
}

/// `none` must stay `none` through every operator form, whichever operand it is and whatever the
/// other operand is (C03: "checked forms are some exactly when a*b fits" — an earlier overflow that a
/// `none` operand records does not fit).
macro_rules! checked_none_sticky {
    ($ty:expr, $t:expr, $c:expr, $a:expr, $b:expr, $one:expr, $zero:expr) => {{
        let which = $t.below(3);
        // the visible operand: the drawn one, or 0 / 1 (which make the arithmetic itself succeed)
        let vis = $t.below(3);
        $c.num("none_operand", which);
        $c.num("visible_operand_class", vis);
        $c.label(match which {
            0 => "checked: lhs none",
            1 => "checked: rhs none",
            _ => "checked: both none",
        });
        let pickv = |x| match vis {
            0 => x,
            1 => $one,
            _ => $zero,
        };
        let (x, y) = match which {
            0 => (none_of($a), Checked::new(pickv($b))),
            1 => (Checked::new(pickv($a)), none_of($b)),
            _ => (none_of($a), none_of($b)),
        };
        for (name, v) in total("Checked none forms", || checked_mul_forms!(x, y))? {
            vensure!(copt(v).is_none(), "{}: {name}: a none operand must stay none, but the result is some", $ty);
        }
    }};
}

fn limb_surface(t: &mut Tape, c: &mut Case) -> CaseResult {
    let (a, b) = limb_pair(t);
    c.num("a", a);
    c.num("b", b);
    let p = a as u128 * b as u128;
    let overflow = p >> 64 != 0;
    c.nontrivial(64 - a.leading_zeros() >= 2 && 64 - b.leading_zeros() >= 2 && overflow);
    c.label(if overflow { "limb: product overflows" } else { "limb: product fits" });
    if p == u64::MAX as u128 || (p >> 64 == 0 && (p as u64) > u64::MAX - a.max(b)) {
        c.label("limb: product just below 2^64");
    }
    let (la, lb) = (Limb(a), Limb(b));

    // Wrapping<Limb>: "wrapping forms return a*b mod 2^BITS"
    for (name, v) in total("Wrapping<Limb> forms", || wrapping_mul_forms!(Wrapping(la), Wrapping(lb)))? {
        veq!(v.0 .0, p as u64, "Wrapping<Limb>: {name}");
    }
    // Checked<Limb>: "checked forms are some exactly when a*b fits"
    for (name, v) in total("Checked<Limb> forms", || checked_mul_forms!(Checked::new(la), Checked::new(lb)))? {
        veq!(copt(v).map(|x| x.0), if overflow { None } else { Some(p as u64) }, "Checked<Limb>: {name}");
    }
    checked_none_sticky!("Checked<Limb>", t, c, la, lb, Limb::ONE, Limb::ZERO);

    // generic-function routes
    veq!(Option::<Limb>::from(g_checked(&la, &lb)).map(|x| x.0), if overflow { None } else { Some(p as u64) }, "fn<T: CheckedMul>(Limb)");
    veq!(g_wrapping(&la, &lb).0, p as u64, "fn<T: WrappingMul>(Limb)");

    // operands constructed through another route
    let decoy = Limb(gen::word(t));
    c.num("decoy", decoy.0);
    routes_copy(
        "Limb",
        la,
        lb,
        decoy,
        &|x: &Limb| vec![x.0],
        &vec![p as u64],
        overflow,
    )
}

/// `Checked<T>` / `Wrapping<T>` operands that went through `From<CtOption>`, constant-time selection
/// (subtle: "Select `a` or `b` according to `choice`: `a` if `choice == Choice(0)`; `b` if
/// `choice == Choice(1)`") or a bincode round trip before being multiplied.
fn routes_copy<T>(ty: &str, a: T, b: T, decoy: T, key: &dyn Fn(&T) -> Limbs, want_lo: &Limbs, overflow: bool) -> CaseResult
where
    T: Copy + CheckedMul + WrappingMul + ConditionallySelectable + Default + serde::Serialize + serde::de::DeserializeOwned,
    Checked<T>: core::ops::MulAssign + for<'x> core::ops::MulAssign<&'x Checked<T>>,
    Wrapping<T>: core::ops::MulAssign + for<'x> core::ops::MulAssign<&'x Wrapping<T>>,
{
    let want = if overflow { None } else { Some(want_lo.clone()) };
    let (ca, cb) = (Checked::new(a), Checked::new(b));
    let (cd, nd) = (Checked::new(decoy), none_of(decoy));
    let ser = |what: &str, x: &Checked<T>| -> Result<Checked<T>, Fail> {
        let bytes = bincode::serialize(x).map_err(|e| Fail::new(format!("{ty}: bincode serialize {what}: {e}")))?;
        bincode::deserialize(&bytes).map_err(|e| Fail::new(format!("{ty}: bincode deserialize {what}: {e}")))
    };
    // (route name, lhs, rhs, expected none?)
    let mut routes: Vec<(&'static str, Checked<T>, Checked<T>, bool)> = vec![
        ("From<CtOption>(some)", Checked::from(CtOption::new(a, Choice::from(1))), Checked::from(CtOption::new(b, Choice::from(1))), false),
        ("From<CtOption>(none) lhs", Checked::from(CtOption::new(a, Choice::from(0))), cb, true),
        ("conditional_select(decoy, x, 1)", Checked::conditional_select(&cd, &ca, Choice::from(1)), Checked::conditional_select(&nd, &cb, Choice::from(1)), false),
        ("conditional_select(x, decoy, 0)", Checked::conditional_select(&ca, &nd, Choice::from(0)), Checked::conditional_select(&cb, &cd, Choice::from(0)), false),
        ("conditional_select(x, none, 1) rhs", ca, Checked::conditional_select(&cb, &none_of(b), Choice::from(1)), true),
        ("ct_select(decoy, x, 1)", ConstantTimeSelect::ct_select(&nd, &ca, Choice::from(1)), ConstantTimeSelect::ct_select(&cd, &cb, Choice::from(1)), false),
        ("bincode round trip (some)", ser("Checked(some)", &ca)?, ser("Checked(some)", &cb)?, false),
        ("bincode round trip (none) rhs", ca, ser("Checked(none)", &none_of(b))?, true),
        ("bincode round trip (none) lhs", ser("Checked(none)", &none_of(a))?, cb, true),
    ];
    {
        let (mut x, mut y) = (nd, cb);
        x.ct_assign(&ca, Choice::from(1));
        y.ct_assign(&nd, Choice::from(0));
        routes.push(("ct_assign", x, y, false));
        let (mut x, mut y) = (cb, ca);
        ConstantTimeSelect::ct_swap(&mut x, &mut y, Choice::from(1));
        routes.push(("ct_swap(1)", x, y, false));
        let (mut x, mut y) = (ca, none_of(b));
        ConstantTimeSelect::ct_swap(&mut x, &mut y, Choice::from(0));
        routes.push(("ct_swap(0) with none rhs", x, y, true));
    }
    for (route, x, y, none) in routes {
        let mut z = x;
        z *= &y;
        for (form, v) in [("*", x * y), ("*= &", z)] {
            let got = copt(v).map(|r| key(&r));
            if none {
                vensure!(got.is_none(), "Checked<{ty}> via {route}, {form}: a none operand must stay none");
            } else {
                veq!(got, want, "Checked<{ty}> via {route}, {form}");
            }
        }
    }
    let (wa, wb, wd) = (Wrapping(a), Wrapping(b), Wrapping(decoy));
    let wser = |x: &Wrapping<T>| -> Result<Wrapping<T>, Fail> {
        let bytes = bincode::serialize(x).map_err(|e| Fail::new(format!("{ty}: bincode serialize Wrapping: {e}")))?;
        bincode::deserialize(&bytes).map_err(|e| Fail::new(format!("{ty}: bincode deserialize Wrapping: {e}")))
    };
    let wroutes: [(&str, Wrapping<T>, Wrapping<T>); 3] = [
        ("conditional_select(decoy, x, 1)", Wrapping::conditional_select(&wd, &wa, Choice::from(1)), Wrapping::conditional_select(&wd, &wb, Choice::from(1))),
        ("conditional_select(x, decoy, 0)", Wrapping::conditional_select(&wa, &wd, Choice::from(0)), Wrapping::conditional_select(&wb, &wd, Choice::from(0))),
        ("bincode round trip", wser(&wa)?, wser(&wb)?),
    ];
    for (route, x, y) in wroutes {
        let mut z = x;
        z *= &y;
        veq!(key(&(x * y).0), *want_lo, "Wrapping<{ty}> via {route}, *");
        veq!(key(&z.0), *want_lo, "Wrapping<{ty}> via {route}, *= &");
    }
    Ok(())
}

// ------------------------------------------------------------------------------------------------
// Uint<N>

/// generic routes, `Checked` none through all forms, constructed operands; `W = 2N` (`Concat` width)
fn fixed_surface<const N: usize, const W: usize>(t: &mut Tape, c: &mut Case) -> CaseResult
where
    Uint<N>: Concat<Output = Uint<W>> + ConcatMixed<Uint<N>, MixedOutput = Uint<W>> + Encoding,
{
    let (al, bl_) = mul_pair(t, N, N);
    c.limbs("a", &al);
    c.limbs("b", &bl_);
    let (a, b) = (uint::<N>(&al), uint::<N>(&bl_));
    let prod = big(&al) * big(&bl_);
    classify(c, &al, &bl_, &prod);
    let want_lo = limbs_of(&prod, N);
    let overflow = prod.bits() > 64 * N as u64;
    if overflow {
        c.label("overflows lhs width");
    }
    // the panicking operators panic exactly on overflow
    for (name, r) in g_integer_mul(&a, &b) {
        match r {
            Ok(v) => {
                vensure!(!overflow, "{name} (Uint<{N}>): returned although the product overflows");
                veq!(ul(&v), want_lo, "{name} (Uint<{N}>)");
            }
            Err(_) => vensure!(overflow, "{name} (Uint<{N}>): panicked although the product fits"),
        }
    }
    veq!(Option::<Uint<N>>::from(g_checked(&a, &b)).map(|x| ul(&x)), if overflow { None } else { Some(want_lo.clone()) }, "fn<T: CheckedMul>(Uint<{N}>)");
    veq!(ul(&g_wrapping(&a, &b)), want_lo, "fn<T: WrappingMul>(Uint<{N}>)");
    let wide = limbs_of(&prod, W);
    veq!(ul(&g_widening(&a, b)), wide, "fn<T: WideningMul<Uint>>(Uint<{N}>) by value");
    veq!(ul(&g_widening(&a, &b)), wide, "fn<T: WideningMul<&Uint>>(Uint<{N}>) by reference");

    checked_none_sticky!(format!("Checked<Uint<{N}>>"), t, c, a, b, Uint::<N>::ONE, Uint::<N>::ZERO);

    let dl = gen::limbs(t, N);
    c.limbs("decoy", &dl);
    routes_copy(&format!("Uint<{N}>"), a, b, uint::<N>(&dl), &|x: &Uint<N>| ul(x), &want_lo, overflow)
}

/// base for the `pow` route: arbitrary, or about 64n/e bits (powers on both sides of 2^(64n)), or tiny
fn pow_base(t: &mut Tape, n: usize, e: usize) -> Limbs {
    match t.weighted(&[2, 5, 2]) {
        0 => gen::limbs(t, n),
        1 => {
            let bits = 64 * n as u64;
            let k = (bits / e.max(1) as u64 + t.below(3)).saturating_sub(1).clamp(1, bits);
            let mut v = limbs_of(&(big(&t.expand(n)) & mask(k)), n);
            if t.chance(2, 3) {
                // exactly k bits
                v[((k - 1) / 64) as usize] |= 1 << ((k - 1) % 64);
            }
            if t.chance(1, 4) {
                v = limbs_of(&mask(k), n); // 2^k - 1: the largest k-bit base
            }
            v
        }
        _ => {
            let mut v = vec![0u64; n];
            v[0] = t.below(4);
            v
        }
    }
}

fn pow_classify(c: &mut Case, base: &[u64], e: usize, pw: &BigUint, n: usize) -> bool {
    let overflow = pw.bits() > 64 * n as u64;
    c.nontrivial(bit_len(base) >= 2 && e >= 2 && pw.bits() > 64);
    c.label(if overflow { "pow: power overflows" } else { "pow: power fits" });
    if e == 0 {
        c.label("pow: exponent 0 (One::one)");
    }
    overflow
}

fn limb_pow(t: &mut Tape, c: &mut Case) -> CaseResult {
    let e = t.usize_in(0, 7);
    let bl_ = pow_base(t, 1, e);
    c.limbs("base", &bl_);
    c.num("exp", e as u64);
    let pw = big(&bl_).pow(e as u32);
    let overflow = pow_classify(c, &bl_, e, &pw, 1);
    let want = limbs_of(&pw, 1)[0];
    let x = Limb(bl_[0]);
    veq!(total("num_traits::pow(Wrapping<Limb>)", || g_pow(&Wrapping(x), e))?.0 .0, want, "num_traits::pow(Wrapping<Limb>, {e})");
    // `Limb * Limb` panics exactly on overflow; every intermediate product of square-and-multiply
    // divides the result, so for a base >= 1 one of them overflows iff the power does
    match guard(|| g_pow(&x, e)) {
        Ok(v) => {
            vensure!(!overflow, "num_traits::pow(Limb, {e}) returned {:#x} although the power overflows", v.0);
            veq!(v.0, want, "num_traits::pow(Limb, {e})");
        }
        Err(_) => vensure!(overflow, "num_traits::pow(Limb, {e}) panicked although the power fits"),
    }
    Ok(())
}

fn fixed_pow<const N: usize>(t: &mut Tape, c: &mut Case) -> CaseResult {
    let e = t.usize_in(0, 7);
    let bl_ = pow_base(t, N, e);
    c.limbs("base", &bl_);
    c.num("exp", e as u64);
    let pw = big(&bl_).pow(e as u32);
    let overflow = pow_classify(c, &bl_, e, &pw, N);
    let want = limbs_of(&pw, N);
    let x = uint::<N>(&bl_);
    veq!(ul(&total("num_traits::pow(Wrapping<Uint>)", || g_pow(&Wrapping(x), e))?.0), want, "num_traits::pow(Wrapping<Uint<{N}>>, {e})");
    match guard(|| g_pow(&x, e)) {
        Ok(v) => {
            vensure!(!overflow, "num_traits::pow(Uint<{N}>, {e}) returned although the power overflows");
            veq!(ul(&v), want, "num_traits::pow(Uint<{N}>, {e})");
        }
        Err(_) => vensure!(overflow, "num_traits::pow(Uint<{N}>, {e}) panicked although the power fits"),
    }
    Ok(())
}

// ------------------------------------------------------------------------------------------------
// BoxedUint

fn boxed_surface(max: usize) -> impl Fn(&mut Tape, &mut Case) -> CaseResult {
    move |t, c| {
        let l = boxed_len(t, max);
        let r = match t.weighted(&[2, 2, 3]) {
            0 => l,
            1 => (l + t.usize_in(0, 3)).min(max).max(1),
            _ => boxed_len(t, max),
        };
        let (l, r) = if t.bool() { (l, r) } else { (r, l) };
        let (al, bl_) = mul_pair(t, l, r);
        c.limbs("a", &al);
        c.limbs("b", &bl_);
        c.label(if l.min(r) >= 32 { "boxed: karatsuba path" } else { "boxed: schoolbook path" });
        c.label(match l.cmp(&r) {
            core::cmp::Ordering::Less => "boxed: lhs narrower",
            core::cmp::Ordering::Equal => "boxed: equal precision",
            core::cmp::Ordering::Greater => "boxed: lhs wider",
        });
        let (a, b) = (boxed(&al), boxed(&bl_));
        let prod = big(&al) * big(&bl_);
        classify(c, &al, &bl_, &prod);
        let want = limbs_of(&prod, l + r);
        let want_lo = limbs_of(&prod, l);
        let overflow = prod.bits() > 64 * l as u64;

        // by-value operator forms and `*=`: whatever their width, the value must be the exact
        // product, or a panic on overflow of the lhs width (same acceptance as `boxed/mul/*`; the
        // width question is F-15 and belongs to C15)
        for (name, out) in g_integer_mul(&a, &b) {
            match out {
                Ok(v) => {
                    if v.nlimbs() >= l + r || !overflow {
                        vensure!(bbig(&v) == prod, "{name} (BoxedUint {l}x{r}): got {:x}, want exact product {:x}", bbig(&v), prod);
                    } else {
                        vfail!("{name} (BoxedUint {l}x{r}): returned a {}-limb value although the product overflows and no panic occurred", v.nlimbs());
                    }
                }
                Err(m) => vensure!(overflow, "{name} (BoxedUint {l}x{r}): panicked ({m}) although the product fits"),
            }
        }
        // `CheckedMul for BoxedUint`, `WrappingMul for BoxedUint` ("wrapping to the width of `self`")
        let ck = total("fn<T: CheckedMul>(BoxedUint)", || Option::<BoxedUint>::from(g_checked(&a, &b)))?;
        veq!(ck.map(|x| bl(&x)), if overflow { None } else { Some(want_lo.clone()) }, "fn<T: CheckedMul>(BoxedUint {l}x{r})");
        veq!(bl(&total("fn<T: WrappingMul>(BoxedUint)", || g_wrapping(&a, &b))?), want_lo, "fn<T: WrappingMul>(BoxedUint {l}x{r})");
        // `BoxedUint::mul`: "Returns a widened output with a limb count equal to the sums of the input limb counts"
        veq!(bl(&total("fn<T: WideningMul<BoxedUint>>", || g_widening(&a, b.clone()))?), want, "fn<T: WideningMul<BoxedUint>>(BoxedUint {l}x{r})");
        veq!(bl(&total("fn<T: WideningMul<&BoxedUint>>", || g_widening(&a, &b))?), want, "fn<T: WideningMul<&BoxedUint>>(BoxedUint {l}x{r})");
        Ok(())
    }
}

fn boxed_pow(t: &mut Tape, c: &mut Case) -> CaseResult {
    let l = t.pick(&[1usize, 2, 3, 4, 5, 8]);
    let e = t.usize_in(0, 6);
    let bl_ = pow_base(t, l, e);
    c.limbs("base", &bl_);
    c.num("exp", e as u64);
    let pw = big(&bl_).pow(e as u32);
    let overflow = pow_classify(c, &bl_, e, &pw, l);
    let x = boxed(&bl_);
    // every product inside has two `l`-limb operands and wraps "to the width of `self`"; for
    // exponent 0 the result is `One::one()`, whose precision is not documented: value only
    let w = total("num_traits::pow(Wrapping<BoxedUint>)", || g_pow(&Wrapping(x.clone()), e))?.0;
    if e == 0 {
        vensure!(bbig(&w) == BigUint::from(1u32), "num_traits::pow(Wrapping<BoxedUint>, 0) = {:x}", bbig(&w));
        c.label(format!("pow 0: Wrapping<BoxedUint>::one() has {} limb(s)", w.nlimbs().min(2)));
    } else {
        veq!(bl(&w), limbs_of(&pw, l), "num_traits::pow(Wrapping<BoxedUint>, {e}) ({l} limbs)");
    }
    // by-value `BoxedUint * BoxedUint`: exact product (widened) or a panic on overflow
    match guard(|| g_pow(&x, e)) {
        Ok(v) => {
            if 64 * v.nlimbs() as u64 >= pw.bits() {
                vensure!(bbig(&v) == pw, "num_traits::pow(BoxedUint, {e}): got {:x}, want {:x}", bbig(&v), pw);
            } else {
                vfail!("num_traits::pow(BoxedUint, {e}): returned a {}-limb value although the power needs {} bits and no panic occurred", v.nlimbs(), pw.bits());
            }
        }
        Err(m) => vensure!(overflow, "num_traits::pow(BoxedUint, {e}) panicked ({m}) although the power fits"),
    }
    Ok(())
}

// ------------------------------------------------------------------------------------------------

macro_rules! surf_fixed {
    ($v:ident, $q:expr; $(($n:literal, $w:literal)),*) => { $(
        $v.push(SubCheck::new(format!("surface/fixed/generic+wrapper-routes/U{}", 64*$n), $q, fixed_surface::<$n, $w>).tape(24 + 4 * $n));
    )* };
}
macro_rules! surf_pow {
    ($v:ident, $q:expr; $($n:literal),*) => { $(
        $v.push(SubCheck::new(format!("surface/fixed/pow-route/U{}", 64*$n), $q, fixed_pow::<$n>).tape(16 + 2 * $n));
    )* };
}
macro_rules! surf_width_eq {
    ($v:ident, $q:expr; $($n:literal),*) => { $(
        $v.push(SubCheck::new(format!("surface/fixed/mul/U{}xU{}", 64*$n, 64*$n), $q, fixed_mul::<$n, $n>).tape(16 + 3 * $n));
        $v.push(SubCheck::new(format!("surface/fixed/square+wrappers/U{}", 64*$n), $q, fixed_sq::<$n>).tape(16 + 3 * $n));
    )* };
}
macro_rules! surf_width_mixed {
    ($v:ident, $q:expr; $(($l:literal, $r:literal)),*) => { $(
        $v.push(SubCheck::new(format!("surface/fixed/mul/U{}xU{}", 64*$l, 64*$r), $q, fixed_mul::<$l, $r>).tape(16 + 2 * ($l + $r)));
    )* };
}
macro_rules! surf_widening {
    ($v:ident, $q:expr; $(($l:literal, $w:literal)),*) => { $(
        $v.push(SubCheck::new(format!("surface/fixed/widening/U{}", 64*$l), $q, fixed_wide::<$l, $w>).tape(16 + 3 * $l));
    )* };
}
macro_rules! surf_widening_mixed {
    ($v:ident, $q:expr; $(($l:literal, $r:literal, $w:literal)),*) => { $(
        $v.push(SubCheck::new(format!("surface/fixed/widening/U{}xU{}", 64*$l, 64*$r), $q, fixed_wide_mixed::<$l, $r, $w>).tape(16 + 2 * ($l + $r)));
    )* };
}

pub fn subchecks(_ctx: &Ctx) -> Vec<SubCheck> {
    let mut v = vec![];
    v.push(SubCheck::new("surface/limb/wrapper-forms+routes", 60_000, limb_surface).tape(24));
    v.push(SubCheck::new("surface/limb/pow-route", 30_000, limb_pow).tape(16));
    surf_fixed!(v, 12_000; (1, 2), (3, 6), (5, 10), (7, 14));
    surf_fixed!(v, 4_000; (16, 32));
    surf_pow!(v, 10_000; 1, 2, 3, 5);
    surf_pow!(v, 2_000; 16);
    // limb counts outside the listed widths (generic code: nothing may depend on the list)
    surf_width_eq!(v, 5_000; 13, 15, 17);
    surf_width_eq!(v, 2_500; 24, 33);
    surf_width_mixed!(v, 5_000; (13, 4), (5, 17), (7, 5), (5, 7), (3, 5), (7, 3), (15, 16), (17, 16), (33, 32));
    // widening forms: remaining `Concat` widths and more `ConcatMixed` pairs
    surf_widening!(v, 5_000; (5, 10), (7, 14), (10, 20), (12, 24));
    surf_widening!(v, 1_500; (33, 66));
    surf_widening_mixed!(v, 4_000; (3, 2, 5), (1, 4, 5), (4, 1, 5), (2, 5, 7), (5, 2, 7), (6, 1, 7), (7, 1, 8), (3, 5, 8), (7, 9, 16), (11, 5, 16), (1, 15, 16));
    v.push(SubCheck::new("surface/boxed/generic-routes/1..=70", 25_000, boxed_surface(70)).tape(200));
    v.push(SubCheck::new("surface/boxed/pow-route/1..=8", 20_000, boxed_pow).tape(32));
    v
}
