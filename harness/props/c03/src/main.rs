fn main() {
    vmodel::cli_main(c03::spec())
}
