//! Reference codecs for C18, written from the specifications and not from the code under test:
//!
//! * ASN.1 DER `INTEGER` (X.690 §8.1.2 identifier octets, §8.1.3 + §10.1 definite minimal length,
//!   §8.3 two's-complement contents with the minimum number of octets);
//! * Ethereum RLP single items / lists (Yellow Paper appendix B): a byte string of length 1 below
//!   0x80 is its own encoding, 0..=55 octets get the prefix 0x80+len, longer ones 0xb7+len-of-len
//!   followed by the big-endian length without leading zeros; an integer is the big-endian byte
//!   string without leading zeros (zero = the empty string).
//!
//! Values cross as little-endian `u64` limb vectors and big-endian byte strings only.

/// `8 * l.len()` big-endian octets of the limbs.
pub fn be_full(l: &[u64]) -> Vec<u8> {
    l.iter().rev().flat_map(|w| w.to_be_bytes()).collect()
}

/// little-endian octets of the limbs.
pub fn le_full(l: &[u64]) -> Vec<u8> {
    l.iter().flat_map(|w| w.to_le_bytes()).collect()
}

/// The octets without any leading zero octet (empty for the value zero).
pub fn strip(b: &[u8]) -> &[u8] {
    let k = b.iter().position(|&x| x != 0).unwrap_or(b.len());
    &b[k..]
}

/// Minimal big-endian magnitude of the limbs (empty for zero).
pub fn be_min(l: &[u64]) -> Vec<u8> {
    strip(&be_full(l)).to_vec()
}

/// The value of a big-endian octet string as exactly `n` limbs; `None` if it needs more.
pub fn limbs_from_be(b: &[u8], n: usize) -> Option<Vec<u64>> {
    let m = strip(b);
    if m.len() > 8 * n {
        return None;
    }
    let mut full = vec![0u8; 8 * n - m.len()];
    full.extend_from_slice(m);
    let mut out = vec![0u64; n];
    for (i, ch) in full.chunks(8).enumerate() {
        out[n - 1 - i] = u64::from_be_bytes(ch.try_into().unwrap());
    }
    Some(out)
}

// ------------------------------------------------------------------------------------------------
// DER

/// Canonical contents octets of the non-negative INTEGER with the given magnitude.
pub fn der_content(mag: &[u8]) -> Vec<u8> {
    let m = strip(mag);
    if m.is_empty() {
        vec![0]
    } else if m[0] >= 0x80 {
        let mut v = vec![0];
        v.extend_from_slice(m);
        v
    } else {
        m.to_vec()
    }
}

/// Minimal definite length octets.
pub fn der_len_field(n: usize) -> Vec<u8> {
    if n < 0x80 {
        vec![n as u8]
    } else {
        let be = (n as u64).to_be_bytes();
        let s = strip(&be);
        let mut v = vec![0x80 | s.len() as u8];
        v.extend_from_slice(s);
        v
    }
}

pub fn der_tlv(tag: u8, content: &[u8]) -> Vec<u8> {
    let mut v = vec![tag];
    v.extend(der_len_field(content.len()));
    v.extend_from_slice(content);
    v
}

/// The canonical DER INTEGER of the magnitude (of any size).
pub fn der_integer(mag: &[u8]) -> Vec<u8> {
    der_tlv(0x02, &der_content(mag))
}

#[derive(Debug, Clone, Copy, PartialEq, Eq)]
pub enum DerWhy {
    NoInput,
    WrongTag,
    BadLength,
    Truncated,
    Trailing,
    EmptyContent,
    Negative,
    NonMinimal,
    Oversize,
}

impl DerWhy {
    pub fn label(self) -> &'static str {
        match self {
            DerWhy::NoInput => "der input: empty input",
            DerWhy::WrongTag => "der input: wrong tag",
            DerWhy::BadLength => "der input: indefinite / non-minimal / reserved length field",
            DerWhy::Truncated => "der input: truncated (length field > available)",
            DerWhy::Trailing => "der input: octets after the INTEGER",
            DerWhy::EmptyContent => "der input: empty contents",
            DerWhy::Negative => "der input: negative (top bit of first content octet set)",
            DerWhy::NonMinimal => "der input: superfluous leading 0x00",
            DerWhy::Oversize => "der input: canonical but longer than the type",
        }
    }
}

/// Identifier + length octets: `(header length, contents length)`. With `minimal = false` a long-form
/// length that is not minimal is tolerated (BER), everything else stays strict.
pub fn der_header(bytes: &[u8], minimal: bool) -> Result<(usize, u64), DerWhy> {
    if bytes.is_empty() {
        return Err(DerWhy::NoInput);
    }
    if bytes[0] != 0x02 {
        return Err(DerWhy::WrongTag);
    }
    if bytes.len() < 2 {
        return Err(DerWhy::Truncated);
    }
    let l0 = bytes[1];
    if l0 < 0x80 {
        return Ok((2, l0 as u64));
    }
    if l0 == 0x80 || l0 == 0xff {
        return Err(DerWhy::BadLength);
    }
    let k = (l0 & 0x7f) as usize;
    if bytes.len() < 2 + k {
        return Err(DerWhy::Truncated);
    }
    let lb = &bytes[2..2 + k];
    if minimal && lb[0] == 0 {
        return Err(DerWhy::BadLength);
    }
    let s = strip(lb);
    if s.len() > 8 {
        // >= 2^64 contents octets cannot be present
        return Err(DerWhy::Truncated);
    }
    let mut v = 0u64;
    for &b in s {
        v = (v << 8) | b as u64;
    }
    if minimal && v < 0x80 {
        return Err(DerWhy::BadLength);
    }
    Ok((2 + k, v))
}

/// Contents octets rules of a non-negative INTEGER; returns the magnitude (no leading zero).
pub fn der_magnitude(content: &[u8]) -> Result<&[u8], DerWhy> {
    match content {
        [] => Err(DerWhy::EmptyContent),
        [b, ..] if *b >= 0x80 => Err(DerWhy::Negative),
        [0] => Ok(&content[1..]),
        [0, b, ..] if *b < 0x80 => Err(DerWhy::NonMinimal),
        [0, ..] => Ok(&content[1..]),
        _ => Ok(content),
    }
}

pub struct DerVerdict {
    /// verdict for the whole input as one DER INTEGER of an `n`-limb type
    pub full: Result<Vec<u64>, DerWhy>,
    /// verdict for the leading TLV alone and the number of octets it occupies
    pub prefix: Result<(Vec<u64>, usize), DerWhy>,
    /// the leading TLV is a canonical non-negative INTEGER whose magnitude has more octets than the type
    pub prefix_oversize: bool,
    /// contents octets of the leading TLV when header and extent are well-formed
    pub content: Option<Vec<u8>>,
}

pub fn der_decode(bytes: &[u8], n: usize, minimal: bool) -> DerVerdict {
    let mut out = DerVerdict { full: Err(DerWhy::NoInput), prefix: Err(DerWhy::NoInput), prefix_oversize: false, content: None };
    let (h, len) = match der_header(bytes, minimal) {
        Ok(x) => x,
        Err(w) => {
            out.full = Err(w);
            out.prefix = Err(w);
            return out;
        }
    };
    let avail = (bytes.len() - h) as u64;
    if len > avail {
        out.full = Err(DerWhy::Truncated);
        out.prefix = Err(DerWhy::Truncated);
        return out;
    }
    let end = h + len as usize;
    let content = &bytes[h..end];
    out.content = Some(content.to_vec());
    let value = der_magnitude(content).and_then(|m| {
        limbs_from_be(m, n).ok_or_else(|| {
            out.prefix_oversize = true;
            DerWhy::Oversize
        })
    });
    out.prefix = value.clone().map(|v| (v, end));
    out.full = if end < bytes.len() { Err(DerWhy::Trailing) } else { value };
    out
}

// ------------------------------------------------------------------------------------------------
// RLP

/// Canonical encoding of a byte string as a single RLP item.
pub fn rlp_item(payload: &[u8]) -> Vec<u8> {
    rlp_framed(0x80, payload, true)
}

/// Canonical encoding of a list whose concatenated item encodings are `items`.
pub fn rlp_list(items: &[u8]) -> Vec<u8> {
    rlp_framed(0xc0, items, false)
}

fn rlp_framed(base: u8, payload: &[u8], single_rule: bool) -> Vec<u8> {
    if single_rule && payload.len() == 1 && payload[0] < 0x80 {
        return payload.to_vec();
    }
    let mut v = vec![];
    if payload.len() <= 55 {
        v.push(base + payload.len() as u8);
    } else {
        let be = (payload.len() as u64).to_be_bytes();
        let s = strip(&be);
        v.push(base + 55 + s.len() as u8);
        v.extend_from_slice(s);
    }
    v.extend_from_slice(payload);
    v
}

/// Canonical RLP encoding of the non-negative integer with the given magnitude.
pub fn rlp_integer(mag: &[u8]) -> Vec<u8> {
    rlp_item(strip(mag))
}

#[derive(Debug, Clone, PartialEq, Eq)]
pub enum RlpExpect {
    /// canonical item framing, valid payload: the decoder must return exactly this value
    Value(Vec<u64>),
    /// must be rejected
    Reject(&'static str),
    /// the item framing is not canonical (delegated to the `rlp` crate, which may accept it) but the
    /// payload is a valid integer: an error or exactly this value
    Lenient(Vec<u64>, &'static str),
}

pub struct RlpVerdict {
    pub expect: RlpExpect,
    /// payload octets when the framing could be followed
    pub payload: Option<Vec<u8>>,
    /// the input is exactly one item (no octets after it)
    pub exact_extent: bool,
    /// long-form prefix although the payload has at most 55 octets
    pub long_form_short: bool,
}

pub fn rlp_decode(bytes: &[u8], n: usize) -> RlpVerdict {
    let rej = |why| RlpVerdict { expect: RlpExpect::Reject(why), payload: None, exact_extent: false, long_form_short: false };
    let Some(&l) = bytes.first() else { return rej("rlp input: empty input") };
    let mut lenient: Option<&'static str> = None;
    let mut long_form_short = false;
    let (start, len): (usize, u64) = if l < 0x80 {
        (0, 1)
    } else if l <= 0xb7 {
        let len = (l - 0x80) as u64;
        if len == 1 && bytes.len() >= 2 && bytes[1] < 0x80 {
            return rej("rlp input: single octet < 0x80 behind a 0x81 prefix");
        }
        (1, len)
    } else if l <= 0xbf {
        let k = (l - 0xb7) as usize;
        if bytes.len() < 1 + k {
            return rej("rlp input: truncated length field");
        }
        let lb = &bytes[1..1 + k];
        if lb[0] == 0 {
            return rej("rlp input: leading zero in the long-form length");
        }
        let mut v = 0u64;
        for &b in lb {
            v = (v << 8) | b as u64;
        }
        if v <= 55 {
            long_form_short = true;
            lenient = Some("rlp input: long-form prefix for a short payload (framing delegated to rlp crate)");
        }
        (1 + k, v)
    } else {
        return rej("rlp input: list prefix");
    };
    let avail = (bytes.len() - start) as u64;
    if len > avail {
        return rej("rlp input: truncated (prefix announces more than available)");
    }
    let end = start + len as usize;
    let payload = &bytes[start..end];
    let exact = end == bytes.len();
    if !exact && lenient.is_none() {
        lenient = Some("rlp input: octets after the item (framing delegated to rlp crate)");
    }
    let expect = if payload.first() == Some(&0) {
        RlpExpect::Reject("rlp input: payload with a leading zero octet")
    } else {
        match limbs_from_be(payload, n) {
            None => RlpExpect::Reject("rlp input: payload longer than the type"),
            Some(v) => match lenient {
                None => RlpExpect::Value(v),
                Some(w) => RlpExpect::Lenient(v, w),
            },
        }
    };
    RlpVerdict { expect, payload: Some(payload.to_vec()), exact_extent: exact, long_form_short }
}
