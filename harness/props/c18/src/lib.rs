//! C18 — DER INTEGER and RLP integer codecs are canonical and fail closed.
//!
//! Oracle: the reference codecs in [`refc`] (written from X.690 and the RLP definition). Every
//! public route into the codecs that crypto-bigint implements is compared with them:
//!
//! * DER (`src/uint/encoding/der.rs`): `Encode::{to_der, encoded_len, encode_to_slice,
//!   encode_to_vec}`, `EncodeValue::{value_len, encode_value, header}`, `FixedTag::TAG`,
//!   `Any::encode_from`; `Decode::{from_der, from_ber, decode}`, `TryFrom<AnyRef>`,
//!   `TryFrom<UintRef>` (from a parsed INTEGER and from a raw magnitude via `UintRef::new`),
//!   embedding in a `SEQUENCE OF` (`Vec<Uint<N>>`).
//! * RLP (`src/uint/encoding/rlp.rs`): `Encodable` through `rlp::encode`, `rlp_bytes`,
//!   `RlpStream::{append, append_list}`, `rlp::encode_list`; `Decodable` through `rlp::decode`,
//!   `Rlp::{as_val, val_at, as_list}` and `Decodable::decode`.
//! * `ArrayEncoding` / `ArrayDecoding` (`src/uint/array.rs`), which the DER codec is built on.
//!
//! RLP item *framing* is parsed by the third-party `rlp` crate, which tolerates a long-form prefix
//! for a short payload and octets after the item; for such inputs the check accepts an error or the
//! exact value of the payload (and records which happened), and asserts crypto-bigint's own payload
//! rules (no leading zero octet, not longer than the type) unconditionally.

pub mod refc;
mod surface;

use crypto_bigint::{ArrayDecoding, ArrayEncoding, ByteArray, Encoding, Uint};
use der::asn1::{Any, AnyRef, UintRef};
use der::{Decode, Encode, EncodeValue, FixedTag, Reader, SliceReader, SliceWriter, Tag};
use refc::*;
use rlp::{Decodable, Encodable, Rlp, RlpStream};
use vmodel::gen;
use vmodel::*;

pub fn spec() -> PropSpec {
    PropSpec {
        id: "C18",
        rule: "value cases: a fixed-width value built from an explicit big-endian magnitude (length edge-biased to 0,1,2, capacity-1, capacity, limb boundaries +-1, the DER/RLP length-form boundaries 55/56,127/128,255/256; top octet from {01,7f,80,ff,81,7e,40,c0,random}; body zeros / ff / pattern / random), the constants 0,1,7f,80,ff,100,2^(B-1)-1,2^(B-1),2^B-1,2^(B-8)-1,2^(B-8), or gen::limbs / 2^k+-1 / uniform; every encode form is compared with the reference canonical encoding and every decode route must return the value. byte-string cases: the canonical encoding of a magnitude of 0..=capacity+4 octets (so also too long for the type) mutated by one of: nothing, extra leading 00, leading ff / dropped sign octet (negative), wrong tag, truncation, trailing octets, length field +-1, non-minimal long-form length, indefinite / reserved / 5-octet length, empty contents / empty input, arbitrary octets, arbitrary contents behind a correct header (RLP: leading zero octets, 0x81 prefix for an octet < 0x80, long-form prefix for a short payload, zero-padded long-form length, truncation, trailing octets, list prefix, prefix length +-1, degenerate one/two-octet inputs, arbitrary octets, arbitrary payload); every decode route must agree with the reference strict decoder (Ok(v) iff the input is the canonical encoding of a v that fits, else Err, never a panic). non-trivial: value cases - the DER contents / RLP payload length is within +-1 of the type's octet capacity, or the top (most significant non-zero) octet is >= 0x80; byte-string cases - the number of contents / payload octets the framing announces-and-holds (or, when the framing cannot be followed, the input length minus 2 for DER / minus 1 for RLP) is in capacity-1 ..= capacity+2, or the first contents octet (after one 00 sign octet, if present) is >= 0x80. surface/* sub-checks: the same value / byte-string cases (same rules; the byte string is re-tagged) through IMPLICIT / EXPLICIT context-specific fields, OPTIONAL, fixed-size arrays, and the Box / Option / list adaptors of the rlp crate; encode-only RLP at further widths. distinct by the value limbs / the input octets (per width).",
        assumptions: vec![
            "the reference DER / RLP codecs in props/c18/src/refc.rs follow X.690 and the RLP definition (they are cross-checked against each other: strict_decode(reference_encode(v)) == v in every value case)".into(),
            "RLP item framing (prefix forms, extent) is owned by the rlp crate 0.6.1: non-canonical framing around a valid payload may be accepted or rejected; this is recorded in the class histogram and not asserted".into(),
            "the der crate 0.8.0-rc.1 applies no BER relaxations yet, so from_ber is only required to be total, to accept what from_der accepts and to return no value other than the one denoted".into(),
            "bridging uses from_words/to_words only".into(),
        ],
        subchecks,
    }
}

// ------------------------------------------------------------------------------------------------
// generators

const TOPS: [u8; 8] = [0x01, 0x7f, 0x80, 0xff, 0x81, 0x7e, 0x40, 0xc0];
const FORM_BOUNDARIES: [usize; 12] = [54, 55, 56, 57, 126, 127, 128, 129, 254, 255, 256, 257];

fn fill(t: &mut Tape, len: usize) -> Vec<u8> {
    if len == 0 {
        return vec![];
    }
    match t.weighted(&[2, 2, 1, 5]) {
        0 => vec![0; len],
        1 => vec![0xff; len],
        2 => vec![t.pick(&[0x7fu8, 0x80, 0x01, 0x55, 0xaa]); len],
        _ => {
            let w = t.expand((len + 7) / 8);
            let mut v: Vec<u8> = w.iter().flat_map(|x| x.to_be_bytes()).collect();
            v.truncate(len);
            v
        }
    }
}

/// Length in octets of a magnitude for a type of `cap` octets, at most `max`.
fn mag_len(t: &mut Tape, cap: usize, max: usize) -> usize {
    let m = match t.weighted(&[1, 1, 1, 3, 4, 3, 2, 2, 1, 3]) {
        0 => 0,
        1 => 1,
        2 => 2,
        3 => cap - 1,
        4 => cap,
        5 => cap + 1,
        6 => t.usize_in(cap + 2, cap + 4),
        7 => {
            let k = t.usize_in(1, cap / 8);
            (8 * k + t.usize_in(0, 2)).saturating_sub(1)
        }
        8 => {
            let f = t.pick(&FORM_BOUNDARIES);
            if f <= max {
                f
            } else {
                cap
            }
        }
        _ => t.usize_in(0, max),
    };
    m.min(max)
}

/// A minimal big-endian magnitude (first octet non-zero; empty = zero).
fn magnitude(t: &mut Tape, cap: usize, max: usize) -> Vec<u8> {
    let m = mag_len(t, cap, max);
    if m == 0 {
        return vec![];
    }
    let top = match t.weighted(&[5, 2]) {
        0 => t.pick(&TOPS),
        _ => (t.below(255) + 1) as u8,
    };
    let mut v = vec![top];
    v.extend(fill(t, m - 1));
    v
}

fn constant(t: &mut Tape, n: usize) -> Limbs {
    let cap = 8 * n;
    let mag: Vec<u8> = match t.below(11) {
        0 => vec![],
        1 => vec![1],
        2 => vec![0x7f],
        3 => vec![0x80],
        4 => vec![0xff],
        5 => vec![1, 0],
        6 => {
            let mut v = vec![0xff; cap];
            v[0] = 0x7f;
            v
        }
        7 => {
            let mut v = vec![0; cap];
            v[0] = 0x80;
            v
        }
        8 => vec![0xff; cap],
        9 => vec![0xff; cap - 1],
        _ => {
            let mut v = vec![0; cap];
            v[0] = 1;
            v
        }
    };
    limbs_from_be(&mag, n).expect("harness: constant fits")
}

fn value(t: &mut Tape, n: usize) -> Limbs {
    match t.weighted(&[2, 6, 3, 1, 1]) {
        0 => constant(t, n),
        1 => {
            let m = magnitude(t, 8 * n, 8 * n);
            limbs_from_be(&m, n).expect("harness: magnitude fits")
        }
        2 => gen::limbs(t, n),
        3 => gen::shape_p(t, n),
        _ => gen::shape_u(t, n),
    }
}

/// Labels + the non-triviality rule for a value case. `enc_len` is the DER contents / RLP payload length.
fn classify_value(c: &mut Case, al: &[u64], enc_len: usize, what: &'static str) {
    let cap = 8 * al.len();
    let mag = be_min(al);
    let top = mag.first().copied().unwrap_or(0);
    c.nontrivial(enc_len + 1 >= cap && enc_len <= cap + 1 || top >= 0x80);
    if mag.is_empty() {
        c.label("value: zero");
    } else if mag == [1] {
        c.label("value: one");
    }
    if mag.len() == cap && mag.iter().all(|&b| b == 0xff) {
        c.label("value: 2^BITS-1");
    }
    if mag.len() == cap {
        c.label("value: magnitude fills the type");
        if top == 0x7f {
            c.label("value: full width, top octet 0x7f");
        }
        if top == 0x80 {
            c.label("value: full width, top octet 0x80");
        }
    } else if mag.len() + 1 == cap {
        c.label("value: magnitude = capacity-1 octets");
    }
    if top >= 0x80 {
        c.label("value: top octet >= 0x80");
    } else if top == 0x7f {
        c.label("value: top octet 0x7f");
    }
    if what == "der" {
        if enc_len == cap + 1 {
            c.label("der value: contents = capacity+1 octets (sign octet on a full-width value)");
        }
        if enc_len >= 128 {
            c.label("der value: long-form length field");
        }
        if enc_len == 127 || enc_len == 128 || enc_len == 255 || enc_len == 256 {
            c.label("der value: contents length at a length-form boundary");
        }
    } else {
        if enc_len >= 56 {
            c.label("rlp value: long-form prefix");
        }
        if enc_len == 55 || enc_len == 56 {
            c.label("rlp value: payload length at the 55/56 boundary");
        }
        if enc_len == 1 && top < 0x80 {
            c.label("rlp value: single octet < 0x80 (self-encoding)");
        }
    }
}

// ------------------------------------------------------------------------------------------------
// DER

/// Panic of `copy_from_slice` inside crypto-bigint's DER decoder (finding F-18).
fn is_f18_panic(msg: &str) -> bool {
    msg.contains("does not match destination slice length") && msg.contains("encoding/der.rs")
}

type DerGot<const N: usize> = Result<Result<Uint<N>, der::Error>, String>;

/// Compare one DER decode route with the oracle. `f18_class`: the input this route looks at is an
/// otherwise canonical non-negative INTEGER / magnitude with more octets than the type.
fn check_der<const N: usize>(name: &str, got: DerGot<N>, want: &Result<Limbs, DerWhy>, f18_class: bool) -> CaseResult {
    match got {
        Err(p) => {
            if f18_class && is_f18_panic(&p) {
                return Err(Fail::known("F-18", format!("{name} (U{}): an INTEGER longer than the type panics instead of returning an error: {p}", 64 * N)));
            }
            vfail!("{name} (U{}): panicked (oracle: {:?}): {p}", 64 * N, want.as_ref().map(|v| hex(v)))
        }
        Ok(Ok(u)) => match want {
            Ok(w) => veq!(ul(&u), *w, "{name} (U{}) decoded value", 64 * N),
            Err(why) => vfail!("{name} (U{}): accepted an input that must be rejected ({why:?}) and returned {}", 64 * N, hex(&ul(&u))),
        },
        Ok(Err(e)) => {
            if let Ok(w) = want {
                vfail!("{name} (U{}): rejected the canonical encoding of {} with {e}", 64 * N, hex(w));
            }
        }
    }
    Ok(())
}

fn byte_array<const N: usize>(b: &[u8]) -> ByteArray<Uint<N>>
where
    Uint<N>: ArrayEncoding,
{
    let mut a = ByteArray::<Uint<N>>::default();
    a.as_mut_slice().copy_from_slice(b);
    a
}

/// All whole-input decode routes on `bytes`.
fn der_decode_routes<const N: usize>(bytes: &[u8], v: &DerVerdict) -> CaseResult
where
    Uint<N>: ArrayEncoding,
{
    // Decode::from_der decodes the leading TLV before it looks for trailing octets
    check_der::<N>("Uint::from_der", guard(|| Uint::<N>::from_der(bytes)), &v.full, v.prefix_oversize)?;
    // AnyRef / UintRef parse the whole input first, so they reach TryFrom only without trailing octets
    let whole_oversize = v.full == Err(DerWhy::Oversize);
    check_der::<N>(
        "AnyRef::from_der -> Uint::try_from",
        guard(|| AnyRef::from_der(bytes).and_then(Uint::<N>::try_from)),
        &v.full,
        whole_oversize,
    )?;
    check_der::<N>(
        "UintRef::from_der -> Uint::try_from",
        guard(|| UintRef::from_der(bytes).and_then(Uint::<N>::try_from)),
        &v.full,
        whole_oversize,
    )?;
    // streaming decode of the leading TLV (what a containing structure does)
    let got = guard(|| {
        let mut r = SliceReader::new(bytes)?;
        let x = Uint::<N>::decode(&mut r)?;
        Ok::<_, der::Error>((x, u32::from(r.position()) as usize))
    });
    let want_prefix = v.prefix.clone().map(|(w, _)| w);
    match got {
        Ok(Ok((x, pos))) => {
            check_der::<N>("Decode::decode on a SliceReader", Ok(Ok(x)), &want_prefix, v.prefix_oversize)?;
            let used = v.prefix.as_ref().map(|p| p.1).unwrap_or(0);
            veq!(pos, used, "Decode::decode on a SliceReader: octets consumed");
        }
        Ok(Err(e)) => check_der::<N>("Decode::decode on a SliceReader", Ok(Err(e)), &want_prefix, v.prefix_oversize)?,
        Err(p) => check_der::<N>("Decode::decode on a SliceReader", Err(p), &want_prefix, v.prefix_oversize)?,
    }
    // from_ber: total; accepts what from_der accepts; never a value other than the denoted one
    match guard(|| Uint::<N>::from_ber(bytes)) {
        Err(p) => check_der::<N>("Uint::from_ber", Err(p), &v.full, v.prefix_oversize)?,
        Ok(Ok(u)) => {
            let lenient = der_decode(bytes, N, false);
            match (&v.full, &lenient.full) {
                (Ok(w), _) => veq!(ul(&u), *w, "Uint::from_ber decoded value"),
                (Err(_), Ok(w)) => veq!(ul(&u), *w, "Uint::from_ber decoded value (non-minimal length field)"),
                (Err(why), Err(_)) => vfail!("Uint::from_ber (U{}): accepted an input that is not an INTEGER encoding ({why:?}) and returned {}", 64 * N, hex(&ul(&u))),
            }
        }
        Ok(Err(e)) => {
            if let Ok(w) = &v.full {
                vfail!("Uint::from_ber (U{}): rejected the canonical DER encoding of {} with {e}", 64 * N, hex(w));
            }
        }
    }
    Ok(())
}

/// Expected result of decoding `content` as the contents of a SEQUENCE OF INTEGER.
fn seq_expect(content: &[u8], n: usize) -> (Result<Vec<Limbs>, DerWhy>, bool) {
    let mut pos = 0;
    let mut out = vec![];
    while pos < content.len() {
        let v = der_decode(&content[pos..], n, true);
        match v.prefix {
            Ok((w, used)) => {
                out.push(w);
                pos += used;
            }
            Err(why) => return (Err(why), v.prefix_oversize),
        }
    }
    (Ok(out), false)
}

fn check_der_seq<const N: usize>(name: &str, content: &[u8]) -> CaseResult
where
    Uint<N>: ArrayEncoding,
{
    let seq = der_tlv(0x30, content);
    let (want, f18_class) = seq_expect(content, N);
    match guard(|| Vec::<Uint<N>>::from_der(&seq)) {
        Err(p) => {
            if f18_class && is_f18_panic(&p) {
                return Err(Fail::known("F-18", format!("{name} (U{}): an INTEGER longer than the type inside a SEQUENCE OF panics: {p}", 64 * N)));
            }
            vfail!("{name} (U{}): panicked: {p}", 64 * N)
        }
        Ok(Ok(xs)) => match &want {
            Ok(ws) => veq!(xs.iter().map(ul).collect::<Vec<_>>(), *ws, "{name} (U{}) decoded values", 64 * N),
            Err(why) => vfail!("{name} (U{}): accepted a sequence with an element that must be rejected ({why:?}): {:x?}", 64 * N, xs.iter().map(|x| hex(&ul(x))).collect::<Vec<_>>()),
        },
        Ok(Err(e)) => {
            if want.is_ok() {
                vfail!("{name} (U{}): rejected a sequence of canonical INTEGERs with {e}", 64 * N);
            }
        }
    }
    Ok(())
}

fn der_value_case<const N: usize>(t: &mut Tape, c: &mut Case) -> CaseResult
where
    Uint<N>: ArrayEncoding,
    ByteArray<Uint<N>>: ArrayDecoding<Output = Uint<N>>,
{
    let cap = 8 * N;
    let al = value(t, N);
    c.limbs("x", &al);
    let x = uint::<N>(&al);
    let mag = be_min(&al);
    let content = der_content(&mag);
    let want = der_tlv(0x02, &content);
    classify_value(c, &al, content.len(), "der");

    // ---- ArrayEncoding / ArrayDecoding (src/uint/array.rs) ----
    let be = total("to_be_byte_array", || x.to_be_byte_array())?;
    veq!(be.as_slice(), &be_full(&al)[..], "ArrayEncoding::to_be_byte_array (U{})", 64 * N);
    let le = total("to_le_byte_array", || x.to_le_byte_array())?;
    veq!(le.as_slice(), &le_full(&al)[..], "ArrayEncoding::to_le_byte_array (U{})", 64 * N);
    veq!(ul(&Uint::<N>::from_be_byte_array(byte_array::<N>(&be_full(&al)))), al, "ArrayEncoding::from_be_byte_array (U{})", 64 * N);
    veq!(ul(&Uint::<N>::from_le_byte_array(byte_array::<N>(&le_full(&al)))), al, "ArrayEncoding::from_le_byte_array (U{})", 64 * N);
    veq!(be.len(), cap, "ByteArray length");

    // ---- encode forms ----
    let enc = total("to_der", || x.to_der())?;
    match &enc {
        Ok(e) => veq!(*e, want, "Encode::to_der (U{})", 64 * N),
        Err(e) => vfail!("Encode::to_der (U{}) failed: {e}", 64 * N),
    }
    match total("encoded_len", || x.encoded_len())? {
        Ok(l) => veq!(u32::from(l) as usize, want.len(), "Encode::encoded_len (U{})", 64 * N),
        Err(e) => vfail!("Encode::encoded_len failed: {e}"),
    }
    match total("value_len", || x.value_len())? {
        Ok(l) => veq!(u32::from(l) as usize, content.len(), "EncodeValue::value_len (U{})", 64 * N),
        Err(e) => vfail!("EncodeValue::value_len failed: {e}"),
    }
    match total("header", || x.header())? {
        Ok(h) => {
            veq!(h.tag, Tag::Integer, "EncodeValue::header tag");
            veq!(u32::from(h.length) as usize, content.len(), "EncodeValue::header length (U{})", 64 * N);
        }
        Err(e) => vfail!("EncodeValue::header failed: {e}"),
    }
    veq!(<Uint<N> as FixedTag>::TAG, Tag::Integer, "FixedTag::TAG");
    {
        let mut buf = vec![0xa5u8; content.len()];
        let r = total("encode_value", || {
            let mut w = SliceWriter::new(&mut buf);
            x.encode_value(&mut w)?;
            w.finish().map(|s| s.to_vec())
        })?;
        match r {
            Ok(s) => veq!(s, content, "EncodeValue::encode_value (U{})", 64 * N),
            Err(e) => vfail!("EncodeValue::encode_value failed: {e}"),
        }
    }
    {
        let mut buf = vec![0xa5u8; want.len()];
        match total("encode_to_slice", || x.encode_to_slice(&mut buf).map(|s| s.to_vec()))? {
            Ok(s) => veq!(s, want, "Encode::encode_to_slice (U{})", 64 * N),
            Err(e) => vfail!("Encode::encode_to_slice into an exactly sized buffer failed: {e}"),
        }
        // a buffer one octet too short must give an error, not a panic / partial success
        let mut short = vec![0u8; want.len() - 1];
        let r = total("encode_to_slice (short buffer)", || x.encode_to_slice(&mut short).map(|s| s.len()))?;
        vensure!(r.is_err(), "Encode::encode_to_slice (U{}): a {}-octet encoding fitted a {}-octet buffer", 64 * N, want.len(), want.len() - 1);
    }
    {
        // (into an empty vector: with a non-empty one der 0.8.0-rc.1 itself overwrites from the
        // start instead of appending, which is not crypto-bigint's code)
        let mut v = vec![];
        match total("encode_to_vec", || x.encode_to_vec(&mut v))? {
            Ok(l) => {
                veq!(u32::from(l) as usize, want.len(), "Encode::encode_to_vec length");
                veq!(v, want, "Encode::encode_to_vec (U{})", 64 * N);
            }
            Err(e) => vfail!("Encode::encode_to_vec failed: {e}"),
        }
    }
    match total("Any::encode_from", || Any::encode_from(&x))? {
        Ok(any) => {
            veq!(any.value().to_vec(), content, "Any::encode_from value (U{})", 64 * N);
            match total("Any::decode_as", || any.decode_as::<Uint<N>>())? {
                Ok(y) => veq!(ul(&y), al, "Any::decode_as (U{})", 64 * N),
                Err(e) => vfail!("Any::decode_as::<Uint> rejected the value produced by Any::encode_from: {e}"),
            }
        }
        Err(e) => vfail!("Any::encode_from failed: {e}"),
    }

    // ---- the oracle agrees with itself, then every decode route returns x ----
    let v = der_decode(&want, N, true);
    vensure!(v.full.as_ref() == Ok(&al), "harness: strict reference decoder disagrees with the reference encoder on {}", hex(&al));
    der_decode_routes::<N>(&want, &v)?;
    // raw magnitude -> UintRef -> Uint, with and without leading zero octets
    for pad in [0usize, 1, 3] {
        let mut raw = vec![0u8; pad];
        raw.extend_from_slice(&mag);
        let got = guard(|| UintRef::new(&raw).and_then(Uint::<N>::try_from));
        check_der::<N>("UintRef::new(raw) -> Uint::try_from", got, &Ok(al.clone()), false)?;
    }
    let got = guard(|| AnyRef::new(Tag::Integer, &content).and_then(Uint::<N>::try_from));
    check_der::<N>("AnyRef::new(INTEGER, contents) -> Uint::try_from", got, &Ok(al.clone()), false)?;

    // ---- SEQUENCE OF { x, y } ----
    let bl_ = gen::related(t, &al);
    c.limbs("y", &bl_);
    let y = uint::<N>(&bl_);
    let items = [want.clone(), der_integer(&be_min(&bl_))].concat();
    match total("Vec<Uint>::to_der", || vec![x, y].to_der())? {
        Ok(e) => veq!(e, der_tlv(0x30, &items), "Vec<Uint>::to_der (SEQUENCE OF, U{})", 64 * N),
        Err(e) => vfail!("Vec<Uint>::to_der failed: {e}"),
    }
    check_der_seq::<N>("Vec<Uint>::from_der", &items)?;
    veq!(ul(&byte_array::<N>(&be_full(&al)).into_uint_be()), al, "ArrayDecoding::into_uint_be (U{})", 64 * N);
    veq!(ul(&byte_array::<N>(&le_full(&al)).into_uint_le()), al, "ArrayDecoding::into_uint_le (U{})", 64 * N);
    Ok(())
}

const WRONG_TAGS: [u8; 12] = [0x00, 0x01, 0x03, 0x04, 0x05, 0x0a, 0x22, 0x30, 0x42, 0x82, 0xa2, 0x1f];

/// A DER-ish input for a type of `cap` octets and the name of the construction.
fn der_input(t: &mut Tape, cap: usize) -> (Vec<u8>, &'static str) {
    let max = cap + 4;
    let mag = magnitude(t, cap, max);
    let content = der_content(&mag);
    let canon = der_tlv(0x02, &content);
    match t.weighted(&[5, 3, 3, 2, 3, 3, 3, 3, 3, 2, 1, 3, 4]) {
        0 => (canon, "der mutation: none (canonical, any size)"),
        1 => {
            let k = t.usize_in(1, 2);
            let mut ct = vec![0u8; k];
            ct.extend_from_slice(&content);
            (der_tlv(0x02, &ct), "der mutation: extra leading 0x00")
        }
        2 => {
            let mut ct = content.clone();
            if ct[0] == 0 && t.bool() {
                ct[0] = 0xff;
            } else {
                ct.insert(0, 0xff);
            }
            (der_tlv(0x02, &ct), "der mutation: leading 0xff (negative)")
        }
        3 => {
            // magnitude with the top bit set and no sign octet
            let mut ct = mag.clone();
            if ct.is_empty() {
                ct.push(0x80);
            }
            ct[0] |= 0x80;
            (der_tlv(0x02, &ct), "der mutation: sign octet dropped (negative)")
        }
        4 => {
            let mut b = canon;
            b[0] = t.pick(&WRONG_TAGS);
            (b, "der mutation: wrong tag")
        }
        5 => {
            let k = t.usize_in(1, 3.min(canon.len()));
            let mut b = canon;
            b.truncate(b.len() - k);
            (b, "der mutation: truncated")
        }
        6 => {
            let mut b = canon;
            match t.below(3) {
                0 => b.push(0),
                1 => b.extend(fill(t, 3)),
                _ => b.extend(der_integer(&[1])),
            }
            (b, "der mutation: trailing octets")
        }
        7 => {
            let l = if t.bool() { content.len() + 1 } else { content.len() - 1 };
            let mut b = vec![0x02];
            b.extend(der_len_field(l));
            b.extend_from_slice(&content);
            (b, "der mutation: length field +-1")
        }
        8 => {
            // long form with more length octets than needed
            let be = (content.len() as u32).to_be_bytes();
            let need = if content.len() < 0x80 { 0 } else { strip(&be).len() };
            let k = t.usize_in(need + 1, 4).max(1);
            let mut b = vec![0x02, 0x80 | k as u8];
            b.extend_from_slice(&be[4 - k..]);
            b.extend_from_slice(&content);
            (b, "der mutation: non-minimal long-form length")
        }
        9 => {
            let mut b = vec![0x02];
            match t.below(3) {
                0 => {
                    b.push(0x80);
                    b.extend_from_slice(&content);
                    b.extend_from_slice(&[0, 0]);
                }
                1 => {
                    b.push(0xff);
                    b.extend_from_slice(&content);
                }
                _ => {
                    b.push(0x85);
                    b.extend_from_slice(&[0, 0, 0, 0, content.len() as u8]);
                    b.extend_from_slice(&content);
                }
            }
            (b, "der mutation: indefinite / reserved / 5-octet length")
        }
        10 => (t.pick(&[vec![0x02, 0x00], vec![], vec![0x02], vec![0x02, 0x81], vec![0x02, 0x01]]), "der mutation: empty contents / input"),
        11 => {
            let len = t.usize_in(0, max);
            let mut b = fill(t, len);
            if !b.is_empty() && t.bool() {
                b[0] = 0x02;
            }
            (b, "der mutation: arbitrary octets")
        }
        _ => {
            let len = (mag_len(t, cap, max) + t.usize_in(0, 1)).max(1);
            let first = match t.weighted(&[3, 2, 2, 2, 2]) {
                0 => 0x00,
                1 => 0x7f,
                2 => 0x80,
                3 => 0xff,
                _ => t.below(256) as u8,
            };
            let mut ct = vec![first];
            ct.extend(fill(t, len - 1));
            (der_tlv(0x02, &ct), "der mutation: arbitrary contents behind a correct header")
        }
    }
}

fn der_bytes_case<const N: usize>(t: &mut Tape, c: &mut Case) -> CaseResult
where
    Uint<N>: ArrayEncoding,
{
    let cap = 8 * N;
    let (bytes, how) = der_input(t, cap);
    c.bytes("der", &bytes);
    c.label(how);
    let v = der_decode(&bytes, N, true);
    match &v.full {
        Ok(_) => c.label("der input: canonical and fits (must decode)"),
        Err(w) => c.label(w.label()),
    }
    // non-triviality (rule in PropSpec::rule)
    let (held, first) = match &v.content {
        Some(ct) => (ct.len(), der_magnitude_top(ct)),
        None => (bytes.len().saturating_sub(2), bytes.get(2).copied().unwrap_or(0)),
    };
    c.nontrivial(held + 1 >= cap && held <= cap + 2 || first >= 0x80);
    if held == cap + 1 || held == cap + 2 {
        c.label("der input: contents one or two octets longer than the type");
    }
    if held == cap {
        c.label("der input: contents exactly capacity octets");
    }

    der_decode_routes::<N>(&bytes, &v)?;

    // the contents octets as a raw magnitude / as an AnyRef with the INTEGER and a wrong tag
    if let Some(ct) = &v.content {
        let raw_want: Result<Limbs, DerWhy> = limbs_from_be(ct, N).ok_or(DerWhy::Oversize);
        let got = guard(|| UintRef::new(ct).and_then(Uint::<N>::try_from));
        check_der::<N>("UintRef::new(raw) -> Uint::try_from", got, &raw_want, raw_want.is_err())?;
        let any_want = der_magnitude(ct).and_then(|m| limbs_from_be(m, N).ok_or(DerWhy::Oversize));
        let got = guard(|| AnyRef::new(Tag::Integer, ct).and_then(Uint::<N>::try_from));
        check_der::<N>("AnyRef::new(INTEGER, contents) -> Uint::try_from", got, &any_want, any_want == Err(DerWhy::Oversize))?;
        let got = guard(|| AnyRef::new(Tag::OctetString, ct).and_then(Uint::<N>::try_from));
        check_der::<N>("AnyRef::new(OCTET STRING, contents) -> Uint::try_from", got, &Err(DerWhy::WrongTag), false)?;
    }
    // embedded in a SEQUENCE OF, followed by a good element
    let items = [bytes.clone(), der_integer(&[1])].concat();
    check_der_seq::<N>("Vec<Uint>::from_der (input, 1)", &items)?;
    Ok(())
}

/// First contents octet, looking through one 0x00 sign octet.
fn der_magnitude_top(ct: &[u8]) -> u8 {
    match ct {
        [0, b, ..] => *b,
        [b, ..] => *b,
        [] => 0,
    }
}

// ------------------------------------------------------------------------------------------------
// RLP

type RlpGot<const N: usize> = Result<Result<Uint<N>, rlp::DecoderError>, String>;

fn check_rlp<const N: usize>(c: &mut Case, name: &str, got: RlpGot<N>, want: &RlpExpect) -> CaseResult {
    let got = match got {
        Err(p) => vfail!("{name} (U{}): panicked (oracle: {want:?}): {p}", 64 * N),
        Ok(g) => g,
    };
    match (got, want) {
        (Ok(u), RlpExpect::Value(w)) => veq!(ul(&u), *w, "{name} (U{}) decoded value", 64 * N),
        (Err(e), RlpExpect::Value(w)) => vfail!("{name} (U{}): rejected the canonical encoding of {} with {e}", 64 * N, hex(w)),
        (Ok(u), RlpExpect::Reject(why)) => vfail!("{name} (U{}): accepted an input that must be rejected ({why}) and returned {}", 64 * N, hex(&ul(&u))),
        (Err(e), RlpExpect::Reject(why)) => {
            // error kinds of crypto-bigint's own payload rules: evidence only
            if why.contains("longer than the type") {
                c.label(if e == rlp::DecoderError::RlpIsTooBig { "rlp oversize payload -> RlpIsTooBig" } else { "rlp oversize payload -> other error" });
            } else if why.contains("payload with a leading zero") {
                c.label(if e == rlp::DecoderError::RlpInvalidIndirection { "rlp leading zero -> RlpInvalidIndirection" } else { "rlp leading zero -> other error" });
            }
        }
        (Ok(u), RlpExpect::Lenient(w, _)) => {
            c.label("rlp framing leniency: non-canonical framing accepted (delegated to rlp crate)");
            veq!(ul(&u), *w, "{name} (U{}) value of a payload behind non-canonical framing", 64 * N);
        }
        (Err(_), RlpExpect::Lenient(..)) => c.label("rlp framing leniency: non-canonical framing rejected"),
    }
    Ok(())
}

fn rlp_decode_routes<const N: usize>(c: &mut Case, bytes: &[u8], want: &RlpExpect) -> CaseResult
where
    Uint<N>: Encoding,
    <Uint<N> as Encoding>::Repr: Default,
{
    check_rlp::<N>(c, "rlp::decode", guard(|| rlp::decode::<Uint<N>>(bytes)), want)?;
    check_rlp::<N>(c, "Rlp::as_val", guard(|| Rlp::new(bytes).as_val::<Uint<N>>()), want)?;
    check_rlp::<N>(c, "Decodable::decode", guard(|| <Uint<N> as Decodable>::decode(&Rlp::new(bytes))), want)?;
    Ok(())
}

/// Encode forms shared by every width with `Encoding` (decoding needs `Repr: Default`, U64..U256).
fn rlp_encode_checks<const N: usize>(c: &mut Case, t: &mut Tape, al: &[u64]) -> Result<(Vec<u8>, Limbs, Vec<u8>), Fail>
where
    Uint<N>: Encoding,
{
    let x = uint::<N>(al);
    let mag = be_min(al);
    let want = rlp_integer(&mag);
    classify_value(c, al, mag.len(), "rlp");
    let repr = x.to_be_bytes();
    veq!(repr.as_ref(), &be_full(al)[..], "Encoding::to_be_bytes (U{})", 64 * N);
    veq!(total("rlp::encode", || rlp::encode(&x))?.to_vec(), want, "rlp::encode (U{})", 64 * N);
    veq!(total("rlp_bytes", || x.rlp_bytes())?.to_vec(), want, "Encodable::rlp_bytes (U{})", 64 * N);
    let s = total("RlpStream::append", || {
        let mut s = RlpStream::new();
        s.append(&x);
        s.out()
    })?;
    veq!(s.to_vec(), want, "RlpStream::append (U{})", 64 * N);
    // lists
    let bl_ = gen::related(t, al);
    c.limbs("y", &bl_);
    let y = uint::<N>(&bl_);
    let items = [want.clone(), rlp_integer(&be_min(&bl_))].concat();
    let wl = rlp_list(&items);
    veq!(total("rlp::encode_list", || rlp::encode_list::<Uint<N>, Uint<N>>(&[x, y]))?.to_vec(), wl, "rlp::encode_list (U{})", 64 * N);
    let s = total("RlpStream::begin_list", || {
        let mut s = RlpStream::new_list(2);
        s.append(&x).append(&y);
        s.out()
    })?;
    veq!(s.to_vec(), wl, "RlpStream::new_list + append (U{})", 64 * N);
    let s = total("RlpStream::append_list", || {
        let mut s = RlpStream::new();
        s.append_list::<Uint<N>, Uint<N>>(&[x, y]);
        s.out()
    })?;
    veq!(s.to_vec(), wl, "RlpStream::append_list (U{})", 64 * N);
    Ok((want, bl_, wl))
}

fn rlp_encode_case<const N: usize>(t: &mut Tape, c: &mut Case) -> CaseResult
where
    Uint<N>: Encoding,
{
    let al = value(t, N);
    c.limbs("x", &al);
    rlp_encode_checks::<N>(c, t, &al)?;
    Ok(())
}

fn rlp_value_case<const N: usize>(t: &mut Tape, c: &mut Case) -> CaseResult
where
    Uint<N>: Encoding,
    <Uint<N> as Encoding>::Repr: Default,
{
    let al = value(t, N);
    c.limbs("x", &al);
    let (want, bl_, wl) = rlp_encode_checks::<N>(c, t, &al)?;
    let v = rlp_decode(&want, N);
    vensure!(v.expect == RlpExpect::Value(al.clone()), "harness: reference RLP decoder disagrees with the reference encoder on {}", hex(&al));
    rlp_decode_routes::<N>(c, &want, &v.expect)?;
    // list routes
    let l = Rlp::new(&wl);
    check_rlp::<N>(c, "Rlp::val_at(0)", guard(|| l.val_at::<Uint<N>>(0)), &RlpExpect::Value(al.clone()))?;
    check_rlp::<N>(c, "Rlp::val_at(1)", guard(|| l.val_at::<Uint<N>>(1)), &RlpExpect::Value(bl_.clone()))?;
    check_rlp::<N>(c, "Rlp::at(1).as_val", guard(|| l.at(1).and_then(|r| r.as_val::<Uint<N>>())), &RlpExpect::Value(bl_.clone()))?;
    match total("Rlp::as_list", || l.as_list::<Uint<N>>())? {
        Ok(xs) => veq!(xs.iter().map(ul).collect::<Vec<_>>(), vec![al.clone(), bl_.clone()], "Rlp::as_list (U{})", 64 * N),
        Err(e) => vfail!("Rlp::as_list (U{}): rejected a canonical list with {e}", 64 * N),
    }
    Ok(())
}

/// An RLP-ish input for a type of `cap` octets and the name of the construction.
fn rlp_input(t: &mut Tape, cap: usize) -> (Vec<u8>, &'static str) {
    let max = cap + 4;
    let mag = magnitude(t, cap, max);
    let canon = rlp_item(&mag);
    match t.weighted(&[5, 4, 2, 3, 3, 3, 2, 3, 2, 3, 4]) {
        0 => (canon, "rlp mutation: none (canonical framing, any size)"),
        1 => {
            let k = t.usize_in(1, 2);
            let mut p = vec![0u8; k];
            p.extend_from_slice(&mag);
            (rlp_item(&p), "rlp mutation: leading zero octet(s) in the payload")
        }
        2 => (vec![0x81, t.below(0x80) as u8], "rlp mutation: octet < 0x80 behind a 0x81 prefix"),
        3 => {
            let mut b = match t.below(3) {
                0 => vec![0xb8, mag.len() as u8],
                1 => vec![0xb9, 0x00, mag.len() as u8],
                _ => vec![0xb9, 0x01, mag.len() as u8],
            };
            b.extend_from_slice(&mag);
            (b, "rlp mutation: long-form prefix for a short payload / padded or wrong long-form length")
        }
        4 => {
            let k = t.usize_in(1, 3.min(canon.len()));
            let mut b = canon;
            b.truncate(b.len() - k);
            (b, "rlp mutation: truncated")
        }
        5 => {
            let mut b = canon;
            match t.below(3) {
                0 => b.push(0),
                1 => b.extend(fill(t, 3)),
                _ => b.extend(rlp_item(&[1])),
            }
            (b, "rlp mutation: trailing octets")
        }
        6 => {
            let b = if t.bool() {
                rlp_list(&canon)
            } else {
                let mut b = vec![0xc0 + mag.len().min(55) as u8];
                b.extend_from_slice(&mag);
                b
            };
            (b, "rlp mutation: list prefix")
        }
        7 => {
            let l = if t.bool() { mag.len() + 1 } else { mag.len().saturating_sub(1) };
            let mut b = vec![0x80 + l.min(55) as u8];
            b.extend_from_slice(&mag);
            (b, "rlp mutation: prefix length +-1")
        }
        8 => (
            t.pick(&[vec![], vec![0x80], vec![0x00], vec![0x81], vec![0xb8], vec![0xbf], vec![0xb7], vec![0xc0], vec![0xff], vec![0x81, 0x80], vec![0x7f], vec![0x01]]),
            "rlp mutation: degenerate short input",
        ),
        9 => {
            let len = t.usize_in(0, max);
            (fill(t, len), "rlp mutation: arbitrary octets")
        }
        _ => {
            let len = mag_len(t, cap, max).max(1);
            let first = match t.weighted(&[3, 2, 2, 2, 2]) {
                0 => 0x00,
                1 => 0x7f,
                2 => 0x80,
                3 => 0xff,
                _ => t.below(256) as u8,
            };
            let mut p = vec![first];
            p.extend(fill(t, len - 1));
            (rlp_item(&p), "rlp mutation: arbitrary payload, canonical framing")
        }
    }
}

fn rlp_bytes_case<const N: usize>(t: &mut Tape, c: &mut Case) -> CaseResult
where
    Uint<N>: Encoding,
    <Uint<N> as Encoding>::Repr: Default,
{
    let cap = 8 * N;
    let (bytes, how) = rlp_input(t, cap);
    c.bytes("rlp", &bytes);
    c.label(how);
    let v = rlp_decode(&bytes, N);
    match &v.expect {
        RlpExpect::Value(_) => c.label("rlp input: canonical and fits (must decode)"),
        RlpExpect::Reject(w) => c.label(*w),
        RlpExpect::Lenient(_, w) => c.label(*w),
    }
    let (held, first) = match &v.payload {
        Some(p) => (p.len(), p.first().copied().unwrap_or(0)),
        None => (bytes.len().saturating_sub(1), bytes.get(1).copied().unwrap_or(0)),
    };
    c.nontrivial(held + 1 >= cap && held <= cap + 2 || first >= 0x80);
    if held == cap + 1 || held == cap + 2 {
        c.label("rlp input: payload one or two octets longer than the type");
    }
    if held == cap {
        c.label("rlp input: payload exactly capacity octets");
    }

    rlp_decode_routes::<N>(c, &bytes, &v.expect)?;

    // as the first element of a list, followed by a good element (only when the input is exactly
    // one canonically framed item, so that the list structure is well defined: the rlp crate's list
    // iterator silently stops at an item whose framing it does not like)
    if v.exact_extent && !v.long_form_short {
        let list = rlp_list(&[bytes.clone(), rlp_item(&[7])].concat());
        let l = Rlp::new(&list);
        check_rlp::<N>(c, "Rlp::val_at(0) of [input, 7]", guard(|| l.val_at::<Uint<N>>(0)), &v.expect)?;
        if let RlpExpect::Value(w) = &v.expect {
            let mut seven = vec![0u64; N];
            seven[0] = 7;
            check_rlp::<N>(c, "Rlp::val_at(1) of [input, 7]", guard(|| l.val_at::<Uint<N>>(1)), &RlpExpect::Value(seven.clone()))?;
            match total("Rlp::as_list", || l.as_list::<Uint<N>>())? {
                Ok(xs) => veq!(xs.iter().map(ul).collect::<Vec<_>>(), vec![w.clone(), seven], "Rlp::as_list of [input, 7]"),
                Err(e) => vfail!("Rlp::as_list (U{}): rejected a canonical list with {e}", 64 * N),
            }
        } else if let RlpExpect::Reject(why) = &v.expect {
            let r = total("Rlp::as_list", || l.as_list::<Uint<N>>())?;
            vensure!(r.is_err(), "Rlp::as_list (U{}): accepted a list whose first element must be rejected ({why})", 64 * N);
        }
    }
    Ok(())
}

// ------------------------------------------------------------------------------------------------

macro_rules! der_subs {
    ($v:ident, $qv:expr, $qb:expr; $($n:literal),*) => { $(
        $v.push(SubCheck::new(format!("der/value/U{}", 64*$n), $qv, der_value_case::<$n>).tape(48 + 3 * $n));
        $v.push(SubCheck::new(format!("der/bytes/U{}", 64*$n), $qb, der_bytes_case::<$n>).tape(48));
    )* };
}
macro_rules! rlp_subs {
    ($v:ident, $qv:expr, $qb:expr; $($n:literal),*) => { $(
        $v.push(SubCheck::new(format!("rlp/value/U{}", 64*$n), $qv, rlp_value_case::<$n>).tape(48 + 3 * $n));
        $v.push(SubCheck::new(format!("rlp/bytes/U{}", 64*$n), $qb, rlp_bytes_case::<$n>).tape(48));
    )* };
}
macro_rules! rlp_enc_subs {
    ($v:ident, $q:expr; $($n:literal),*) => { $(
        $v.push(SubCheck::new(format!("rlp/encode-only/U{}", 64*$n), $q, rlp_encode_case::<$n>).tape(48 + 3 * $n));
    )* };
}

fn subchecks(_ctx: &Ctx) -> Vec<SubCheck> {
    let mut v = vec![];
    // DER: every width of the ArrayEncoding table (src/uint/array.rs)
    der_subs!(v, 30000, 60000; 1, 2, 3, 4);
    der_subs!(v, 15000, 30000; 6, 7, 8, 9, 12, 13, 14, 16);
    der_subs!(v, 6000, 12000; 24, 28, 32);
    der_subs!(v, 2500, 5000; 48, 56, 64, 96, 128);
    // RLP: Decodable needs `Repr: Default` ([u8; N] with N <= 32): U64..U256
    rlp_subs!(v, 40000, 80000; 1, 2, 3, 4);
    // RLP Encodable exists for every width with `Encoding`: short/long prefix boundary (56 octets = U448) and beyond
    rlp_enc_subs!(v, 10000; 5, 7, 8, 32);
    rlp_enc_subs!(v, 2500; 128);
    v.extend(surface::subchecks(_ctx));
    v
}
