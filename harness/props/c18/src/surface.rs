//! API-surface audit (see /verif/audit/F.md): routes into crypto-bigint's DER / RLP impls that the
//! other sub-checks do not take.
//!
//! * `DecodeValue::decode_value` is reached by the existing checks only through the blanket
//!   `Decode` impl (tag checked by the `der` crate first). An `IMPLICIT` context-specific field hands
//!   `decode_value` a header with a *foreign* tag (`ContextSpecific::decode_implicit`,
//!   `Reader::context_specific`); an `EXPLICIT` one nests `Decode::decode` in a length-limited
//!   reader; `Option<Uint>` decodes after peeking the tag. The encoders are reached the same ways
//!   (`value_len` + `encode_value` under a foreign tag; `encoded_len` + `encode` nested), and through
//!   `[Uint<N>; 2]` (SEQUENCE OF with a fixed element count).
//! * RLP: the `Box<T>` and `Option<T>` adaptors of the `rlp` crate, `rlp::decode_list`, `Rlp::iter`;
//!   `Encodable` (no `Decodable`: `Repr: Default` stops at 32 octets) at further alias widths.
//!
//! Oracle: the reference codecs of `refc` on the INTEGER-tagged twin of the input (DER header
//! parsing does not depend on the identifier octet).

use super::*;
use der::asn1::{ContextSpecific, ContextSpecificRef};
use der::{TagMode, TagNumber};

fn cs_bytes_case<const N: usize>(t: &mut Tape, c: &mut Case) -> CaseResult
where
    Uint<N>: ArrayEncoding,
{
    let cap = 8 * N;
    let (mut twin, how) = der_input(t, cap);
    if twin.is_empty() {
        twin = vec![0x02];
    }
    // the INTEGER-tagged twin of the input decides what the contents denote
    twin[0] = 0x02;
    let k = t.pick(&[0u8, 1, 2, 7, 30]);
    c.bytes("der (INTEGER-tagged twin)", &twin);
    c.num("tag number", k as u64);
    c.label(how);
    let v = der_decode(&twin, N, true);
    match &v.prefix {
        Ok(_) => c.label("der input: leading TLV canonical and fits (must decode)"),
        Err(w) => c.label(w.label()),
    }
    let (held, first) = match &v.content {
        Some(ct) => (ct.len(), der_magnitude_top(ct)),
        None => (twin.len().saturating_sub(2), twin.get(2).copied().unwrap_or(0)),
    };
    c.nontrivial(held + 1 >= cap && held <= cap + 2 || first >= 0x80);
    let want_prefix = v.prefix.clone().map(|(w, _)| w);
    let used = v.prefix.as_ref().map(|p| p.1).unwrap_or(0);

    // C18: "Decoding an arbitrary byte string returns either the unique integer denoted by a canonical
    // encoding that fits the target type or an error — never a panic, a truncated or wrapped value, or
    // acceptance of a non-canonical, negative or oversized encoding." The tagging mode does not change
    // the contents octets (X.690 8.14), so the verdict of the INTEGER-tagged twin applies.
    // der docs, `decode_implicit`: "Attempt to decode an IMPLICIT ASN.1 CONTEXT-SPECIFIC field with the
    // provided TagNumber" (a present field with that number is decoded, i.e. Some or an error).
    // ---- [k] IMPLICIT INTEGER: decode_value sees a context-specific header
    let mut imp = twin.clone();
    imp[0] = 0x80 | k;
    for (route, explicit_api) in [("ContextSpecific::decode_implicit", false), ("Reader::context_specific(Implicit)", true)] {
        let got = guard(|| {
            let mut r = SliceReader::new(&imp)?;
            let x = if explicit_api {
                r.context_specific::<Uint<N>>(TagNumber::new(k), TagMode::Implicit)?
            } else {
                ContextSpecific::<Uint<N>>::decode_implicit(&mut r, TagNumber::new(k))?.map(|f| {
                    assert_eq!(f.tag_mode, TagMode::Implicit);
                    assert_eq!(f.tag_number, TagNumber::new(k));
                    f.value
                })
            };
            Ok::<_, der::Error>((x, u32::from(r.position()) as usize))
        });
        match got {
            Ok(Ok((Some(x), pos))) => {
                check_der::<N>(route, Ok(Ok(x)), &want_prefix, v.prefix_oversize)?;
                veq!(pos, used, "{route}: octets consumed");
            }
            Ok(Ok((None, _))) => vfail!("{route} (U{}): a field with the requested tag number is present but None was returned", 64 * N),
            Ok(Err(e)) => check_der::<N>(route, Ok(Err(e)), &want_prefix, v.prefix_oversize)?,
            Err(p) => check_der::<N>(route, Err(p), &want_prefix, v.prefix_oversize)?,
        }
    }

    // ---- [k] EXPLICIT INTEGER: Decode::decode inside a nested reader of exactly the announced length
    let exp = der_tlv(0xa0 | k, &twin);
    let whole_oversize = v.full == Err(DerWhy::Oversize);
    check_der::<N>("ContextSpecific::<Uint>::from_der (EXPLICIT)", guard(|| ContextSpecific::<Uint<N>>::from_der(&exp).map(|f| f.value)), &v.full, whole_oversize)?;
    let got = guard(|| {
        let mut r = SliceReader::new(&exp)?;
        ContextSpecific::<Uint<N>>::decode_explicit(&mut r, TagNumber::new(k))
    });
    match got {
        Ok(Ok(Some(f))) => check_der::<N>("ContextSpecific::decode_explicit", Ok(Ok(f.value)), &v.full, whole_oversize)?,
        Ok(Ok(None)) => vfail!("ContextSpecific::decode_explicit (U{}): field present but None returned", 64 * N),
        Ok(Err(e)) => check_der::<N>("ContextSpecific::decode_explicit", Ok(Err(e)), &v.full, whole_oversize)?,
        Err(p) => check_der::<N>("ContextSpecific::decode_explicit", Err(p), &v.full, whole_oversize)?,
    }

    // ---- OPTIONAL INTEGER: the tag is peeked, then Decode::decode
    match guard(|| Option::<Uint<N>>::from_der(&twin)) {
        Ok(Ok(Some(x))) => check_der::<N>("Option::<Uint>::from_der", Ok(Ok(x)), &v.full, v.prefix_oversize)?,
        Ok(Ok(None)) => vfail!("Option::<Uint<{N}>>::from_der: an INTEGER-tagged input gave None"),
        Ok(Err(e)) => check_der::<N>("Option::<Uint>::from_der", Ok(Err(e)), &v.full, v.prefix_oversize)?,
        Err(p) => check_der::<N>("Option::<Uint>::from_der", Err(p), &v.full, v.prefix_oversize)?,
    }
    Ok(())
}

fn cs_value_case<const N: usize>(t: &mut Tape, c: &mut Case) -> CaseResult
where
    Uint<N>: ArrayEncoding,
{
    let al = value(t, N);
    let bl_ = gen::related(t, &al);
    let k = t.pick(&[0u8, 1, 2, 7, 30]);
    c.limbs("x", &al);
    c.limbs("y", &bl_);
    c.num("tag number", k as u64);
    let (x, y) = (uint::<N>(&al), uint::<N>(&bl_));
    let content = der_content(&be_min(&al));
    let int = der_tlv(0x02, &content);
    classify_value(c, &al, content.len(), "der");
    let tn = TagNumber::new(k);

    // C18: "The DER INTEGER ... encodings of a fixed-size integer are canonical (minimal length, no
    // superfluous leading zero octets, non-negative) and decode back to the same value."
    // EncodeValue under a foreign tag (IMPLICIT) and nested Encode (EXPLICIT)
    let want_imp = der_tlv(0x80 | k, &content);
    let want_exp = der_tlv(0xa0 | k, &int);
    for (mode, want) in [(TagMode::Implicit, &want_imp), (TagMode::Explicit, &want_exp)] {
        let f = ContextSpecific { tag_number: tn, tag_mode: mode, value: x };
        match total("ContextSpecific::to_der", || f.to_der())? {
            Ok(e) => veq!(e, *want, "ContextSpecific<Uint<{N}>>::to_der ({mode:?})"),
            Err(e) => vfail!("ContextSpecific<Uint<{N}>>::to_der ({mode:?}) failed: {e}"),
        }
        let f = ContextSpecificRef { tag_number: tn, tag_mode: mode, value: &x };
        match total("ContextSpecificRef::to_der", || f.to_der())? {
            Ok(e) => veq!(e, *want, "ContextSpecificRef<Uint<{N}>>::to_der ({mode:?})"),
            Err(e) => vfail!("ContextSpecificRef<Uint<{N}>>::to_der ({mode:?}) failed: {e}"),
        }
    }
    // and back
    let got = guard(|| {
        let mut r = SliceReader::new(&want_imp)?;
        ContextSpecific::<Uint<N>>::decode_implicit(&mut r, tn)
    });
    match got {
        Ok(Ok(Some(f))) => veq!(ul(&f.value), al, "decode_implicit(to_der(IMPLICIT x)) (U{})", 64 * N),
        other => vfail!("decode_implicit of the canonical IMPLICIT encoding of {} failed: {:?}", hex(&al), other.map(|r| r.map(|o| o.map(|f| hex(&ul(&f.value)))))),
    }
    check_der::<N>("ContextSpecific::from_der(to_der(EXPLICIT x))", guard(|| ContextSpecific::<Uint<N>>::from_der(&want_exp).map(|f| f.value)), &Ok(al.clone()), false)?;

    // OPTIONAL
    match total("Some(x).to_der", || Some(x).to_der())? {
        Ok(e) => veq!(e, int, "Option<Uint<{N}>>::to_der (Some)"),
        Err(e) => vfail!("Some(Uint).to_der failed: {e}"),
    }
    match total("None.to_der", || None::<Uint<N>>.to_der())? {
        Ok(e) => veq!(e, Vec::<u8>::new(), "Option<Uint<{N}>>::to_der (None)"),
        Err(e) => vfail!("None::<Uint>.to_der failed: {e}"),
    }
    check_der::<N>("Option::<Uint>::from_der(to_der(x))", guard(|| Option::<Uint<N>>::from_der(&int).map(|o| o.expect("harness: INTEGER tag"))), &Ok(al.clone()), false)?;

    // SEQUENCE OF with a fixed element count
    let items = [int.clone(), der_integer(&be_min(&bl_))].concat();
    let seq = der_tlv(0x30, &items);
    match total("[Uint; 2]::to_der", || [x, y].to_der())? {
        Ok(e) => veq!(e, seq, "[Uint<{N}>; 2]::to_der"),
        Err(e) => vfail!("[Uint; 2]::to_der failed: {e}"),
    }
    match total("[Uint; 2]::from_der", || <[Uint<N>; 2]>::from_der(&seq))? {
        Ok(xs) => veq!(xs.iter().map(ul).collect::<Vec<_>>(), vec![al.clone(), bl_.clone()], "[Uint<{N}>; 2]::from_der"),
        Err(e) => vfail!("[Uint<{N}>; 2]::from_der rejected a canonical SEQUENCE OF two INTEGERs: {e}"),
    }
    Ok(())
}

// ------------------------------------------------------------------------------------------------
// RLP adaptors

fn rlp_adaptors_case<const N: usize>(t: &mut Tape, c: &mut Case) -> CaseResult
where
    Uint<N>: Encoding,
    <Uint<N> as Encoding>::Repr: Default,
{
    let cap = 8 * N;
    // rlp docs: `Box<T>` forwards to T; `Option<T>` is "a list of 0 or 1 items"; C18: the payload rules
    // (canonical, fits, else an error) are those of the inner Uint whatever adaptor carries it.
    // (a) a value through Box / Option / decode_list / iter
    let al = value(t, N);
    let bl_ = gen::related(t, &al);
    c.limbs("x", &al);
    c.limbs("y", &bl_);
    let (x, y) = (uint::<N>(&al), uint::<N>(&bl_));
    let want = rlp_integer(&be_min(&al));
    let wl = rlp_list(&[want.clone(), rlp_integer(&be_min(&bl_))].concat());
    veq!(total("rlp::encode(Box)", || rlp::encode(&Box::new(x)))?.to_vec(), want, "rlp::encode(&Box<Uint<{N}>>)");
    veq!(total("rlp::encode(Some)", || rlp::encode(&Some(x)))?.to_vec(), rlp_list(&want), "rlp::encode(&Some(Uint<{N}>)) (one-element list)");
    check_rlp::<N>(c, "rlp::decode::<Box<Uint>>", guard(|| rlp::decode::<Box<Uint<N>>>(&want).map(|b| *b)), &RlpExpect::Value(al.clone()))?;
    match total("rlp::decode::<Option<Uint>>", || rlp::decode::<Option<Uint<N>>>(&rlp_list(&want)))? {
        Ok(Some(u)) => veq!(ul(&u), al, "rlp::decode::<Option<Uint<{N}>>>"),
        other => vfail!("rlp::decode::<Option<Uint<{N}>>> of a canonical one-element list: {:?}", other.map(|o| o.map(|u| hex(&ul(&u))))),
    }
    veq!(total("rlp::decode_list", || rlp::decode_list::<Uint<N>>(&wl))?.iter().map(ul).collect::<Vec<_>>(), vec![al.clone(), bl_.clone()], "rlp::decode_list::<Uint<{N}>>");
    let via_iter: Vec<RlpGot<N>> = Rlp::new(&wl).iter().map(|r| guard(|| r.as_val::<Uint<N>>())).collect();
    veq!(via_iter.len(), 2, "Rlp::iter over a two-element list");
    for (g, w) in via_iter.into_iter().zip([&al, &bl_]) {
        check_rlp::<N>(c, "Rlp::iter().as_val", g, &RlpExpect::Value(w.clone()))?;
    }
    let _ = y;

    // (b) an arbitrary input through the Box adaptor
    let (bytes, how) = rlp_input(t, cap);
    c.bytes("rlp", &bytes);
    c.label(how);
    let v = rlp_decode(&bytes, N);
    let (held, first) = match &v.payload {
        Some(p) => (p.len(), p.first().copied().unwrap_or(0)),
        None => (bytes.len().saturating_sub(1), bytes.get(1).copied().unwrap_or(0)),
    };
    c.nontrivial(held + 1 >= cap && held <= cap + 2 || first >= 0x80);
    check_rlp::<N>(c, "rlp::decode::<Box<Uint>>", guard(|| rlp::decode::<Box<Uint<N>>>(&bytes).map(|b| *b)), &v.expect)?;
    check_rlp::<N>(c, "<Box<Uint> as Decodable>::decode", guard(|| <Box<Uint<N>> as Decodable>::decode(&Rlp::new(&bytes)).map(|b| *b)), &v.expect)?;
    Ok(())
}

macro_rules! cs_subs {
    ($v:ident, $q:expr; $($n:literal),*) => { $(
        $v.push(SubCheck::new(format!("surface/der/context-specific+optional/bytes/U{}", 64*$n), $q, cs_bytes_case::<$n>).tape(56).thorough(10));
        $v.push(SubCheck::new(format!("surface/der/context-specific+optional+array/value/U{}", 64*$n), $q / 2, cs_value_case::<$n>).tape(56 + 6 * $n).thorough(10));
    )* };
}
macro_rules! rlp_ad_subs {
    ($v:ident, $q:expr; $($n:literal),*) => { $(
        $v.push(SubCheck::new(format!("surface/rlp/box+option+list-adaptors/U{}", 64*$n), $q, rlp_adaptors_case::<$n>).tape(96 + 6 * $n).thorough(10));
    )* };
}
macro_rules! rlp_enc_more {
    ($v:ident, $q:expr; $($n:literal),*) => { $(
        $v.push(SubCheck::new(format!("surface/rlp/encode-only/U{}", 64*$n), $q, rlp_encode_case::<$n>).tape(48 + 6 * $n).thorough(10));
    )* };
}

pub fn subchecks(_ctx: &Ctx) -> Vec<SubCheck> {
    let mut v = vec![];
    cs_subs!(v, 10000; 1, 2, 3, 4);
    cs_subs!(v, 5000; 7, 9, 13);
    rlp_ad_subs!(v, 10000; 1, 2, 3, 4);
    rlp_enc_more!(v, 3000; 6, 9, 12, 16, 17);
    rlp_enc_more!(v, 1000; 64);
    rlp_enc_more!(v, 300; 256);
    v
}
