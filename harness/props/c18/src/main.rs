fn main() {
    vmodel::cli_main(c18::spec())
}
