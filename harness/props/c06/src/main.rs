fn main() {
    vmodel::cli_main(c06::spec())
}
