//! Operand-pair generators for C06: the adversarial shapes named in the quantifier (equal values,
//! values differing only in the lowest / highest limb / sign bit, 0 vs MIN / MAX, an equal prefix of
//! high limbs with the low limbs ordered the other way round, zero-padded equal boxed values of
//! different precision, …).

use vmodel::gen;
use vmodel::{Limbs, Tape};

pub struct Pair {
    pub a: Limbs,
    pub b: Limbs,
    pub class: &'static str,
}

/// A word different from `w` (neighbour, one bit flipped, complement, sign flipped, alphabet word).
pub fn diff_word(t: &mut Tape, w: u64) -> u64 {
    let v = match t.weighted(&[3, 3, 3, 1, 1, 2]) {
        0 => w.wrapping_add(1),
        1 => w.wrapping_sub(1),
        2 => w ^ (1u64 << t.below(64)),
        3 => !w,
        4 => w ^ (1 << 63),
        _ => gen::limb_word(t),
    };
    if v == w {
        w ^ 1
    } else {
        v
    }
}

/// Extreme constants of an n-limb type, unsigned and signed readings: 0, 1, 2, MAX (= -1), MAX-1,
/// signed MIN (2^(B-1)), MIN+1, signed MAX, signed MAX-1.
pub fn extreme(t: &mut Tape, n: usize) -> Limbs {
    let mut v = vec![0u64; n];
    match t.below(9) {
        0 => {}
        1 => v[0] = 1,
        2 => v.iter_mut().for_each(|w| *w = u64::MAX),
        3 => v[n - 1] = 1 << 63,
        4 => {
            v.iter_mut().for_each(|w| *w = u64::MAX);
            v[n - 1] = u64::MAX >> 1;
        }
        5 => {
            v[n - 1] = 1 << 63;
            v[0] |= 1;
        }
        6 => {
            v.iter_mut().for_each(|w| *w = u64::MAX);
            v[0] = u64::MAX - 1;
        }
        7 => {
            v.iter_mut().for_each(|w| *w = u64::MAX);
            v[n - 1] = u64::MAX >> 1;
            v[0] = u64::MAX - 1;
        }
        _ => v[0] = 2,
    }
    v
}

/// Values around zero / one with exactly one interesting limb: 0, 1, 2^(64k), 2^(64k)+1, w·2^(64k)
/// (what `is_zero` / `is_one` / `is_odd` must look at every limb for).
pub fn zero_one_like(t: &mut Tape, n: usize) -> Limbs {
    let mut v = vec![0u64; n];
    match t.below(6) {
        0 => {}
        1 => v[0] = 1,
        2 => {
            let k = t.index(n);
            v[k] = 1;
        }
        3 => {
            let k = t.index(n);
            v[k] = 1;
            v[0] |= 1;
        }
        4 => {
            let k = t.index(n);
            v[k] = gen::limb_word(t);
        }
        _ => {
            let k = t.index(n);
            v[k] = gen::limb_word(t);
            v[0] = 1;
        }
    }
    v
}

/// Mostly-random limbs (uniform / random bit length / patterned with random exceptions): keeps the
/// generated pairs distinct where the class itself fixes the interesting structure.
pub fn varied(t: &mut Tape, n: usize) -> Limbs {
    match t.weighted(&[3, 2, 2]) {
        0 => (0..n).map(|_| t.u64()).collect(),
        1 => gen::shape_t(t, n),
        _ => {
            let mut v = gen::shape_l(t, n);
            let i = t.index(n);
            v[i] = t.u64();
            v
        }
    }
}

/// A pair of n-limb operands (n >= 1) from the classes of the quantifier.
pub fn pair(t: &mut Tape, n: usize) -> Pair {
    assert!(n >= 1);
    let cls = t.weighted(&[4, 5, 2, 2, 11, 2, 3, 3, 2, 2]);
    let (a, b, class): (Limbs, Limbs, &'static str) = match cls {
        0 => {
            let a = match t.weighted(&[2, 3, 3]) {
                0 => zero_one_like(t, n),
                1 => gen::limbs(t, n),
                _ => varied(t, n),
            };
            (a.clone(), a, "pair: a == b")
        }
        1 => {
            let a = gen::limbs(t, n);
            let mut b = a.clone();
            b[0] = diff_word(t, a[0]);
            (a, b, "pair: differ only in lowest limb")
        }
        2 => {
            let a = gen::limbs(t, n);
            let mut b = a.clone();
            b[n - 1] = diff_word(t, a[n - 1]);
            (a, b, "pair: differ only in highest limb")
        }
        3 => {
            let a = gen::limbs(t, n);
            let mut b = a.clone();
            b[n - 1] ^= 1 << 63;
            (a, b, "pair: differ only in sign bit")
        }
        4 if n == 1 => {
            // one-limb types: equal top bits, one deciding bit, lower bits ordered the other way round
            let a = if t.bool() { t.u64() } else { gen::word(t) };
            let k = t.below(64);
            let mut b = a ^ (1u64 << k);
            if k > 0 && t.bool() {
                let m = (1u64 << k) - 1;
                b = if b & (1 << k) != 0 { b & !m } else { b | m };
            }
            (vec![a], vec![b], "pair: (one limb) equal top bits, one deciding bit")
        }
        4 => {
            // equal prefix of high limbs, one deciding limb, low limbs ordered the other way round
            let a0 = if t.bool() { varied(t, n) } else { gen::limbs(t, n) };
            let mut a = a0.clone();
            let mut b = a0;
            let i = if n >= 2 { t.index(n - 1) } else { 0 };
            b[i] = diff_word(t, a[i]);
            let a_wins = a[i] > b[i];
            if i > 0 {
                match t.weighted(&[3, 2, 2]) {
                    0 => {
                        // the loser of the deciding limb gets all-ones below, the winner zeros
                        for k in 0..i {
                            let (x, y) = if a_wins { (0, u64::MAX) } else { (u64::MAX, 0) };
                            a[k] = x;
                            b[k] = y;
                        }
                    }
                    1 => {
                        let lo = gen::limbs(t, i);
                        let lo2 = gen::limbs(t, i);
                        let (big_lo, small_lo) = if vmodel::big(&lo) >= vmodel::big(&lo2) { (lo, lo2) } else { (lo2, lo) };
                        let (x, y) = if a_wins { (small_lo, big_lo) } else { (big_lo, small_lo) };
                        a[..i].copy_from_slice(&x);
                        b[..i].copy_from_slice(&y);
                    }
                    _ => {
                        let lo = gen::limbs(t, i);
                        b[..i].copy_from_slice(&lo);
                    }
                }
            }
            (a, b, "pair: equal high prefix, one deciding limb, low limbs opposed")
        }
        5 => (extreme(t, n), extreme(t, n), "pair: 0 / 1 / MIN / MAX extremes"),
        6 => {
            let a = gen::limbs(t, n);
            let b = gen::related(t, &a);
            (a, b, "pair: related (a, a+-1, !a, -a, a>>1, 2a)")
        }
        7 => {
            // borrow chain: a has k zero low limbs, b = a - 1 (or a + 1 from all-ones low limbs)
            let mut a = gen::limbs(t, n);
            let k = t.index(n) + 1;
            let fill = if t.bool() { 0 } else { u64::MAX };
            for w in a.iter_mut().take(k.min(n)) {
                *w = fill;
            }
            let mut b = a.clone();
            if fill == 0 {
                gen::dec(&mut b);
            } else {
                gen::inc(&mut b);
            }
            (a, b, "pair: neighbours across a full borrow / carry chain")
        }
        8 => (zero_one_like(t, n), zero_one_like(t, n), "pair: zero / one -like (single interesting limb)"),
        _ => (gen::limbs(t, n), gen::limbs(t, n), "pair: independent shapes"),
    };
    if t.bool() {
        Pair { a, b, class }
    } else {
        Pair { a: b, b: a, class }
    }
}

/// Boxed operands: equal precision (any class of [`pair`]) or different precisions 1..=max.
pub fn boxed_pair(t: &mut Tape, max: usize) -> Pair {
    assert!(max >= 2);
    if t.weighted(&[2, 3]) == 0 {
        let n = t.usize_in(1, max);
        return pair(t, n);
    }
    let s = t.usize_in(1, max - 1);
    let l = match t.weighted(&[2, 2]) {
        0 => s + 1,
        _ => t.usize_in(s + 1, max),
    };
    let pad = |v: &Limbs| {
        let mut w = v.clone();
        w.resize(l, 0);
        w
    };
    let (short, long, class): (Limbs, Limbs, &'static str) = match t.weighted(&[4, 5, 4, 3, 3]) {
        0 => {
            let sh = if t.chance(1, 3) { zero_one_like(t, s) } else { gen::limbs(t, s) };
            let lo = pad(&sh);
            (sh, lo, "boxed: zero-padded equal values, different precision")
        }
        1 => {
            // equal over the common limbs, longer operand has non-zero high limbs
            let sh = if t.chance(1, 3) { zero_one_like(t, s) } else { gen::limbs(t, s) };
            let mut lo = pad(&sh);
            let k = s + t.index(l - s);
            let w = gen::limb_word(t);
            lo[k] = if w == 0 { 1 } else { w };
            if t.chance(1, 3) {
                for x in lo.iter_mut().skip(s) {
                    if *x == 0 && t.bool() {
                        *x = u64::MAX;
                    }
                }
            }
            (sh, lo, "boxed: equal common limbs, longer has non-zero high limbs")
        }
        2 => {
            // the longer one is zero-padded; they differ inside the common limbs
            let p = pair(t, s);
            let lo = pad(&p.b);
            (p.a, lo, "boxed: zero-padded, differ inside the common limbs")
        }
        3 => {
            // around the precision boundary of the shorter operand
            let sh = match t.below(4) {
                0 => vec![0u64; s],
                1 => {
                    let mut v = vec![0u64; s];
                    v[0] = 1;
                    v
                }
                2 => vec![u64::MAX; s],
                _ => {
                    let mut v = vec![u64::MAX; s];
                    v[0] = u64::MAX - 1;
                    v
                }
            };
            let mut lo = vec![0u64; l];
            match t.below(7) {
                0 => {}
                1 => lo[0] = 1,
                2 => lo.iter_mut().take(s).for_each(|w| *w = u64::MAX),
                3 => lo[s] = 1,
                4 => {
                    lo[s] = 1;
                    lo[0] = 1;
                }
                5 => lo.iter_mut().for_each(|w| *w = u64::MAX),
                _ => {
                    lo.iter_mut().take(s).for_each(|w| *w = u64::MAX);
                    lo[0] = u64::MAX - 1;
                }
            }
            (sh, lo, "boxed: extremes around the shorter precision's boundary")
        }
        _ => (gen::limbs(t, s), gen::limbs(t, l), "boxed: independent shapes, different precision"),
    };
    if t.bool() {
        Pair { a: short, b: long, class }
    } else {
        Pair { a: long, b: short, class }
    }
}

/// The non-triviality rule of the property for operands of the same limb count.
pub fn nontrivial_same(a: &[u64], b: &[u64]) -> bool {
    debug_assert_eq!(a.len(), b.len());
    if a == b {
        return true;
    }
    let n = a.len();
    if n >= 2 {
        a[n - 1] == b[n - 1]
    } else {
        (a[0] ^ b[0]) >> 56 == 0
    }
}

/// Number of equal high limbs (common prefix from the top) of two same-length operands.
pub fn common_prefix(a: &[u64], b: &[u64]) -> usize {
    a.iter().rev().zip(b.iter().rev()).take_while(|(x, y)| x == y).count()
}

/// Labels shared by all same-width sub-checks.
pub fn label_pair(c: &mut vmodel::Case, p: &Pair) {
    c.label(p.class);
    let (a, b) = (&p.a, &p.b);
    if a.len() != b.len() {
        c.label("shape: precisions differ");
        return;
    }
    let n = a.len();
    if a == b {
        c.label("shape: a == b");
        return;
    }
    let k = common_prefix(a, b);
    if k >= 1 {
        c.label("shape: a != b, >= 1 equal high limb");
        if k == n - 1 {
            c.label("shape: a != b, differ only in lowest limb");
        }
        // deciding limb is n-1-k; is the order of the low parts the opposite one?
        let d = n - 1 - k;
        if d > 0 {
            let hi = a[d].cmp(&b[d]);
            let lo = vmodel::big(&a[..d]).cmp(&vmodel::big(&b[..d]));
            if lo != std::cmp::Ordering::Equal && lo != hi {
                c.label("shape: low limbs ordered opposite to the deciding limb");
            }
        }
    } else {
        if n >= 2 && a[..n - 1] == b[..n - 1] {
            c.label("shape: a != b, differ only in highest limb");
        }
        if a[..n - 1] == b[..n - 1] && (a[n - 1] ^ b[n - 1]) == 1 << 63 {
            c.label("shape: a != b, differ only in sign bit");
        }
        if a[n - 1] >> 63 != b[n - 1] >> 63 {
            c.label("shape: sign bits differ");
        }
    }
    if a.iter().zip(b.iter()).all(|(x, y)| x != y) && n >= 2 {
        c.label("shape: every limb differs (select mixture detectable per limb)");
    }
}
