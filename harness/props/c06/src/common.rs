//! Generic assertion helpers: every trait-level form of comparison / equality / hashing / selection
//! is checked against one oracle verdict (`Ordering` of the represented integers) or against the
//! bit-exact representation of the chosen operand.

use crypto_bigint::ConstantTimeSelect;
use std::cmp::Ordering;
use std::collections::hash_map::DefaultHasher;
use std::fmt::Debug;
use std::hash::{Hash, Hasher};
use subtle::{Choice, ConditionallyNegatable, ConditionallySelectable, ConstantTimeEq, ConstantTimeGreater, ConstantTimeLess};
use vmodel::*;

pub fn hash_of<T: Hash + ?Sized>(x: &T) -> u64 {
    let mut s = DefaultHasher::new();
    x.hash(&mut s);
    s.finish()
}

/// A `Choice` must hold exactly 0 or 1.
pub fn cb(c: Choice) -> bool {
    let u = c.unwrap_u8();
    assert!(u <= 1, "Choice holds {u}");
    u == 1
}

/// `ConstantTimeEq`: `ct_eq` / `ct_ne`, both operand orders, reflexive.
pub fn ct_eqne<T: ConstantTimeEq>(ty: &str, a: &T, b: &T, eq: bool) -> CaseResult {
    veq!(cb(a.ct_eq(b)), eq, "{ty}: a.ct_eq(b)");
    veq!(cb(b.ct_eq(a)), eq, "{ty}: b.ct_eq(a)");
    veq!(cb(a.ct_ne(b)), !eq, "{ty}: a.ct_ne(b)");
    veq!(cb(b.ct_ne(a)), !eq, "{ty}: b.ct_ne(a)");
    vensure!(cb(a.ct_eq(a)) && cb(b.ct_eq(b)), "{ty}: ct_eq is not reflexive");
    vensure!(!cb(a.ct_ne(a)) && !cb(b.ct_ne(b)), "{ty}: x.ct_ne(x) is true");
    Ok(())
}

/// `ConstantTimeLess` / `ConstantTimeGreater`, both operand orders, irreflexive.
pub fn ct_ltgt<T: ConstantTimeGreater + ConstantTimeLess>(ty: &str, a: &T, b: &T, want: Ordering) -> CaseResult {
    veq!(cb(a.ct_lt(b)), want == Ordering::Less, "{ty}: a.ct_lt(b)");
    veq!(cb(a.ct_gt(b)), want == Ordering::Greater, "{ty}: a.ct_gt(b)");
    veq!(cb(b.ct_lt(a)), want == Ordering::Greater, "{ty}: b.ct_lt(a)");
    veq!(cb(b.ct_gt(a)), want == Ordering::Less, "{ty}: b.ct_gt(a)");
    vensure!(!cb(a.ct_lt(a)) && !cb(b.ct_lt(b)), "{ty}: x.ct_lt(x) is true");
    vensure!(!cb(a.ct_gt(a)) && !cb(b.ct_gt(b)), "{ty}: x.ct_gt(x) is true");
    Ok(())
}

/// `PartialEq` only.
pub fn std_eq<T: PartialEq + ?Sized>(ty: &str, a: &T, b: &T, eq: bool) -> CaseResult {
    veq!(a == b, eq, "{ty}: a == b");
    veq!(b == a, eq, "{ty}: b == a");
    veq!(a != b, !eq, "{ty}: a != b");
    veq!(b != a, !eq, "{ty}: b != a");
    #[allow(clippy::eq_op)]
    {
        vensure!(a == a && b == b, "{ty}: == is not reflexive");
        vensure!(!(a != a) && !(b != b), "{ty}: x != x is true");
    }
    Ok(())
}

/// `PartialEq` / `Eq` / `PartialOrd` / `Ord` in every operator form, both operand orders, reflexive.
pub fn std_ord<T: Ord>(ty: &str, a: &T, b: &T, want: Ordering) -> CaseResult {
    let (lt, eq, gt) = (want == Ordering::Less, want == Ordering::Equal, want == Ordering::Greater);
    std_eq(ty, a, b, eq)?;
    veq!(a < b, lt, "{ty}: a < b");
    veq!(a <= b, lt || eq, "{ty}: a <= b");
    veq!(a > b, gt, "{ty}: a > b");
    veq!(a >= b, gt || eq, "{ty}: a >= b");
    veq!(b < a, gt, "{ty}: b < a");
    veq!(b <= a, gt || eq, "{ty}: b <= a");
    veq!(b > a, lt, "{ty}: b > a");
    veq!(b >= a, lt || eq, "{ty}: b >= a");
    veq!(a.cmp(b), want, "{ty}: a.cmp(b)");
    veq!(b.cmp(a), want.reverse(), "{ty}: b.cmp(a)");
    veq!(a.partial_cmp(b), Some(want), "{ty}: a.partial_cmp(b)");
    veq!(b.partial_cmp(a), Some(want.reverse()), "{ty}: b.partial_cmp(a)");
    veq!(a.cmp(a), Ordering::Equal, "{ty}: a.cmp(a)");
    veq!(b.partial_cmp(b), Some(Ordering::Equal), "{ty}: b.partial_cmp(b)");
    #[allow(clippy::eq_op)]
    {
        vensure!(a <= a && a >= a && !(a < a) && !(a > a), "{ty}: reflexive operators on a");
    }
    Ok(())
}

/// Everything an integer type offers: std operators + all `subtle` predicates.
pub fn full_order<T>(ty: &str, a: &T, b: &T, want: Ordering) -> CaseResult
where
    T: Ord + ConstantTimeEq + ConstantTimeGreater + ConstantTimeLess,
{
    std_ord(ty, a, b, want)?;
    ct_eqne(ty, a, b, want == Ordering::Equal)?;
    ct_ltgt(ty, a, b, want)
}

/// Mixed-type `PartialEq<U>` / `PartialOrd<U>` (e.g. `Uint` vs `Odd<Uint>`).
pub fn mixed_ord<T, U>(ty: &str, a: &T, b: &U, want: Ordering) -> CaseResult
where
    T: PartialEq<U> + PartialOrd<U>,
{
    let (lt, eq, gt) = (want == Ordering::Less, want == Ordering::Equal, want == Ordering::Greater);
    veq!(a == b, eq, "{ty}: a == b");
    veq!(a != b, !eq, "{ty}: a != b");
    veq!(a.partial_cmp(b), Some(want), "{ty}: a.partial_cmp(b)");
    veq!(a < b, lt, "{ty}: a < b");
    veq!(a <= b, lt || eq, "{ty}: a <= b");
    veq!(a > b, gt, "{ty}: a > b");
    veq!(a >= b, gt || eq, "{ty}: a >= b");
    Ok(())
}

/// `a == b  =>  hash(a) == hash(b)` (also each value hashes reproducibly).
pub fn hash_coherent<T: Hash>(ty: &str, a: &T, b: &T, eq: bool) -> CaseResult {
    let (ha, hb) = (hash_of(a), hash_of(b));
    veq!(hash_of(a), ha, "{ty}: hashing a twice gives different results");
    if eq {
        vensure!(ha == hb, "{ty}: a == b but hash(a) = {ha:#x} != hash(b) = {hb:#x}");
    }
    Ok(())
}

/// `ConstantTimeSelect` (crypto-bigint's trait): `ct_select`, `ct_assign`, `ct_swap` for both choices.
/// `repr` exposes the full representation, so "exactly the chosen operand, never a mixture" is a
/// bit-exact comparison.
pub fn ct_select_all<T, R>(ty: &str, a: &T, b: &T, repr: &impl Fn(&T) -> R) -> CaseResult
where
    T: ConstantTimeSelect,
    R: PartialEq + Debug + Clone,
{
    let (ra, rb) = (repr(a), repr(b));
    for ch in 0..=1u8 {
        let c = Choice::from(ch);
        let (w1, w2) = if ch == 0 { (ra.clone(), rb.clone()) } else { (rb.clone(), ra.clone()) };
        let s = total("ct_select", || T::ct_select(a, b, c))?;
        veq!(repr(&s), w1, "{ty}: ct_select(a, b, {ch})");
        let mut x = a.clone();
        total("ct_assign", || x.ct_assign(b, c))?;
        veq!(repr(&x), w1, "{ty}: a.ct_assign(b, {ch})");
        let (mut x, mut y) = (a.clone(), b.clone());
        total("ct_swap", || T::ct_swap(&mut x, &mut y, c))?;
        veq!(repr(&x), w1, "{ty}: ct_swap(a, b, {ch}) first operand");
        veq!(repr(&y), w2, "{ty}: ct_swap(a, b, {ch}) second operand");
        // the inputs are untouched
        veq!(repr(a), ra, "{ty}: operand a modified by a select with choice {ch}");
        veq!(repr(b), rb, "{ty}: operand b modified by a select with choice {ch}");
    }
    Ok(())
}

/// `subtle::ConditionallySelectable` (+ the blanket `ConstantTimeSelect`) for both choices.
pub fn select_all<T, R>(ty: &str, a: &T, b: &T, repr: &impl Fn(&T) -> R) -> CaseResult
where
    T: ConditionallySelectable,
    R: PartialEq + Debug + Clone,
{
    let (ra, rb) = (repr(a), repr(b));
    for ch in 0..=1u8 {
        let c = Choice::from(ch);
        let (w1, w2) = if ch == 0 { (ra.clone(), rb.clone()) } else { (rb.clone(), ra.clone()) };
        veq!(repr(&T::conditional_select(a, b, c)), w1, "{ty}: conditional_select(a, b, {ch})");
        veq!(repr(&T::conditional_select(b, a, c)), w2, "{ty}: conditional_select(b, a, {ch})");
        let mut x = *a;
        x.conditional_assign(b, c);
        veq!(repr(&x), w1, "{ty}: a.conditional_assign(b, {ch})");
        let (mut x, mut y) = (*a, *b);
        T::conditional_swap(&mut x, &mut y, c);
        veq!(repr(&x), w1, "{ty}: conditional_swap(a, b, {ch}) first operand");
        veq!(repr(&y), w2, "{ty}: conditional_swap(a, b, {ch}) second operand");
    }
    ct_select_all(ty, a, b, repr)
}

/// `subtle::ConditionallyNegatable`: choice 0 leaves the value bit-identical, choice 1 gives exactly
/// `want_neg`.
pub fn negate_all<T, R>(ty: &str, a: &T, want_neg: &R, repr: &impl Fn(&T) -> R) -> CaseResult
where
    T: ConditionallyNegatable + Clone,
    R: PartialEq + Debug + Clone,
{
    let ra = repr(a);
    let mut x = a.clone();
    total("conditional_negate(0)", || x.conditional_negate(Choice::from(0)))?;
    veq!(repr(&x), ra, "{ty}: conditional_negate(0) changed the value");
    let mut y = a.clone();
    total("conditional_negate(1)", || y.conditional_negate(Choice::from(1)))?;
    veq!(repr(&y), *want_neg, "{ty}: conditional_negate(1)");
    Ok(())
}

/// Two's complement negation of a limb vector (oracle side).
pub fn neg_limbs(a: &[u64]) -> Limbs {
    let mut v = a.to_vec();
    gen::neg(&mut v);
    v
}
