//! Fixed-width `Uint<N>` / `Int<N>` and their wrappers (`NonZero`, `Odd`, `Wrapping`, `Checked`),
//! `MontyForm` / `MontyParams`.

use crate::common::*;
use crate::pairs;
use crypto_bigint::modular::{MontyForm, MontyParams};
use crypto_bigint::{Checked, ConstChoice, ConstCtOption, Int, Integer, NonZero, Odd, Uint, Wrapping, Zero};
use num_bigint::{BigInt, BigUint, Sign};
use num_traits::{One as _, Zero as _};
use std::cmp::Ordering;
use subtle::{Choice, CtOption};
use vmodel::*;

// ------------------------------------------------------------------------------------------------
// Uint<N>

pub fn uint_case<const N: usize>(t: &mut Tape, c: &mut Case) -> CaseResult {
    let p = pairs::pair(t, N);
    c.limbs("a", &p.a);
    c.limbs("b", &p.b);
    pairs::label_pair(c, &p);
    c.nontrivial(pairs::nontrivial_same(&p.a, &p.b));
    let (al, bl_) = (&p.a, &p.b);
    let want = big(al).cmp(&big(bl_));
    let eq = want == Ordering::Equal;
    vensure!(eq == (al == bl_), "harness: oracle equality disagrees with limb equality");
    let (a, b) = (uint::<N>(al), uint::<N>(bl_));
    let ty = format!("U{}", 64 * N);
    let ty = ty.as_str();

    // ---- order / equality / hash
    full_order(ty, &a, &b, want)?;
    veq!(a.cmp_vartime(&b), want, "{ty}::cmp_vartime(a, b)");
    veq!(b.cmp_vartime(&a), want.reverse(), "{ty}::cmp_vartime(b, a)");
    veq!(a.cmp_vartime(&a), Ordering::Equal, "{ty}::cmp_vartime(a, a)");
    hash_coherent(ty, &a, &b, eq)?;

    // ---- unary predicates in every form
    for (name, x, l) in [("a", a, al), ("b", b, bl_)] {
        let v = big(l);
        let (z, one, odd) = (v.is_zero(), v.is_one(), l[0] & 1 == 1);
        veq!(cb(Zero::is_zero(&x)), z, "Zero::is_zero({ty} {name})");
        veq!(num_traits::Zero::is_zero(&x), z, "num_traits::Zero::is_zero({ty} {name})");
        veq!(num_traits::One::is_one(&x), one, "num_traits::One::is_one({ty} {name})");
        veq!(cb(Integer::is_odd(&x)), odd, "Integer::is_odd({ty} {name})");
        veq!(cb(Integer::is_even(&x)), !odd, "Integer::is_even({ty} {name})");
        veq!(x == Uint::<N>::ZERO, z, "{ty} {name} == ZERO");
        veq!(x == Uint::<N>::ONE, one, "{ty} {name} == ONE");
        veq!(x == Uint::<N>::MAX, l.iter().all(|&w| w == u64::MAX), "{ty} {name} == MAX");
        veq!(cb(Zero::is_zero(&Wrapping(x))), z, "Zero::is_zero(Wrapping<{ty}> {name})");
        veq!(num_traits::Zero::is_zero(&Wrapping(x)), z, "num_traits::Zero::is_zero(Wrapping<{ty}> {name})");
        veq!(num_traits::One::is_one(&Wrapping(x)), one, "num_traits::One::is_one(Wrapping<{ty}> {name})");

        // option-like: to_nz / to_odd / NonZero::new / Odd::new
        let nz: ConstCtOption<NonZero<Uint<N>>> = x.to_nz();
        veq!(bool::from(nz.is_some()), !z, "{ty}::to_nz({name}).is_some");
        veq!(bool::from(nz.is_none()), z, "{ty}::to_nz({name}).is_none");
        let o: Option<NonZero<Uint<N>>> = nz.clone().into();
        veq!(o.map(|v| ul(&v.get())), if z { None } else { Some(l.clone()) }, "Option::from({ty}::to_nz({name}))");
        veq!(cb(CtOption::from(nz.clone()).is_some()), !z, "CtOption::from({ty}::to_nz({name})).is_some");
        match guard(|| nz.clone().expect("c06-nz")) {
            Ok(v) => {
                vensure!(!z, "{ty}::to_nz(0).expect returned");
                veq!(ul(&v.get()), *l, "{ty}::to_nz({name}).expect value");
            }
            Err(m) => vensure!(z && m.contains("c06-nz"), "{ty}::to_nz({name}).expect panicked: {m}"),
        }
        let od: ConstCtOption<Odd<Uint<N>>> = x.to_odd();
        veq!(bool::from(od.is_some()), odd, "{ty}::to_odd({name}).is_some");
        veq!(bool::from(od.is_none()), !odd, "{ty}::to_odd({name}).is_none");
        let o: Option<Odd<Uint<N>>> = od.clone().into();
        veq!(o.map(|v| ul(&v.get())), if odd { Some(l.clone()) } else { None }, "Option::from({ty}::to_odd({name}))");
        match guard(|| od.clone().expect("c06-odd")) {
            Ok(v) => {
                vensure!(odd, "{ty}::to_odd(even).expect returned");
                veq!(ul(&v.get()), *l, "{ty}::to_odd({name}).expect value");
            }
            Err(m) => vensure!(!odd && m.contains("c06-odd"), "{ty}::to_odd({name}).expect panicked: {m}"),
        }
        match guard(|| od.clone().unwrap()) {
            Ok(v) => {
                vensure!(odd, "{ty}::to_odd(even).unwrap returned");
                veq!(ul(&v.get()), *l, "{ty}::to_odd({name}).unwrap value");
            }
            Err(_) => vensure!(!odd, "{ty}::to_odd({name}).unwrap panicked for an odd value"),
        }
        let n2 = NonZero::new(x);
        veq!(cb(n2.is_some()), !z, "NonZero::<{ty}>::new({name}).is_some");
        veq!(Option::<NonZero<Uint<N>>>::from(n2).map(|v| ul(&v.get())), if z { None } else { Some(l.clone()) }, "NonZero::<{ty}>::new({name}) value");
        let o2 = Odd::new(x);
        veq!(cb(o2.is_some()), odd, "Odd::<{ty}>::new({name}).is_some");
        veq!(Option::<Odd<Uint<N>>>::from(o2).map(|v| ul(&v.get())), if odd { Some(l.clone()) } else { None }, "Odd::<{ty}>::new({name}) value");
    }

    // ConstCtOption<Uint>: `overflowing_shl` is documented to return None iff shift >= BITS; a shift
    // by 0 is the value itself. unwrap_or / expect / Option::from / as_int on both outcomes.
    {
        let some: ConstCtOption<Uint<N>> = a.overflowing_shl(0);
        let none: ConstCtOption<Uint<N>> = a.overflowing_shl(Uint::<N>::BITS);
        veq!(bool::from(some.is_some()), true, "{ty}::overflowing_shl(0).is_some");
        veq!(bool::from(none.is_some()), false, "{ty}::overflowing_shl(BITS).is_some");
        veq!(bool::from(none.is_none()), true, "{ty}::overflowing_shl(BITS).is_none");
        veq!(ul(&some.clone().unwrap_or(b)), *al, "ConstCtOption<{ty}>::unwrap_or on some");
        veq!(ul(&none.clone().unwrap_or(b)), *bl_, "ConstCtOption<{ty}>::unwrap_or on none");
        veq!(Option::<Uint<N>>::from(some.clone()).map(|v| ul(&v)), Some(al.clone()), "Option::from(some)");
        veq!(Option::<Uint<N>>::from(none.clone()).map(|v| ul(&v)), None, "Option::from(none)");
        veq!(ul(&total("expect on some", || some.clone().expect("c06"))?), *al, "ConstCtOption<{ty}>::expect on some");
        let m = must_panic("ConstCtOption::expect on none", || none.clone().expect("c06-none"))?;
        vensure!(m.contains("c06-none"), "ConstCtOption<{ty}>::expect on none: panic message `{m}` lacks the custom text");
        must_panic("ConstCtOption::unwrap on none", || none.clone().unwrap())?;
        let si = some.as_int();
        let ni = none.as_int();
        veq!(bool::from(si.is_some()), true, "ConstCtOption<{ty}>::as_int keeps some");
        veq!(bool::from(ni.is_some()), false, "ConstCtOption<{ty}>::as_int keeps none");
        veq!(il(&si.unwrap_or(b.as_int())), *al, "ConstCtOption<I{}>::unwrap_or on some", 64 * N);
        veq!(il(&ni.unwrap_or(b.as_int())), *bl_, "ConstCtOption<I{}>::unwrap_or on none", 64 * N);
    }

    // ---- selection: exactly the chosen operand
    let r = |x: &Uint<N>| ul(x);
    select_all(ty, &a, &b, &r)?;
    let rw = |x: &Wrapping<Uint<N>>| ul(&x.0);
    select_all("Wrapping<Uint>", &Wrapping(a), &Wrapping(b), &rw)?;
    std_ord("Wrapping<Uint>", &Wrapping(a), &Wrapping(b), want)?;
    ct_eqne("Wrapping<Uint>", &Wrapping(a), &Wrapping(b), eq)?;
    // conditional negate (Wrapping via subtle's blanket impl, Uint via wrapping_neg_if)
    let na = neg_limbs(al);
    negate_all("Wrapping<Uint>", &Wrapping(a), &na, &rw)?;
    veq!(ul(&a.wrapping_neg_if(ConstChoice::FALSE)), *al, "{ty}::wrapping_neg_if(FALSE)");
    veq!(ul(&a.wrapping_neg_if(ConstChoice::TRUE)), na, "{ty}::wrapping_neg_if(TRUE)");
    veq!(ul(&a.wrapping_neg_if(ConstChoice::from(Choice::from(1)))), na, "{ty}::wrapping_neg_if(ConstChoice::from(Choice(1)))");

    let none = Checked::<Uint<N>>(CtOption::new(a, Choice::from(0)));
    let none_b = Checked::<Uint<N>>(CtOption::new(b, Choice::from(0)));
    let rc = |x: &Checked<Uint<N>>| Option::<Uint<N>>::from(x.0).map(|v| ul(&v));
    select_all("Checked<Uint>", &Checked::new(a), &Checked::new(b), &rc)?;
    select_all("Checked<Uint> (some, none)", &Checked::new(b), &none, &rc)?;
    ct_eqne("Checked<Uint>", &Checked::new(a), &Checked::new(b), eq)?;
    ct_eqne("Checked<Uint> (some vs none)", &Checked::new(a), &none, false)?;
    ct_eqne("Checked<Uint> (none vs none)", &none, &none_b, true)?;

    // ---- NonZero / Odd wrappers on the operands with the low bit forced (keeps the limb structure)
    let (mut ao, mut bo) = (al.clone(), bl_.clone());
    ao[0] |= 1;
    bo[0] |= 1;
    let wo = big(&ao).cmp(&big(&bo));
    let eo = wo == Ordering::Equal;
    let (oa, ob) = (Odd::new(uint::<N>(&ao)).unwrap(), Odd::new(uint::<N>(&bo)).unwrap());
    let (za, zb) = (NonZero::new(uint::<N>(&ao)).unwrap(), NonZero::new(uint::<N>(&bo)).unwrap());
    std_ord("Odd<Uint>", &oa, &ob, wo)?;
    ct_eqne("Odd<Uint>", &oa, &ob, eo)?;
    hash_coherent("Odd<Uint>", &oa, &ob, eo)?;
    select_all("Odd<Uint>", &oa, &ob, &|x: &Odd<Uint<N>>| ul(&x.get()))?;
    std_ord("NonZero<Uint>", &za, &zb, wo)?;
    ct_eqne("NonZero<Uint>", &za, &zb, eo)?;
    hash_coherent("NonZero<Uint>", &za, &zb, eo)?;
    select_all("NonZero<Uint>", &za, &zb, &|x: &NonZero<Uint<N>>| ul(&x.get()))?;
    // Uint vs Odd<Uint>
    mixed_ord("Uint vs Odd<Uint>", &a, &ob, big(al).cmp(&big(&bo)))?;
    mixed_ord("Uint vs Odd<Uint> (b, odd a)", &b, &oa, big(bl_).cmp(&big(&ao)))?;
    mixed_ord("Uint vs Odd<Uint> (same value)", &uint::<N>(&ao), &oa, Ordering::Equal)?;
    Ok(())
}

// ------------------------------------------------------------------------------------------------
// Int<N>

pub fn int_case<const N: usize>(t: &mut Tape, c: &mut Case) -> CaseResult {
    let p = pairs::pair(t, N);
    c.limbs("a", &p.a);
    c.limbs("b", &p.b);
    pairs::label_pair(c, &p);
    c.nontrivial(pairs::nontrivial_same(&p.a, &p.b));
    let (al, bl_) = (&p.a, &p.b);
    let (va, vb) = (sbig(al), sbig(bl_));
    let want = va.cmp(&vb);
    let eq = want == Ordering::Equal;
    if (al[N - 1] >> 63) != (bl_[N - 1] >> 63) {
        c.label("int: operands of opposite sign");
    } else if al[N - 1] >> 63 == 1 {
        c.label("int: both negative");
    }
    let (a, b) = (int::<N>(al), int::<N>(bl_));
    let ty = format!("I{}", 64 * N);
    let ty = ty.as_str();

    full_order(ty, &a, &b, want)?;
    veq!(a.cmp_vartime(&b), want, "{ty}::cmp_vartime(a, b)");
    veq!(b.cmp_vartime(&a), want.reverse(), "{ty}::cmp_vartime(b, a)");
    veq!(a.cmp_vartime(&a), Ordering::Equal, "{ty}::cmp_vartime(a, a)");
    hash_coherent(ty, &a, &b, eq)?;
    // the unsigned reading of the same bits must order as unsigned (and equality must agree)
    veq!(a.as_uint().cmp(b.as_uint()), big(al).cmp(&big(bl_)), "{ty}::as_uint ordering");

    for (name, x, l, v) in [("a", a, al, &va), ("b", b, bl_, &vb)] {
        let (z, one, neg) = (v.is_zero(), v.is_one(), v.sign() == Sign::Minus);
        let odd = l[0] & 1 == 1;
        veq!(cb(Zero::is_zero(&x)), z, "Zero::is_zero({ty} {name})");
        veq!(num_traits::Zero::is_zero(&x), z, "num_traits::Zero::is_zero({ty} {name})");
        veq!(num_traits::One::is_one(&x), one, "num_traits::One::is_one({ty} {name})");
        veq!(bool::from(x.is_negative()), neg, "{ty}::is_negative({name})");
        veq!(bool::from(x.is_positive()), !neg && !z, "{ty}::is_positive({name})");
        veq!(bool::from(x.is_min()), *v == smin(N), "{ty}::is_min({name})");
        veq!(bool::from(x.is_max()), *v == smax(N), "{ty}::is_max({name})");
        veq!(x == Int::<N>::ZERO, z, "{ty} {name} == ZERO");
        veq!(x == Int::<N>::ONE, one, "{ty} {name} == ONE");
        veq!(x == Int::<N>::MINUS_ONE, *v == BigInt::from(-1), "{ty} {name} == MINUS_ONE");
        veq!(x == Int::<N>::MIN, *v == smin(N), "{ty} {name} == MIN");
        veq!(x == Int::<N>::MAX, *v == smax(N), "{ty} {name} == MAX");
        // sign vs order against the constants
        veq!(x.cmp(&Int::<N>::ZERO), v.cmp(&BigInt::zero()), "{ty} {name}.cmp(ZERO)");
        veq!(x >= Int::<N>::MIN && x <= Int::<N>::MAX, true, "{ty}: MIN <= {name} <= MAX");
        veq!(x.cmp(&Int::<N>::MINUS_ONE), v.cmp(&BigInt::from(-1)), "{ty} {name}.cmp(MINUS_ONE)");

        let nz: ConstCtOption<NonZero<Int<N>>> = x.to_nz();
        veq!(bool::from(nz.is_some()), !z, "{ty}::to_nz({name}).is_some");
        let o: Option<NonZero<Int<N>>> = nz.into();
        veq!(o.map(|v| il(&v.get())), if z { None } else { Some(l.clone()) }, "Option::from({ty}::to_nz({name}))");
        let od: ConstCtOption<Odd<Int<N>>> = x.to_odd();
        veq!(bool::from(od.is_some()), odd, "{ty}::to_odd({name}).is_some");
        let o: Option<Odd<Int<N>>> = od.into();
        veq!(o.map(|v| il(&v.get())), if odd { Some(l.clone()) } else { None }, "Option::from({ty}::to_odd({name}))");
        let n2 = NonZero::new(x);
        veq!(cb(n2.is_some()), !z, "NonZero::<{ty}>::new({name}).is_some");

        // conditional negate
        let nl = neg_limbs(l);
        veq!(il(&x.wrapping_neg_if(ConstChoice::FALSE)), *l, "{ty}::wrapping_neg_if(FALSE) ({name})");
        veq!(il(&x.wrapping_neg_if(ConstChoice::TRUE)), nl, "{ty}::wrapping_neg_if(TRUE) ({name})");

        // new_from_abs_sign: documented "None when the absolute value does not fit"; the unsigned
        // reading u of the limbs is the magnitude.
        let u = big(l);
        let ux = uint::<N>(l);
        let half = pow2(64 * N as u64 - 1);
        for sgn in [false, true] {
            let r = Int::<N>::new_from_abs_sign(ux, if sgn { ConstChoice::TRUE } else { ConstChoice::FALSE });
            let fits = u < half || (sgn && u == half);
            veq!(bool::from(r.is_some()), fits, "{ty}::new_from_abs_sign(|{name}|, neg={sgn}).is_some");
            veq!(bool::from(r.is_none()), !fits, "{ty}::new_from_abs_sign(|{name}|, neg={sgn}).is_none");
            let val = BigInt::from_biguint(if sgn { Sign::Minus } else { Sign::Plus }, u.clone());
            let o: Option<Int<N>> = r.clone().into();
            veq!(o.map(|v| il(&v)), if fits { Some(twos(&val, N)) } else { None }, "Option::from({ty}::new_from_abs_sign(|{name}|, neg={sgn}))");
            let def = b;
            let got = r.clone().unwrap_or(def);
            veq!(il(&got), if fits { twos(&val, N) } else { bl_.clone() }, "ConstCtOption<{ty}>::unwrap_or (new_from_abs_sign(|{name}|, neg={sgn}))");
            match guard(|| r.clone().expect("c06-int")) {
                Ok(v) => {
                    vensure!(fits, "{ty}::new_from_abs_sign(..).expect returned for a none");
                    veq!(il(&v), twos(&val, N), "ConstCtOption<{ty}>::expect value");
                }
                Err(m) => vensure!(!fits && m.contains("c06-int"), "ConstCtOption<{ty}>::expect panicked: {m}"),
            }
        }
        // checked_neg: documented None iff self == MIN
        let cn = x.checked_neg();
        veq!(bool::from(cn.is_some()), *v != smin(N), "{ty}::checked_neg({name}).is_some");
        if *v != smin(N) {
            veq!(il(&cn.unwrap()), nl, "{ty}::checked_neg({name}) value");
        }
    }

    // ---- selection
    let r = |x: &Int<N>| il(x);
    select_all(ty, &a, &b, &r)?;
    let rw = |x: &Wrapping<Int<N>>| il(&x.0);
    select_all("Wrapping<Int>", &Wrapping(a), &Wrapping(b), &rw)?;
    std_ord("Wrapping<Int>", &Wrapping(a), &Wrapping(b), want)?;
    ct_eqne("Wrapping<Int>", &Wrapping(a), &Wrapping(b), eq)?;
    let none = Checked::<Int<N>>(CtOption::new(a, Choice::from(0)));
    let rc = |x: &Checked<Int<N>>| Option::<Int<N>>::from(x.0).map(|v| il(&v));
    select_all("Checked<Int>", &Checked::new(a), &Checked::new(b), &rc)?;
    select_all("Checked<Int> (none, some)", &none, &Checked::new(b), &rc)?;
    ct_eqne("Checked<Int>", &Checked::new(a), &Checked::new(b), eq)?;
    ct_eqne("Checked<Int> (some vs none)", &Checked::new(b), &none, false)?;

    // NonZero<Int> / Odd<Int> (derived order = signed order of the inner value)
    let (mut ao, mut bo) = (al.clone(), bl_.clone());
    ao[0] |= 1;
    bo[0] |= 1;
    let wo = sbig(&ao).cmp(&sbig(&bo));
    let eo = wo == Ordering::Equal;
    let (za, zb) = (NonZero::new(int::<N>(&ao)).unwrap(), NonZero::new(int::<N>(&bo)).unwrap());
    std_ord("NonZero<Int>", &za, &zb, wo)?;
    ct_eqne("NonZero<Int>", &za, &zb, eo)?;
    hash_coherent("NonZero<Int>", &za, &zb, eo)?;
    select_all("NonZero<Int>", &za, &zb, &|x: &NonZero<Int<N>>| il(&x.get()))?;
    let (oa, ob): (Odd<Int<N>>, Odd<Int<N>>) = (int::<N>(&ao).to_odd().unwrap(), int::<N>(&bo).to_odd().unwrap());
    std_ord("Odd<Int>", &oa, &ob, wo)?;
    ct_eqne("Odd<Int>", &oa, &ob, eo)?;
    hash_coherent("Odd<Int>", &oa, &ob, eo)?;
    select_all("Odd<Int>", &oa, &ob, &|x: &Odd<Int<N>>| il(&x.get()))?;
    Ok(())
}

// ------------------------------------------------------------------------------------------------
// MontyParams<N> / MontyForm<N>

fn reduced(t: &mut Tape, m: &BigUint, n: usize) -> Limbs {
    limbs_exact(&gen::residue(t, m), n)
}

pub fn monty_case<const N: usize>(t: &mut Tape, c: &mut Case) -> CaseResult {
    let (m1, cl1) = gen::odd_modulus(t, N);
    let same_mod = t.bool();
    let m2 = if same_mod { m1.clone() } else { gen::odd_modulus(t, N).0 };
    let (bm1, bm2) = (big(&m1), big(&m2));
    let x1 = reduced(t, &bm1, N);
    let x2 = match t.weighted(&[2, 2, 4]) {
        0 if big(&x1) < bm2 => x1.clone(),
        1 => {
            // same low limb / only the highest limb differs where possible
            let mut v = x1.clone();
            v[N - 1] = pairs::diff_word(t, v[N - 1]);
            limbs_exact(&(big(&v) % &bm2), N)
        }
        _ => reduced(t, &bm2, N),
    };
    c.limbs("m1", &m1);
    c.limbs("m2", &m2);
    c.limbs("x1", &x1);
    c.limbs("x2", &x2);
    c.label(if m1 == m2 { "monty: same modulus" } else { "monty: different moduli" });
    c.label(cl1);
    let same_val = x1 == x2;
    if m1 == m2 && same_val {
        c.label("monty: equal forms");
    }
    // rule for this sub-check: (modulus, value) pairs that are equal, or that share the modulus or the
    // highest limb of the value (a mixture of the two operands is then the only way to go wrong)
    c.nontrivial((m1 == m2) || same_val || x1[N - 1] == x2[N - 1]);

    let p1 = total("MontyParams::new_vartime", || MontyParams::<N>::new_vartime(Odd::new(uint::<N>(&m1)).unwrap()))?;
    let p2 = total("MontyParams::new_vartime", || MontyParams::<N>::new_vartime(Odd::new(uint::<N>(&m2)).unwrap()))?;
    let peq = m1 == m2;
    // equality of parameter sets: derived == and ct_eq must agree with equality of the moduli
    std_eq("MontyParams", &p1, &p2, peq)?;
    ct_eqne("MontyParams", &p1, &p2, peq)?;
    // representation: Debug output covers every field (modulus, one, r2, r3, mod_neg_inv, leading zeros)
    let rp = |p: &MontyParams<N>| format!("{p:?}");
    select_all("MontyParams", &p1, &p2, &rp)?;
    veq!(ul(&p1.modulus().get()), m1, "MontyParams::modulus");

    // forms built directly from reduced Montgomery representations (no arithmetic involved)
    let f1 = MontyForm::from_montgomery(uint::<N>(&x1), p1);
    let f2 = MontyForm::from_montgomery(uint::<N>(&x2), p2);
    let feq = peq && same_val;
    std_eq("MontyForm", &f1, &f2, feq)?;
    ct_eqne("MontyForm", &f1, &f2, feq)?;
    let rf = |f: &MontyForm<N>| (ul(f.as_montgomery()), format!("{:?}", f.params()));
    select_all("MontyForm", &f1, &f2, &rf)?;
    // same parameters, different value: the selected form must carry the value of the chosen one
    let f3 = MontyForm::from_montgomery(uint::<N>(&limbs_exact(&(big(&x2) % &bm1), N)), p1);
    select_all("MontyForm (same params)", &f1, &f3, &rf)?;
    std_eq("MontyForm (same params)", &f1, &f3, big(&x1) == big(&x2) % &bm1)?;
    ct_eqne("MontyForm (same params)", &f1, &f3, big(&x1) == big(&x2) % &bm1)?;

    // conditional negate of a form created from an integer: retrieve gives x or (m - x) mod m
    let g = total("MontyForm::new", || MontyForm::new(&uint::<N>(&x1), p1))?;
    let mut g0 = g;
    subtle::ConditionallyNegatable::conditional_negate(&mut g0, Choice::from(0));
    veq!(rf(&g0), rf(&g), "MontyForm::conditional_negate(0) changed the form");
    let mut g1 = g;
    subtle::ConditionallyNegatable::conditional_negate(&mut g1, Choice::from(1));
    let neg = (&bm1 - big(&x1)) % &bm1;
    veq!(ul(&g1.retrieve()), limbs_exact(&neg, N), "MontyForm::conditional_negate(1).retrieve()");
    veq!(format!("{:?}", g1.params()), format!("{:?}", g.params()), "MontyForm::conditional_negate(1) params");
    Ok(())
}
