//! C06 extra — selection items that no other C06 sub-check reaches:
//!
//!  * the *provided* methods `ConstantTimeSelect::ct_assign` / `ct_swap`. Every implementor inside
//!    the crate overrides them (`BoxedUint`, and the blanket impl for `ConditionallySelectable`
//!    types), so the generic bodies the trait documents ("It also provides generic implementations of
//!    conditional assignment and conditional swaps") only run for a downstream implementor that
//!    supplies `ct_select` alone. `Pt` below is such an implementor (two `BoxedUint` coordinates and a
//!    limb vector; not `Copy`, so the blanket impl does not apply);
//!  * `Reciprocal::conditional_select` (and the blanket `ct_select` / `conditional_assign` /
//!    `conditional_swap` through it): the selected object must divide exactly like
//!    `Reciprocal::new(chosen divisor)`, checked against the BigUint quotient / remainder;
//!  * `Checked<T>`: `Default`, `From<CtOption<T>>`, `Into<CtOption<T>>`, `Into<Option<T>>`.
//!
//! Non-trivial: defaults sub-check — the rule of the property for the pair of first coordinates
//! (equal, or a common most significant limb / top byte); reciprocal sub-check — the two divisors
//! give a different (quotient, remainder) for the generated dividend, i.e. a wrong selection is
//! observable; checked sub-check — the option is none, or the value is not T::default().

use crate::common::{cb, ct_select_all};
use crate::pairs;
use crypto_bigint::{BoxedUint, Checked, ConstantTimeSelect, Limb, NonZero, Reciprocal, Uint};
use num_bigint::BigUint;
use num_traits::ToPrimitive;
use subtle::{Choice, ConditionallySelectable, CtOption};
use vmodel::gen;
use vmodel::*;

// ------------------------------------------------------------------------------------------------
// provided methods of ConstantTimeSelect

#[derive(Clone, Debug, PartialEq)]
struct Pt {
    x: BoxedUint,
    y: BoxedUint,
    z: Vec<Limb>,
}

impl ConstantTimeSelect for Pt {
    // only the required method: ct_assign / ct_swap are the trait's provided bodies
    fn ct_select(a: &Self, b: &Self, choice: Choice) -> Self {
        Pt {
            x: BoxedUint::ct_select(&a.x, &b.x, choice),
            y: BoxedUint::ct_select(&a.y, &b.y, choice),
            z: a.z.iter().zip(b.z.iter()).map(|(p, q)| Limb::conditional_select(p, q, choice)).collect(),
        }
    }
}

fn pt_repr(p: &Pt) -> (Limbs, Limbs, Limbs) {
    (bl(&p.x), bl(&p.y), p.z.iter().map(|l| l.0).collect())
}

fn defaults_case(t: &mut Tape, c: &mut Case) -> CaseResult {
    let n = t.usize_in(1, 6);
    let p = pairs::pair(t, n);
    c.limbs("a.x", &p.a);
    c.limbs("b.x", &p.b);
    pairs::label_pair(c, &p);
    c.nontrivial(pairs::nontrivial_same(&p.a, &p.b));
    let m = t.usize_in(1, 4);
    let (ay, by) = (gen::limbs(t, m), gen::limbs(t, m));
    let k = t.usize_in(0, 3);
    let (az, bz) = (gen::limbs(t, k.max(1)), gen::limbs(t, k.max(1)));
    c.limbs("a.y", &ay);
    c.limbs("b.y", &by);
    c.limbs("a.z", &az[..k]);
    c.limbs("b.z", &bz[..k]);
    let a = Pt { x: boxed(&p.a), y: boxed(&ay), z: az[..k].iter().map(|&w| Limb(w)).collect() };
    let b = Pt { x: boxed(&p.b), y: boxed(&by), z: bz[..k].iter().map(|&w| Limb(w)).collect() };
    ct_select_all("downstream ConstantTimeSelect (provided ct_assign / ct_swap)", &a, &b, &pt_repr)?;
    ct_select_all("downstream ConstantTimeSelect (provided ct_assign / ct_swap) (b, a)", &b, &a, &pt_repr)?;
    // swapping twice with the same choice restores both operands (a permutation either way)
    for ch in 0..=1u8 {
        let (mut x, mut y) = (a.clone(), b.clone());
        Pt::ct_swap(&mut x, &mut y, Choice::from(ch));
        Pt::ct_swap(&mut x, &mut y, Choice::from(ch));
        vensure!(x == a && y == b, "ct_swap applied twice with choice {ch} is not the identity");
        // self-assignment keeps the value
        let mut s = a.clone();
        let s2 = a.clone();
        s.ct_assign(&s2, Choice::from(ch));
        vensure!(s == a, "a.ct_assign(&a.clone(), {ch}) changed the value");
    }
    Ok(())
}

// ------------------------------------------------------------------------------------------------
// Reciprocal

fn divisor(t: &mut Tape) -> u64 {
    let d = match t.weighted(&[3, 2, 2, 2]) {
        0 => gen::word(t),
        1 => 1u64 << t.below(64),
        2 => (1u64 << t.below(64)).wrapping_sub(1),
        _ => t.u64() >> t.below(64),
    };
    d.max(1)
}

fn divmod(x: &BigUint, d: u64) -> (BigUint, u64) {
    let dd = BigUint::from(d);
    (x / &dd, (x % &dd).to_u64().expect("harness: remainder < 2^64"))
}

pub(crate) fn reciprocal_case<const N: usize>(t: &mut Tape, c: &mut Case) -> CaseResult {
    let d1 = divisor(t);
    let d2 = match t.weighted(&[2, 2, 2, 1, 1]) {
        0 => divisor(t),
        1 => pairs::diff_word(t, d1).max(1),
        // same normalized divisor, different shift
        2 => (d1 >> t.below(64)).max(1),
        3 => d1.rotate_left(t.below(64) as u32).max(1),
        _ => d1,
    };
    let xl = gen::limbs(t, N);
    c.num("d1", d1);
    c.num("d2", d2);
    c.limbs("x", &xl);
    let xb = big(&xl);
    let (w1, w2) = (divmod(&xb, d1), divmod(&xb, d2));
    c.nontrivial(w1 != w2);
    c.label(if d1 == d2 {
        "reciprocal: d1 == d2"
    } else if d1.leading_zeros() != d2.leading_zeros() && d1 << d1.leading_zeros() == d2 << d2.leading_zeros() {
        "reciprocal: same normalized divisor, different shift"
    } else if d1.leading_zeros() == d2.leading_zeros() {
        "reciprocal: same shift, different divisor"
    } else {
        "reciprocal: different shift and divisor"
    });
    let nz = |d: u64| Option::<NonZero<Limb>>::from(NonZero::new(Limb(d))).expect("harness: divisor is non-zero");
    let (r1, r2) = (Reciprocal::new(nz(d1)), Reciprocal::new(nz(d2)));
    let x = uint::<N>(&xl);
    let xbx = boxed(&xl);

    let behaves = |what: &str, r: &Reciprocal, d: u64, want: &(BigUint, u64)| -> CaseResult {
        let (q, rem) = total(what, || x.div_rem_limb_with_reciprocal(r))?;
        veq!(ubig(&q), want.0, "{what}: Uint::div_rem_limb_with_reciprocal quotient (divisor {d:#x})");
        veq!(rem.0, want.1, "{what}: Uint::div_rem_limb_with_reciprocal remainder (divisor {d:#x})");
        veq!(total(what, || x.rem_limb_with_reciprocal(r))?.0, want.1, "{what}: Uint::rem_limb_with_reciprocal (divisor {d:#x})");
        let (q, rem) = total(what, || xbx.div_rem_limb_with_reciprocal(r))?;
        veq!(bbig(&q), want.0, "{what}: BoxedUint::div_rem_limb_with_reciprocal quotient (divisor {d:#x})");
        veq!(rem.0, want.1, "{what}: BoxedUint::div_rem_limb_with_reciprocal remainder (divisor {d:#x})");
        veq!(total(what, || xbx.rem_limb_with_reciprocal(r))?.0, want.1, "{what}: BoxedUint::rem_limb_with_reciprocal (divisor {d:#x})");
        veq!(r.shift(), d.leading_zeros(), "{what}: shift() (divisor {d:#x})");
        Ok(())
    };

    for ch in 0..=1u8 {
        let choice = Choice::from(ch);
        let (d, want, chosen, other_d, other_want, other) = if ch == 0 { (d1, &w1, &r1, d2, &w2, &r2) } else { (d2, &w2, &r2, d1, &w1, &r1) };
        let s = total("Reciprocal::conditional_select", || Reciprocal::conditional_select(&r1, &r2, choice))?;
        behaves(&format!("conditional_select(new({d1:#x}), new({d2:#x}), {ch})"), &s, d, want)?;
        vensure!(s == *chosen, "conditional_select(.., {ch}) != the chosen operand: {s:?} vs {chosen:?}");
        let s = <Reciprocal as ConstantTimeSelect>::ct_select(&r1, &r2, choice);
        behaves(&format!("ct_select(new({d1:#x}), new({d2:#x}), {ch})"), &s, d, want)?;
        let mut s = r1;
        s.conditional_assign(&r2, choice);
        behaves(&format!("new({d1:#x}).conditional_assign(new({d2:#x}), {ch})"), &s, d, want)?;
        let (mut p, mut q) = (r1, r2);
        Reciprocal::conditional_swap(&mut p, &mut q, choice);
        behaves(&format!("conditional_swap(new({d1:#x}), new({d2:#x}), {ch}) first"), &p, d, want)?;
        behaves(&format!("conditional_swap(new({d1:#x}), new({d2:#x}), {ch}) second"), &q, other_d, other_want)?;
        vensure!(p == *chosen && q == *other, "conditional_swap(.., {ch}) is not the expected permutation");
    }
    Ok(())
}

// ------------------------------------------------------------------------------------------------
// Checked<T> conversions

fn checked_conv<T, R>(ty: &str, v: T, some: bool, repr: &impl Fn(&T) -> R) -> CaseResult
where
    T: Clone + Default,
    R: PartialEq + std::fmt::Debug,
{
    let want = repr(&v);
    let flag = Choice::from(some as u8);
    // CtOption -> Checked
    let ck: Checked<T> = total("From<CtOption<T>> for Checked<T>", || Checked::from(CtOption::new(v.clone(), flag)))?;
    veq!(cb(ck.0.is_some()), some, "{ty}: Checked::from(CtOption).0.is_some()");
    if some {
        veq!(repr(&ck.0.clone().unwrap()), want, "{ty}: Checked::from(CtOption) value");
    }
    // Checked -> CtOption
    let back: CtOption<T> = total("From<Checked<T>> for CtOption<T>", || CtOption::from(ck.clone()))?;
    veq!(cb(back.is_some()), some, "{ty}: CtOption::from(Checked).is_some()");
    veq!(cb(back.is_none()), !some, "{ty}: CtOption::from(Checked).is_none()");
    if some {
        veq!(repr(&back.unwrap()), want, "{ty}: CtOption::from(Checked) value");
    }
    // Checked -> Option
    let opt: Option<T> = total("From<Checked<T>> for Option<T>", || Option::from(ck.clone()))?;
    veq!(opt.as_ref().map(repr), if some { Some(repr(&v)) } else { None }, "{ty}: Option::from(Checked)");
    // Checked::new is always some and converts to Some(v)
    let opt: Option<T> = Checked::new(v.clone()).into();
    veq!(opt.as_ref().map(repr), Some(repr(&v)), "{ty}: Option::from(Checked::new(v))");
    let cto: CtOption<T> = Checked::new(v.clone()).into();
    vensure!(cb(cto.is_some()), "{ty}: CtOption::from(Checked::new(v)) is none");
    veq!(repr(&cto.unwrap()), want, "{ty}: CtOption::from(Checked::new(v)) value");
    // Default = some(T::default())
    let d = total("Checked::default", || Checked::<T>::default())?;
    vensure!(cb(d.0.is_some()), "{ty}: Checked::default() is none");
    veq!(repr(&d.0.unwrap()), repr(&T::default()), "{ty}: Checked::default() value");
    Ok(())
}

fn checked_case(t: &mut Tape, c: &mut Case) -> CaseResult {
    let n = t.usize_in(1, 4);
    let xl = gen::limbs(t, 4);
    let some = t.bool();
    c.limbs("v", &xl);
    c.num("boxed limbs", n as u64);
    c.num("is_some", some as u64);
    c.nontrivial(!some || !is_zero(&xl));
    checked_conv("Checked<Limb>", Limb(xl[0]), some, &|l: &Limb| l.0)?;
    checked_conv("Checked<U64>", uint::<1>(&xl[..1]), some, &|x: &Uint<1>| ul(x))?;
    checked_conv("Checked<U256>", uint::<4>(&xl), some, &|x: &Uint<4>| ul(x))?;
    checked_conv("Checked<I128>", int::<2>(&xl[..2]), some, &|x: &crypto_bigint::Int<2>| il(x))?;
    checked_conv("Checked<BoxedUint>", boxed(&xl[..n]), some, &|x: &BoxedUint| bl(x))?;
    // the zero default of BoxedUint is a valid one-limb zero
    let d = Checked::<BoxedUint>::default();
    let inner: Option<BoxedUint> = d.into();
    let inner = inner.expect("checked above: default is some");
    vensure!(inner.nlimbs() >= 1 && is_zero(&bl(&inner)), "Checked::<BoxedUint>::default() holds {inner:?}");
    Ok(())
}

macro_rules! recips {
    ($v:ident, $q:expr; $($n:literal),*) => { $(
        $v.push(SubCheck::new(format!("extra/reciprocal-select/U{}", 64 * $n), $q, reciprocal_case::<$n>).tape(24 + 3 * $n));
    )* };
}

pub fn subchecks(_ctx: &Ctx) -> Vec<SubCheck> {
    let mut v = vec![];
    v.push(SubCheck::new("extra/ct-select-provided-methods", 60_000, defaults_case).tape(96));
    recips!(v, 30_000; 1, 2, 4);
    v.push(SubCheck::new("extra/checked-conversions", 60_000, checked_case).tape(32));
    v
}
