//! `Limb` (one machine word): every comparison / predicate / select form.

use crate::common::*;
use crate::pairs;
use crypto_bigint::{Checked, ConstChoice, ConstCtOption, Limb, NonZero, Wrapping, Zero};
use std::cmp::Ordering;
use subtle::{Choice, CtOption};
use vmodel::*;

pub fn limb_case(t: &mut Tape, c: &mut Case) -> CaseResult {
    let p = pairs::pair(t, 1);
    let (wa, wb) = (p.a[0], p.b[0]);
    c.num("a", wa);
    c.num("b", wb);
    pairs::label_pair(c, &p);
    c.nontrivial(pairs::nontrivial_same(&p.a, &p.b));
    let want = wa.cmp(&wb);
    let (a, b) = (Limb(wa), Limb(wb));

    // ---- order / equality
    full_order("Limb", &a, &b, want)?;
    veq!(a.cmp_vartime(&b), want, "Limb::cmp_vartime");
    veq!(b.cmp_vartime(&a), want.reverse(), "Limb::cmp_vartime reversed");
    veq!(a.eq_vartime(&b), want == Ordering::Equal, "Limb::eq_vartime");
    veq!(a.eq_vartime(&a), true, "Limb::eq_vartime reflexive");
    hash_coherent("Limb", &a, &b, wa == wb)?;

    // ---- unary predicates
    for (name, x, w) in [("a", a, wa), ("b", b, wb)] {
        veq!(cb(x.is_odd()), w & 1 == 1, "Limb::is_odd({name})");
        veq!(cb(Zero::is_zero(&x)), w == 0, "Zero::is_zero(Limb {name})");
        veq!(num_traits::Zero::is_zero(&x), w == 0, "num_traits::Zero::is_zero(Limb {name})");
        veq!(num_traits::One::is_one(&x), w == 1, "num_traits::One::is_one(Limb {name})");
        veq!(x == Limb::ZERO, w == 0, "Limb {name} == ZERO");
        veq!(x == Limb::ONE, w == 1, "Limb {name} == ONE");
        veq!(x == Limb::MAX, w == u64::MAX, "Limb {name} == MAX");
        // option-like results
        let nz: ConstCtOption<NonZero<Limb>> = x.to_nz();
        veq!(bool::from(nz.is_some()), w != 0, "Limb::to_nz({name}).is_some");
        veq!(bool::from(nz.is_none()), w == 0, "Limb::to_nz({name}).is_none");
        veq!(nz.is_some() == ConstChoice::TRUE, w != 0, "Limb::to_nz({name}).is_some == ConstChoice::TRUE");
        veq!(nz.is_some() == ConstChoice::FALSE, w == 0, "Limb::to_nz({name}).is_some == ConstChoice::FALSE");
        let o: Option<NonZero<Limb>> = nz.clone().into();
        veq!(o.map(|v| v.get().0), if w != 0 { Some(w) } else { None }, "Option::from(Limb::to_nz({name}))");
        let ct: CtOption<NonZero<Limb>> = nz.clone().into();
        veq!(cb(ct.is_some()), w != 0, "CtOption::from(Limb::to_nz({name})).is_some");
        match guard(|| nz.clone().expect("c06")) {
            Ok(v) => {
                vensure!(w != 0, "Limb::to_nz(0).expect returned");
                veq!(v.get().0, w, "Limb::to_nz({name}).expect value");
            }
            Err(m) => vensure!(w == 0 && m.contains("c06"), "Limb::to_nz({name}).expect: panic `{m}` (value {w})"),
        }
        match guard(|| nz.clone().unwrap()) {
            Ok(v) => {
                vensure!(w != 0, "Limb::to_nz(0).unwrap returned");
                veq!(v.get().0, w, "Limb::to_nz({name}).unwrap value");
            }
            Err(_) => vensure!(w == 0, "Limb::to_nz({name}).unwrap panicked for a non-zero value"),
        }
        let n2 = NonZero::new(x);
        veq!(cb(n2.is_some()), w != 0, "NonZero::<Limb>::new({name}).is_some");
        if w != 0 {
            veq!(n2.unwrap().get().0, w, "NonZero::<Limb>::new({name}) value");
        }
    }

    // ---- selection
    let r = |x: &Limb| x.0;
    select_all("Limb", &a, &b, &r)?;
    select_all("Wrapping<Limb>", &Wrapping(a), &Wrapping(b), &|x: &Wrapping<Limb>| x.0 .0)?;
    negate_all("Wrapping<Limb>", &Wrapping(a), &wa.wrapping_neg(), &|x: &Wrapping<Limb>| x.0 .0)?;
    std_ord("Wrapping<Limb>", &Wrapping(a), &Wrapping(b), want)?;
    ct_eqne("Wrapping<Limb>", &Wrapping(a), &Wrapping(b), wa == wb)?;

    // Checked<Limb>: some(a), some(b), none
    let none = Checked::<Limb>(CtOption::new(a, Choice::from(0)));
    let rc = |x: &Checked<Limb>| Option::<Limb>::from(x.0).map(|l| l.0);
    select_all("Checked<Limb>", &Checked::new(a), &Checked::new(b), &rc)?;
    select_all("Checked<Limb> (some, none)", &Checked::new(b), &none, &rc)?;
    ct_eqne("Checked<Limb>", &Checked::new(a), &Checked::new(b), wa == wb)?;
    ct_eqne("Checked<Limb> (some vs none)", &Checked::new(a), &none, false)?;
    ct_eqne("Checked<Limb> (none vs none)", &none, &Checked::<Limb>(CtOption::new(b, Choice::from(0))), true)?;

    // NonZero<Limb> (derived Eq / Ord / Hash, ct_eq, select) on the operands forced non-zero
    let (na, nb) = (wa | (wa == 0) as u64, wb | (wb == 0) as u64);
    let (za, zb) = (NonZero::new(Limb(na)).unwrap(), NonZero::new(Limb(nb)).unwrap());
    let wantz = na.cmp(&nb);
    std_ord("NonZero<Limb>", &za, &zb, wantz)?;
    ct_eqne("NonZero<Limb>", &za, &zb, na == nb)?;
    hash_coherent("NonZero<Limb>", &za, &zb, na == nb)?;
    select_all("NonZero<Limb>", &za, &zb, &|x: &NonZero<Limb>| x.get().0)?;

    // ---- ConstChoice <-> Choice for both choice values
    for ch in 0..=1u8 {
        let cc = ConstChoice::from(Choice::from(ch));
        veq!(bool::from(cc), ch == 1, "bool::from(ConstChoice::from(Choice({ch})))");
        veq!(Choice::from(cc).unwrap_u8(), ch, "Choice::from(ConstChoice::from(Choice({ch})))");
        veq!(cc == ConstChoice::TRUE, ch == 1, "ConstChoice::from(Choice({ch})) == TRUE");
        veq!(cc == ConstChoice::FALSE, ch == 0, "ConstChoice::from(Choice({ch})) == FALSE");
    }
    Ok(())
}
