//! `BoxedUint` with runtime precisions 1..=12 limbs, equal and different.
//!
//! Split into four sub-checks over the same generator so that the two known defects (F-06a hash,
//! F-06b cmp_vartime) cannot shadow the other assertions of a case.

use crate::common::*;
use crate::pairs;
use crypto_bigint::{BoxedUint, Checked, Integer, Limb, NonZero, Odd, Wrapping, Zero};
use num_traits::{One as _, Zero as _};
use std::cmp::Ordering;
use std::hash::Hash;
use subtle::{Choice, CtOption};
use vmodel::*;

pub const MAX_LIMBS: usize = 12;

struct BoxedCase {
    al: Limbs,
    bl: Limbs,
    want: Ordering,
}

fn setup(t: &mut Tape, c: &mut Case, equal_precision_only: bool) -> BoxedCase {
    let p = if equal_precision_only {
        let n = t.usize_in(1, MAX_LIMBS);
        pairs::pair(t, n)
    } else {
        pairs::boxed_pair(t, MAX_LIMBS)
    };
    c.limbs("a", &p.a);
    c.limbs("b", &p.b);
    pairs::label_pair(c, &p);
    let want = big(&p.a).cmp(&big(&p.b));
    if p.a.len() != p.b.len() {
        c.nontrivial(true);
        c.label(if want == Ordering::Equal { "boxed: different precision, equal value" } else { "boxed: different precision, different value" });
        let s = p.a.len().min(p.b.len());
        if want != Ordering::Equal && p.a[..s] == p.b[..s] {
            c.label("boxed: different precision, equal over the common limbs only");
        }
    } else {
        c.nontrivial(pairs::nontrivial_same(&p.a, &p.b));
    }
    BoxedCase { al: p.a, bl: p.b, want }
}

/// Order / equality in every form + unary predicates, mixed precisions allowed.
pub fn boxed_order_case(t: &mut Tape, c: &mut Case) -> CaseResult {
    let bc = setup(t, c, false);
    let (al, bl_, want) = (&bc.al, &bc.bl, bc.want);
    let eq = want == Ordering::Equal;
    let (a, b) = (boxed(al), boxed(bl_));
    let ty = "BoxedUint";

    guard(|| full_order(ty, &a, &b, want)).map_err(|m| Fail::new(format!("BoxedUint comparison panicked ({}x{} limbs): {m}", al.len(), bl_.len())))??;

    for (name, x, l) in [("a", &a, al), ("b", &b, bl_)] {
        let v = big(l);
        let (z, one, odd) = (v.is_zero(), v.is_one(), l[0] & 1 == 1);
        veq!(cb(x.is_zero()), z, "BoxedUint::is_zero({name})");
        veq!(cb(x.is_nonzero()), !z, "BoxedUint::is_nonzero({name})");
        veq!(cb(x.is_one()), one, "BoxedUint::is_one({name})");
        veq!(cb(Zero::is_zero(x)), z, "Zero::is_zero(BoxedUint {name})");
        veq!(num_traits::Zero::is_zero(x), z, "num_traits::Zero::is_zero(BoxedUint {name})");
        veq!(num_traits::One::is_one(x), one, "num_traits::One::is_one(BoxedUint {name})");
        veq!(cb(Integer::is_odd(x)), odd, "Integer::is_odd(BoxedUint {name})");
        veq!(cb(Integer::is_even(x)), !odd, "Integer::is_even(BoxedUint {name})");
        // against the succinct constants (1 limb) and same-precision constants
        veq!(*x == BoxedUint::zero(), z, "BoxedUint {name} == zero()");
        veq!(*x == BoxedUint::one(), one, "BoxedUint {name} == one()");
        veq!(cb(subtle::ConstantTimeEq::ct_eq(x, &BoxedUint::zero())), z, "BoxedUint {name}.ct_eq(zero())");
        veq!(*x == BoxedUint::zero_with_precision(x.bits_precision()), z, "BoxedUint {name} == zero_with_precision");
        veq!(*x == BoxedUint::one_with_precision(x.bits_precision()), one, "BoxedUint {name} == one_with_precision");
        veq!(x.cmp(&BoxedUint::zero()), if z { Ordering::Equal } else { Ordering::Greater }, "BoxedUint {name}.cmp(zero())");
        veq!(x.cmp(&BoxedUint::one()), v.cmp(&num_bigint::BigUint::one()), "BoxedUint {name}.cmp(one())");
        veq!(
            x.cmp(&BoxedUint::max(x.bits_precision())),
            if l.iter().all(|&w| w == u64::MAX) { Ordering::Equal } else { Ordering::Less },
            "BoxedUint {name}.cmp(max(precision))"
        );
        // option-like
        let od = x.to_odd();
        veq!(cb(od.is_some()), odd, "BoxedUint::to_odd({name}).is_some");
        veq!(Option::<Odd<BoxedUint>>::from(od).map(|v| bl(v.as_ref())), if odd { Some(l.clone()) } else { None }, "Option::from(BoxedUint::to_odd({name}))");
        let o2 = Odd::new(x.clone());
        veq!(cb(o2.is_some()), odd, "Odd::<BoxedUint>::new({name}).is_some");
        let n2 = NonZero::new(x.clone());
        veq!(cb(n2.is_some()), !z, "NonZero::<BoxedUint>::new({name}).is_some");
        veq!(Option::<NonZero<BoxedUint>>::from(n2).map(|v| bl(v.as_ref())), if z { None } else { Some(l.clone()) }, "NonZero::<BoxedUint>::new({name}) value");
    }

    // wrappers: derived order / equality go through the inner BoxedUint
    let (wa, wb) = (Wrapping(a.clone()), Wrapping(b.clone()));
    guard(|| std_ord("Wrapping<BoxedUint>", &wa, &wb, want)).map_err(|m| Fail::new(format!("Wrapping<BoxedUint> comparison panicked: {m}")))??;
    ct_eqne("Wrapping<BoxedUint>", &wa, &wb, eq)?;
    veq!(cb(Zero::is_zero(&wa)), al.iter().all(|&w| w == 0), "Zero::is_zero(Wrapping<BoxedUint>)");
    let (ca, cb_) = (Checked::new(a.clone()), Checked::new(b.clone()));
    let none = Checked::<BoxedUint>(CtOption::new(a.clone(), Choice::from(0)));
    ct_eqne("Checked<BoxedUint>", &ca, &cb_, eq)?;
    ct_eqne("Checked<BoxedUint> (some vs none)", &cb_, &none, false)?;

    let (mut ao, mut bo) = (al.clone(), bl_.clone());
    ao[0] |= 1;
    bo[0] |= 1;
    let wo = big(&ao).cmp(&big(&bo));
    let eo = wo == Ordering::Equal;
    let (oa, ob) = (Odd::new(boxed(&ao)).unwrap(), Odd::new(boxed(&bo)).unwrap());
    let (za, zb) = (NonZero::new(boxed(&ao)).unwrap(), NonZero::new(boxed(&bo)).unwrap());
    guard(|| std_ord("Odd<BoxedUint>", &oa, &ob, wo)).map_err(|m| Fail::new(format!("Odd<BoxedUint> comparison panicked: {m}")))??;
    ct_eqne("Odd<BoxedUint>", &oa, &ob, eo)?;
    guard(|| std_ord("NonZero<BoxedUint>", &za, &zb, wo)).map_err(|m| Fail::new(format!("NonZero<BoxedUint> comparison panicked: {m}")))??;
    ct_eqne("NonZero<BoxedUint>", &za, &zb, eo)?;
    mixed_ord("BoxedUint vs Odd<BoxedUint>", &a, &ob, big(al).cmp(&big(&bo)))?;
    mixed_ord("BoxedUint vs Odd<BoxedUint> (b, odd a)", &b, &oa, big(bl_).cmp(&big(&ao)))?;
    Ok(())
}

/// `BoxedUint::cmp_vartime` ("Returns the Ordering between self and rhs in variable time" — no
/// precondition on the precisions is documented, and every other comparison zero-pads).
pub fn boxed_cmp_vartime_case(t: &mut Tape, c: &mut Case) -> CaseResult {
    let bc = setup(t, c, false);
    let (al, bl_) = (&bc.al, &bc.bl);
    let (a, b) = (boxed(al), boxed(bl_));
    for (name, x, y, xl, yl, want) in [("a, b", &a, &b, al, bl_, bc.want), ("b, a", &b, &a, bl_, al, bc.want.reverse())] {
        let got = guard(|| x.cmp_vartime(y));
        if got.as_ref().ok() == Some(&want) {
            continue;
        }
        let differ = xl.len() != yl.len();
        let msg = format!("BoxedUint::cmp_vartime({name}) with {}x{} limbs: got {:?}, want {:?}", xl.len(), yl.len(), got, want);
        // F-06b exact signature: precisions differ AND
        //  - dbg: the debug_assert_eq on the limb counts fires, or
        //  - rel, self shorter: the result is the order of self against rhs truncated to self's limbs, or
        //  - rel, self longer: index out of bounds on rhs' limbs.
        let known = differ
            && match &got {
                Err(m) => {
                    if PROFILE == "dbg" {
                        m.contains("left == right") && m.contains("boxed/cmp.rs")
                    } else {
                        xl.len() > yl.len() && m.contains("index out of bounds")
                    }
                }
                Ok(o) => PROFILE == "rel" && xl.len() < yl.len() && *o == big(xl).cmp(&big(&yl[..xl.len()])),
            };
        if known {
            return Err(Fail::known("F-06b", msg));
        }
        vfail!("{msg}");
    }
    veq!(a.cmp_vartime(&a), Ordering::Equal, "BoxedUint::cmp_vartime(a, a)");
    Ok(())
}

fn derived_limb_hash(l: &[u64]) -> u64 {
    // what `#[derive(Hash)]` on `struct BoxedUint { limbs: Box<[Limb]> }` computes: the slice hash
    // (length prefix + every limb), i.e. precision-dependent
    let v: Vec<Limb> = l.iter().map(|&w| Limb(w)).collect();
    hash_of(&v.into_boxed_slice())
}

fn boxed_hash_one<T: Hash>(ty: &str, a: &T, b: &T, al: &[u64], bl_: &[u64], eq: bool) -> CaseResult {
    let (ha, hb) = (hash_of(a), hash_of(b));
    veq!(hash_of(a), ha, "{ty}: hashing a twice gives different results");
    if eq && ha != hb {
        let msg = format!("{ty}: a == b ({} vs {} limbs, value {}) but hash(a) = {ha:#x} != hash(b) = {hb:#x}", al.len(), bl_.len(), hex(al));
        // F-06a exact signature: equal values of different precision whose hashes are the derived
        // raw-limb-slice hashes
        if al.len() != bl_.len() && ha == derived_limb_hash(al) && hb == derived_limb_hash(bl_) {
            return Err(Fail::known("F-06a", msg));
        }
        vfail!("{msg}");
    }
    Ok(())
}

/// `a == b  =>  hash(a) == hash(b)` for `BoxedUint` and the wrappers that derive `Hash` over it.
pub fn boxed_hash_case(t: &mut Tape, c: &mut Case) -> CaseResult {
    let bc = setup(t, c, false);
    let (al, bl_) = (&bc.al, &bc.bl);
    let eq = bc.want == Ordering::Equal;
    let (a, b) = (boxed(al), boxed(bl_));
    // the implementation's own verdict must be the oracle's (otherwise the implication is vacuous)
    veq!(a == b, eq, "BoxedUint a == b");
    let mut first_known: Option<Fail> = None;
    let mut run = |r: CaseResult| -> CaseResult {
        match r {
            Err(f) if f.known.is_some() => {
                if first_known.is_none() {
                    first_known = Some(f);
                }
                Ok(())
            }
            other => other,
        }
    };
    run(boxed_hash_one("BoxedUint", &a, &b, al, bl_, eq))?;
    let (mut ao, mut bo) = (al.clone(), bl_.clone());
    ao[0] |= 1;
    bo[0] |= 1;
    let eo = big(&ao) == big(&bo);
    let (oa, ob) = (Odd::new(boxed(&ao)).unwrap(), Odd::new(boxed(&bo)).unwrap());
    let (za, zb) = (NonZero::new(boxed(&ao)).unwrap(), NonZero::new(boxed(&bo)).unwrap());
    veq!(oa == ob, eo, "Odd<BoxedUint> a == b");
    veq!(za == zb, eo, "NonZero<BoxedUint> a == b");
    run(boxed_hash_one("Odd<BoxedUint>", &oa, &ob, &ao, &bo, eo))?;
    run(boxed_hash_one("NonZero<BoxedUint>", &za, &zb, &ao, &bo, eo))?;
    match first_known {
        Some(f) => Err(f),
        None => Ok(()),
    }
}

/// Selection family: documented for equal precisions (`debug_assert_eq!` on `bits_precision`).
pub fn boxed_select_case(t: &mut Tape, c: &mut Case) -> CaseResult {
    let bc = setup(t, c, true);
    let (al, bl_) = (&bc.al, &bc.bl);
    let (a, b) = (boxed(al), boxed(bl_));
    let r = |x: &BoxedUint| bl(x);
    ct_select_all("BoxedUint", &a, &b, &r)?;
    ct_select_all("BoxedUint (b, a)", &b, &a, &r)?;
    // selected values keep the precision
    veq!(<BoxedUint as crypto_bigint::ConstantTimeSelect>::ct_select(&a, &b, Choice::from(1)).nlimbs(), al.len(), "ct_select result precision");
    negate_all("BoxedUint", &a, &neg_limbs(al), &r)?;
    negate_all("BoxedUint (b)", &b, &neg_limbs(bl_), &r)?;
    // the order of the selected values is the order of the chosen operands
    let s0 = <BoxedUint as crypto_bigint::ConstantTimeSelect>::ct_select(&a, &b, Choice::from(0));
    let s1 = <BoxedUint as crypto_bigint::ConstantTimeSelect>::ct_select(&a, &b, Choice::from(1));
    veq!(s0.cmp(&s1), bc.want, "ct_select(a,b,0).cmp(ct_select(a,b,1))");
    Ok(())
}
