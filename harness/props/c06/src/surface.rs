//! API-surface audit additions (table: /verif/audit/C.md): comparison / equality / predicate /
//! selection impls and instantiations that the other C06 modules reach only through a sibling.
//!
//! * `surface/const-monty/*`: `ConstMontyForm<MOD, N>`: `ConditionallySelectable` (+ the blanket
//!   `ConstantTimeSelect`), `ConstantTimeEq`, derived `==`, `num_traits::Zero::is_zero`,
//!   `crypto_bigint::Zero::is_zero`, `subtle::ConditionallyNegatable` (the other sub-checks cover
//!   `MontyForm` / `MontyParams` only). Forms are built with `from_montgomery` from reduced residues
//!   (plain constructor, like `monty/select+eq`), so "equal" is equality of the residues and the
//!   selected form must be bit-identical to the chosen one.
//! * `surface/boxed-monty/eq`: `BoxedMontyParams == / !=` and `BoxedMontyForm == / !=`, `is_zero`,
//!   `is_nonzero` ("If zero, returns `Choice(1)`. Otherwise, returns `Choice(0)`"): equality agrees
//!   with (modulus, residue) equality, equal precisions only.
//! * `surface/const-ct-option/wide-expect/*`: `ConstCtOption<(Uint, Uint)>::expect` ("Returns the
//!   contained value ... Panics if the value is none with a custom panic message provided by `msg`")
//!   plus the generic `unwrap` / `is_some` / `is_none` / `Option::from` / `CtOption::from` on that
//!   instantiation, on a some and a none produced by the double-width shifts.
//! * `surface/wrappers/zero-one+checked-none`: `Zero::is_zero`, `num_traits::Zero::is_zero`,
//!   `num_traits::One::is_one` on `Wrapping<Limb>`, `Wrapping<Int>`, `Wrapping<BoxedUint>` (the other
//!   sub-checks instantiate the generic `Wrapping<T>` impls with `Uint` only, plus crypto-bigint's
//!   `Zero` for `Wrapping<BoxedUint>`), and `Checked<Int>` / `Checked<BoxedUint>` none-vs-none
//!   `ct_eq` (subtle: "Two `CtOption<T>`s are equal if they are both `Some` and their values are
//!   equal, or both `None`").
//! * `surface/widths/*`: the existing `uint` / `int` / `monty` / `reciprocal` case functions at limb
//!   counts outside the quick list (Uint 5 and 7, Int 3 and 5, Monty 3, Reciprocal dividend 3).

use crate::common::*;
use crate::pairs;
use crypto_bigint::modular::{BoxedMontyForm, BoxedMontyParams, ConstMontyForm, ConstMontyParams};
use crypto_bigint::{impl_modulus, BoxedUint, Checked, ConstCtOption, Int, Limb, Odd, Uint, Wrapping, Zero, U192, U256, U64};
use num_bigint::BigUint;
use num_traits::{One as _, Zero as _};
use std::fmt::Debug;
use subtle::{Choice, ConditionallyNegatable, CtOption};
use vmodel::*;

// one-limb, three-limb (not a power of two) and four-limb compile-time moduli
impl_modulus!(S64, U64, "ffffffffffffffc5");
impl_modulus!(S64Three, U64, "0000000000000003");
impl_modulus!(S192, U192, "fffffffffffffffffffffffffffffffeffffffffffffffff");
impl_modulus!(S192ZeroHigh, U192, "00000000000000000000000000000001000000000000000d");
impl_modulus!(S256, U256, "ffffffff00000000ffffffffffffffffbce6faada7179e84f3b9cac2fc632551");

/// A second reduced residue related to `x1` (equal / one limb changed and reduced / fresh).
fn second_residue(t: &mut Tape, x1: &[u64], m: &BigUint) -> (Limbs, &'static str) {
    let n = x1.len();
    match t.weighted(&[3, 3, 3, 5]) {
        // (reduced again: the second modulus may be smaller than the first one, e.g. 1)
        0 => (limbs_exact(&(big(x1) % m), n), "surface: equal residues (reduced modulo the second modulus)"),
        1 => {
            let mut v = x1.to_vec();
            v[n - 1] = pairs::diff_word(t, v[n - 1]);
            (limbs_exact(&(big(&v) % m), n), "surface: residue with the highest limb changed (reduced)")
        }
        2 => {
            let mut v = x1.to_vec();
            v[0] = pairs::diff_word(t, v[0]);
            (limbs_exact(&(big(&v) % m), n), "surface: residue with the lowest limb changed (reduced)")
        }
        _ => (limbs_exact(&gen::residue(t, m), n), "surface: independent residue"),
    }
}

fn const_monty_case<M, const N: usize>(t: &mut Tape, c: &mut Case) -> CaseResult
where
    M: ConstMontyParams<N> + Copy + PartialEq + Debug,
{
    let ml = ul(&M::MODULUS.get());
    let bm = big(&ml);
    let x1 = limbs_exact(&gen::residue(t, &bm), N);
    let (x2, class) = second_residue(t, &x1, &bm);
    c.limbs("x1", &x1);
    c.limbs("x2", &x2);
    c.label(class);
    let same = x1 == x2;
    // the modulus is shared by construction: the pair rule of the property on the residues
    c.nontrivial(pairs::nontrivial_same(&x1, &x2));
    let f1 = ConstMontyForm::<M, N>::from_montgomery(uint::<N>(&x1));
    let f2 = ConstMontyForm::<M, N>::from_montgomery(uint::<N>(&x2));
    let ty = "ConstMontyForm";
    std_eq(ty, &f1, &f2, same)?;
    ct_eqne(ty, &f1, &f2, same)?;
    let rf = |f: &ConstMontyForm<M, N>| ul(f.as_montgomery());
    select_all(ty, &f1, &f2, &rf)?;
    veq!(ul(&f1.to_montgomery()), x1, "{ty}::to_montgomery");
    for (name, f, x) in [("x1", &f1, &x1), ("x2", &f2, &x2)] {
        let z = is_zero(x);
        veq!(num_traits::Zero::is_zero(f), z, "num_traits::Zero::is_zero({ty} {name})");
        veq!(cb(Zero::is_zero(f)), z, "Zero::is_zero({ty} {name})");
        veq!(*f == ConstMontyForm::<M, N>::ZERO, z, "{ty} {name} == ZERO");
    }
    // conditional negate of a form created from an integer: retrieve gives x or (m - x) mod m
    let g = total("ConstMontyForm::new", || ConstMontyForm::<M, N>::new(&uint::<N>(&x1)))?;
    let mut g0 = g;
    g0.conditional_negate(Choice::from(0));
    veq!(rf(&g0), rf(&g), "{ty}::conditional_negate(0) changed the form");
    let mut g1 = g;
    g1.conditional_negate(Choice::from(1));
    let neg = (&bm - big(&x1)) % &bm;
    veq!(ul(&g1.retrieve()), limbs_exact(&neg, N), "{ty}::conditional_negate(1).retrieve()");
    veq!(ul(&g0.retrieve()), x1, "{ty}::conditional_negate(0).retrieve()");
    Ok(())
}

fn boxed_monty_case(t: &mut Tape, c: &mut Case) -> CaseResult {
    let n = t.pick(&[1usize, 2, 3, 3, 4, 5]);
    let (m1, cl1) = gen::odd_modulus(t, n);
    let m2 = if t.bool() { m1.clone() } else { gen::odd_modulus(t, n).0 };
    let (bm1, bm2) = (big(&m1), big(&m2));
    let x1 = limbs_exact(&gen::residue(t, &bm1), n);
    let (x2, class) = second_residue(t, &x1, &bm2);
    c.limbs("m1", &m1);
    c.limbs("m2", &m2);
    c.limbs("x1", &x1);
    c.limbs("x2", &x2);
    c.label(cl1);
    c.label(class);
    let peq = m1 == m2;
    c.label(if peq { "monty: same modulus" } else { "monty: different moduli" });
    let same_val = x1 == x2;
    // rule of the Monty sub-checks
    c.nontrivial(peq || same_val || x1[n - 1] == x2[n - 1]);
    let odd = |m: &[u64]| Option::<Odd<BoxedUint>>::from(Odd::new(boxed(m))).expect("harness: modulus is odd");
    let p1 = total("BoxedMontyParams::new_vartime", || BoxedMontyParams::new_vartime(odd(&m1)))?;
    let p2 = total("BoxedMontyParams::new_vartime", || BoxedMontyParams::new_vartime(odd(&m2)))?;
    std_eq("BoxedMontyParams", &p1, &p2, peq)?;
    std_eq("BoxedMontyParams (clone)", &p1, &p1.clone(), true)?;
    veq!(bl(&p1.modulus().clone().get()), m1, "BoxedMontyParams::modulus");
    let f1 = total("BoxedMontyForm::new", || BoxedMontyForm::new(boxed(&x1), p1.clone()))?;
    let f2 = total("BoxedMontyForm::new", || BoxedMontyForm::new(boxed(&x2), p2.clone()))?;
    std_eq("BoxedMontyForm", &f1, &f2, peq && same_val)?;
    // same parameters, second residue reduced modulo the first modulus
    let x3 = limbs_exact(&(big(&x2) % &bm1), n);
    let f3 = total("BoxedMontyForm::new", || BoxedMontyForm::new(boxed(&x3), p1.clone()))?;
    std_eq("BoxedMontyForm (same params)", &f1, &f3, x1 == x3)?;
    for (name, f, x) in [("x1", &f1, &x1), ("x2", &f2, &x2), ("x3", &f3, &x3)] {
        let z = is_zero(x);
        veq!(cb(f.is_zero()), z, "BoxedMontyForm::is_zero({name})");
        veq!(cb(f.is_nonzero()), !z, "BoxedMontyForm::is_nonzero({name})");
        veq!(bl(&f.retrieve()), *x, "BoxedMontyForm::retrieve({name})");
    }
    veq!(*f1.params() == p1, true, "BoxedMontyForm::params() == the parameters it was built with");
    Ok(())
}

/// `ConstCtOption<(Uint<N>, Uint<N>)>`: a some from a double-width shift by s < BITS ("Returns `None`
/// if `shift >= Self::BITS`" — so s < BITS is some under every reading, see c05) and a none from a
/// shift >= 2*BITS.
fn wide_option_case<const N: usize>(t: &mut Tape, c: &mut Case) -> CaseResult {
    let bits = 64 * N as u64;
    let (lo, hi) = (gen::limbs(t, N), gen::limbs(t, N));
    let s = match t.weighted(&[2, 2, 2, 2]) {
        0 => 0,
        1 => bits - 1,
        2 => 64 * t.below(N as u64),
        _ => t.below(bits),
    };
    let left = t.bool();
    let far = 2 * bits + t.pick(&[0u64, 1, 63, 64, (u32::MAX as u64) - 2 * bits]);
    c.limbs("lo", &lo);
    c.limbs("hi", &hi);
    c.num("s", s);
    c.num("left", left as u64);
    c.num("far", far);
    c.nontrivial(!is_zero(&lo) || !is_zero(&hi));
    let (l, h) = (uint::<N>(&lo), uint::<N>(&hi));
    let mk = |sh: u64| -> ConstCtOption<(Uint<N>, Uint<N>)> {
        if left {
            Uint::overflowing_shl_vartime_wide((l, h), sh as u32)
        } else {
            Uint::overflowing_shr_vartime_wide((l, h), sh as u32)
        }
    };
    let some = total("overflowing_sh*_vartime_wide (s < BITS)", || mk(s))?;
    let none = total("overflowing_sh*_vartime_wide (s >= 2*BITS)", || mk(far))?;
    let wide = big(&[lo.clone(), hi.clone()].concat());
    let want = if left { limbs_of(&(&wide << s), 2 * N) } else { limbs_of(&(&wide >> s), 2 * N) };
    let pair = |p: &(Uint<N>, Uint<N>)| [ul(&p.0), ul(&p.1)].concat();
    let ty = "ConstCtOption<(Uint, Uint)>";
    veq!(bool::from(some.is_some()), true, "{ty}: is_some of a shift by {s} < BITS");
    veq!(bool::from(some.is_none()), false, "{ty}: is_none of a shift by {s} < BITS");
    veq!(bool::from(none.is_some()), false, "{ty}: is_some of a shift by {far} >= 2*BITS");
    veq!(bool::from(none.is_none()), true, "{ty}: is_none of a shift by {far} >= 2*BITS");
    veq!(pair(&total("expect on some", || some.clone().expect("c06-wide"))?), want, "{ty}::expect on some");
    veq!(pair(&total("unwrap on some", || some.clone().unwrap())?), want, "{ty}::unwrap on some");
    veq!(Option::<(Uint<N>, Uint<N>)>::from(some.clone()).map(|p| pair(&p)), Some(want.clone()), "Option::from({ty} some)");
    veq!(Option::<(Uint<N>, Uint<N>)>::from(none.clone()).map(|p| pair(&p)), None, "Option::from({ty} none)");
    let ct: CtOption<(Uint<N>, Uint<N>)> = some.clone().into();
    veq!(cb(ct.is_some()), true, "CtOption::from({ty} some).is_some");
    let ct: CtOption<(Uint<N>, Uint<N>)> = none.clone().into();
    veq!(cb(ct.is_some()), false, "CtOption::from({ty} none).is_some");
    let m = must_panic("ConstCtOption<(Uint, Uint)>::expect on none", || none.clone().expect("c06-wide-none"))?;
    vensure!(m.contains("c06-wide-none"), "{ty}::expect on none: panic message `{m}` lacks the custom text");
    must_panic("ConstCtOption<(Uint, Uint)>::unwrap on none", || none.clone().unwrap())?;
    Ok(())
}

fn wrappers_case<const N: usize>(t: &mut Tape, c: &mut Case) -> CaseResult {
    let p = pairs::pair(t, N);
    let k = t.usize_in(1, N);
    c.limbs("a", &p.a);
    c.limbs("b", &p.b);
    c.num("boxed limbs", k as u64);
    pairs::label_pair(c, &p);
    c.nontrivial(pairs::nontrivial_same(&p.a, &p.b));
    for (name, l) in [("a", &p.a), ("b", &p.b)] {
        // Wrapping<Limb> on the lowest limb
        let w = l[0];
        let wl = Wrapping(Limb(w));
        veq!(cb(Zero::is_zero(&wl)), w == 0, "Zero::is_zero(Wrapping<Limb> {name})");
        veq!(num_traits::Zero::is_zero(&wl), w == 0, "num_traits::Zero::is_zero(Wrapping<Limb> {name})");
        veq!(num_traits::One::is_one(&wl), w == 1, "num_traits::One::is_one(Wrapping<Limb> {name})");
        // Wrapping<Int<N>>
        let v = sbig(l);
        let wi = Wrapping(int::<N>(l));
        veq!(cb(Zero::is_zero(&wi)), v.is_zero(), "Zero::is_zero(Wrapping<Int> {name})");
        veq!(num_traits::Zero::is_zero(&wi), v.is_zero(), "num_traits::Zero::is_zero(Wrapping<Int> {name})");
        // Wrapping<BoxedUint> over the k low limbs
        let u = big(&l[..k]);
        let wb = Wrapping(boxed(&l[..k]));
        veq!(cb(Zero::is_zero(&wb)), u.is_zero(), "Zero::is_zero(Wrapping<BoxedUint> {name})");
        veq!(num_traits::Zero::is_zero(&wb), u.is_zero(), "num_traits::Zero::is_zero(Wrapping<BoxedUint> {name})");
        veq!(num_traits::One::is_one(&wb), u.is_one(), "num_traits::One::is_one(Wrapping<BoxedUint> {name})");
    }
    // Checked<T>: two nones carrying different values are equal; none != some
    let (ia, ib) = (int::<N>(&p.a), int::<N>(&p.b));
    let (na, nb) = (Checked::<Int<N>>(CtOption::new(ia, Choice::from(0))), Checked::<Int<N>>(CtOption::new(ib, Choice::from(0))));
    ct_eqne("Checked<Int> (none vs none)", &na, &nb, true)?;
    ct_eqne("Checked<Int> (some vs none)", &Checked::new(ia), &nb, false)?;
    let (ba, bb) = (boxed(&p.a[..k]), boxed(&p.b));
    let (na, nb) = (Checked::<BoxedUint>(CtOption::new(ba.clone(), Choice::from(0))), Checked::<BoxedUint>(CtOption::new(bb.clone(), Choice::from(0))));
    ct_eqne("Checked<BoxedUint> (none vs none)", &na, &nb, true)?;
    ct_eqne("Checked<BoxedUint> (some vs none)", &Checked::new(ba.clone()), &nb, false)?;
    // Checked<BoxedUint> some vs some at different precision: equality of the values (zero padded)
    ct_eqne("Checked<BoxedUint> (some vs some, mixed precision)", &Checked::new(ba), &Checked::new(bb), big(&p.a[..k]) == big(&p.b))?;
    Ok(())
}

// ------------------------------------------------------------------------------------------------
// the PROVIDED methods of `ConstantTimeSelect` ("It also provides generic implementations of
// conditional assignment and conditional swaps"): every type of the crate overrides them, so they run
// only for a downstream type that implements `ct_select` alone — like this one (heap-allocated, not
// `Copy`, which is what the trait exists for).

#[derive(Clone, Debug, PartialEq, Eq)]
struct Share {
    index: crypto_bigint::U128,
    coefficients: Vec<u64>,
}

impl crypto_bigint::ConstantTimeSelect for Share {
    fn ct_select(a: &Self, b: &Self, choice: Choice) -> Self {
        use subtle::ConditionallySelectable;
        Share {
            index: crypto_bigint::U128::conditional_select(&a.index, &b.index, choice),
            coefficients: a.coefficients.iter().zip(b.coefficients.iter()).map(|(x, y)| u64::conditional_select(x, y, choice)).collect(),
        }
    }
}

fn provided_methods_case(t: &mut Tape, c: &mut Case) -> CaseResult {
    use crypto_bigint::ConstantTimeSelect;
    let n = t.usize_in(1, 6);
    let p = pairs::pair(t, 2);
    let (ca, cb) = (gen::limbs(t, n), if t.chance(1, 4) { vec![0u64; n] } else { gen::limbs(t, n) });
    let ch = t.bool();
    c.limbs("a.index", &p.a);
    c.limbs("b.index", &p.b);
    c.limbs("a.coefficients", &ca);
    c.limbs("b.coefficients", &cb);
    c.num("choice", ch as u64);
    c.nontrivial(p.a != p.b || ca != cb);
    let a0 = Share { index: uint::<2>(&p.a), coefficients: ca };
    let b0 = Share { index: uint::<2>(&p.b), coefficients: cb };
    let choice = Choice::from(ch as u8);
    // ct_select: "a if choice == Choice(0); b if choice == Choice(1)"
    let sel = Share::ct_select(&a0, &b0, choice);
    veq!(sel, if ch { b0.clone() } else { a0.clone() }, "downstream ct_select");
    // provided ct_assign: "Conditionally assign `other` to `self`, according to `choice`"
    let mut x = a0.clone();
    total("provided ConstantTimeSelect::ct_assign", || x.ct_assign(&b0, choice))?;
    veq!(x, if ch { b0.clone() } else { a0.clone() }, "provided ConstantTimeSelect::ct_assign");
    // provided ct_swap: "Conditionally swap `self` and `other` if `choice == 1`; otherwise, reassign both unto themselves"
    let (mut x, mut y) = (a0.clone(), b0.clone());
    total("provided ConstantTimeSelect::ct_swap", || Share::ct_swap(&mut x, &mut y, choice))?;
    let want = if ch { (b0.clone(), a0.clone()) } else { (a0.clone(), b0.clone()) };
    veq!((x, y), want, "provided ConstantTimeSelect::ct_swap (choice {})", ch as u8);
    Ok(())
}

pub fn subchecks(_ctx: &Ctx) -> Vec<SubCheck> {
    let mut v = vec![];
    v.push(SubCheck::new("surface/ct-select-provided-methods/downstream-type", 20_000, provided_methods_case).tape(48));
    v.push(SubCheck::new("surface/const-monty/U64", 20_000, const_monty_case::<S64, 1>).tape(32));
    v.push(SubCheck::new("surface/const-monty/U64-mod3", 5_000, const_monty_case::<S64Three, 1>).tape(32));
    v.push(SubCheck::new("surface/const-monty/U192", 20_000, const_monty_case::<S192, 3>).tape(48));
    v.push(SubCheck::new("surface/const-monty/U192-zero-high", 10_000, const_monty_case::<S192ZeroHigh, 3>).tape(48));
    v.push(SubCheck::new("surface/const-monty/U256", 20_000, const_monty_case::<S256, 4>).tape(56));
    v.push(SubCheck::new("surface/boxed-monty/eq", 8_000, boxed_monty_case).tape(96));
    v.push(SubCheck::new("surface/const-ct-option/wide-expect/U64", 15_000, wide_option_case::<1>).tape(24));
    v.push(SubCheck::new("surface/const-ct-option/wide-expect/U192", 15_000, wide_option_case::<3>).tape(40));
    v.push(SubCheck::new("surface/wrappers/zero-one+checked-none", 40_000, wrappers_case::<3>).tape(48));
    // limb counts outside the quick list (uint 1,2,3,4,8; int 1,2,4; monty 1,2,4; reciprocal 1,2,4)
    v.push(SubCheck::new("surface/widths/uint/U320", 15_000, crate::fixed::uint_case::<5>).tape(24 + 6 * 5));
    v.push(SubCheck::new("surface/widths/uint/U448", 15_000, crate::fixed::uint_case::<7>).tape(24 + 6 * 7));
    v.push(SubCheck::new("surface/widths/int/I192", 20_000, crate::fixed::int_case::<3>).tape(24 + 6 * 3));
    v.push(SubCheck::new("surface/widths/int/I320", 15_000, crate::fixed::int_case::<5>).tape(24 + 6 * 5));
    v.push(SubCheck::new("surface/widths/monty/select+eq/U192", 4_000, crate::fixed::monty_case::<3>).tape(40 + 10 * 3));
    v.push(SubCheck::new("surface/widths/reciprocal-select/U192", 10_000, crate::extra::reciprocal_case::<3>).tape(24 + 3 * 3));
    v
}
