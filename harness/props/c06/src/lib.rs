//! C06 — comparison, equality, hashing and conditional selection are mutually coherent.
//!
//! Oracle: the `BigUint` / `BigInt` order of the represented integers (limbs cross the bridge through
//! `from_words` / `as_words` only); for selection the bit-exact representation of the chosen operand.
//! One generated pair (a, b) is pushed through every comparison / predicate / hash / select form the
//! type offers, for both choice values.

mod boxed_checks;
mod common;
mod extra;
mod fixed;
mod limb_checks;
mod pairs;
mod surface;

use vmodel::*;

pub fn spec() -> PropSpec {
    PropSpec {
        id: "C06",
        rule: "cases: operand pairs (a, b) from the classes a == b / differ only in the lowest limb / only in the highest limb / only in the sign bit / equal prefix of high limbs + one deciding limb + low limbs ordered the other way round (one-limb types: equal top bits + one deciding bit + lower bits ordered the other way round) / extremes 0,1,MIN,MAX,-1 / related (a+-1, !a, -a, a>>1, 2a) / neighbours across a full borrow chain / zero- and one-like values with one interesting limb / independent edge shapes (K,P,L,R,T,U,Z); boxed pairs additionally with different precisions 1..=12 limbs: zero-padded equal values, equal common limbs with non-zero high limbs in the longer operand, zero-padded and differing inside the common limbs, extremes around the shorter precision's boundary, independent. Every case evaluates all comparison / equality / predicate / hash / select / swap / negate forms of the type for both operand orders and both choice values 0 and 1. non-trivial: a == b, or a != b with a common prefix of >= 1 equal most-significant limb, or (boxed) the precisions differ; for one-limb types (Limb, U64, I64), where no limb prefix can exist, a == b or a != b agreeing in the 8 most significant bits; for the MontyForm/MontyParams sub-checks: the two (modulus, value) operands are equal, share the modulus, or share the highest limb of the value. surface sub-checks (API-surface audit, /verif/audit/C.md): const-monty: two reduced residues of one compile-time modulus (equal / highest or lowest limb changed and reduced / independent), non-trivial by the pair rule on the residues; boxed-monty: (modulus, residue) pairs of equal precision 1..=5 limbs with the Monty rule; const-ct-option/wide-expect: (lo, hi, s < BITS, far >= 2*BITS, direction), non-trivial when (lo, hi) != 0; wrappers: the pair classes at 3 limbs (Limb = lowest limb, BoxedUint = k low limbs of a / all limbs of b) with the pair rule; widths: the uint / int / monty / reciprocal cases at 5, 7 / 3, 5 / 3 / 3 limbs with their own rules. distinct by the operand limbs (+ moduli).",
        assumptions: vec![
            "num-bigint ordering of BigUint/BigInt is correct (independent implementation)".into(),
            "bridging uses from_words / as_words only; NonZero::new / Odd::new / MontyForm::from_montgomery are used as plain constructors".into(),
            "std DefaultHasher (SipHash with fixed keys) is deterministic within a process".into(),
            "BoxedUint ct_select / ct_assign / ct_swap / conditional_negate are exercised with equal precisions only (debug_assert-documented precondition)".into(),
        ],
        subchecks,
    }
}

macro_rules! uints {
    ($v:ident, $q:expr; $($n:literal),*) => { $(
        $v.push(SubCheck::new(format!("uint/U{}", 64 * $n), $q, fixed::uint_case::<$n>).tape(24 + 6 * $n));
    )* };
}
macro_rules! ints {
    ($v:ident, $q:expr; $($n:literal),*) => { $(
        $v.push(SubCheck::new(format!("int/I{}", 64 * $n), $q, fixed::int_case::<$n>).tape(24 + 6 * $n));
    )* };
}
macro_rules! montys {
    ($v:ident, $q:expr; $($n:literal),*) => { $(
        $v.push(SubCheck::new(format!("monty/select+eq/U{}", 64 * $n), $q, fixed::monty_case::<$n>).tape(40 + 10 * $n));
    )* };
}

fn subchecks(ctx: &Ctx) -> Vec<SubCheck> {
    let mut v = vec![];
    v.push(SubCheck::new("limb", 150_000, limb_checks::limb_case).tape(24));
    uints!(v, 60_000; 1, 2, 3, 4, 8);
    ints!(v, 60_000; 1, 2, 4);
    montys!(v, 8_000; 1, 2, 4);
    if ctx.thorough() {
        uints!(v, 20_000; 5, 6, 7, 12, 16, 32);
        ints!(v, 20_000; 3, 8, 16);
    }
    v.push(SubCheck::new("boxed/order+predicates/1..=12", 120_000, boxed_checks::boxed_order_case).tape(120));
    v.push(SubCheck::new("boxed/cmp_vartime/1..=12", 120_000, boxed_checks::boxed_cmp_vartime_case).tape(120));
    v.push(SubCheck::new("boxed/hash/1..=12", 120_000, boxed_checks::boxed_hash_case).tape(120));
    v.push(SubCheck::new("boxed/select+negate/1..=12", 100_000, boxed_checks::boxed_select_case).tape(120));
    v.extend(extra::subchecks(ctx));
    v.extend(surface::subchecks(ctx));
    v
}
