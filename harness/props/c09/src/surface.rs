//! C09 API-surface audit (see /verif/audit/E.md): instantiation families of the exponentiation,
//! multi-exponentiation and linear-combination APIs that no other sub-check of this crate calls.
//!
//!  * limb counts outside the property's list (3, 5, 6, 7 limbs for the base, 3, 5, 7 limbs for the
//!    exponent) for every fixed-width form (`surface/dyn/{pow,pow-allk,multiexp,lincomb}/…`) and
//!    compile-time moduli at 3, 5 and 7 limbs (`surface/const/…`);
//!  * exponentiation with a parameter set / a base that went through constant-time selection
//!    (`MontyParams::conditional_select`, `ConstantTimeSelect::ct_select`, `conditional_assign`,
//!    `MontyForm::conditional_select`) against those of a decoy modulus
//!    (`surface/dyn/pow-through-selection/…`; `exponent_bits == 0` hands out the selected `one`);
//!  * arrays longer than the 1..=5 terms instantiated elsewhere (`[_; 7]`, `surface/dyn/multiexp7/…`);
//!  * linear combination over terms that carry *equivalent but separately built* parameter sets
//!    ("All terms must be associated with equivalent `MontyParams`": `new` / `new_vartime` / selected
//!    copies; for the boxed form separate `BoxedMontyParams` allocations, a shared `Arc`,
//!    `from_const_params`) — `surface/{dyn,boxed,const}/lincomb-equivalent-params/…`;
//!  * the documented failure behaviour of `lincomb_vartime`: "This method will panic if `products`
//!    is empty." (`MontyForm`, `BoxedMontyForm`, `Monty`) — `surface/panics/lincomb-empty`.

use super::*;
use crypto_bigint::ConstantTimeSelect;
use std::sync::Arc;
use subtle::Choice;

// ------------------------------------------------------------------------------------------------
// compile-time moduli at 3, 5, 7 limbs

pub mod sm {
    use crypto_bigint::{impl_modulus, U192, U320, U448};
    // 4 leading zero bits (lincomb window 16)
    impl_modulus!(S192Lz4, U192, "0b683f69d0a283d5a6336d8f65befd74a9fa98df34b9f2c7");
    impl_modulus!(S320Rand, U320, "e83a148dfe18448aac6e80a860099d0cfdc9763f4a09e1559fdf94cac351d72002750c403c9862ad");
    // 2 leading zero bits (lincomb window 4)
    impl_modulus!(S320Lz2, U320, "3fffffffffffffffffffffffffffffffffffffffffffffffffffffffffffffffffffffffffffffff");
    // 1 leading zero bit (lincomb window 2), 2^447 - 1
    impl_modulus!(
        S448Lz1,
        U448,
        "7fffffffffffffffffffffffffffffffffffffffffffffffffffffffffffffffffffffffffffffffffffffffffffffffffffffffffffffff"
    );
}

// ------------------------------------------------------------------------------------------------
// exponentiation after constant-time selection

fn pow_through_selection<const L: usize, const E: usize>(t: &mut Tape, c: &mut Case) -> CaseResult {
    let (ml, mclass) = gens::modulus(t, L);
    let dlz = gens::pick_lz(t, L);
    let dml = gens::modulus_lz(t, L, dlz);
    let p = gen_pow_case(t, c, ml, Some(mclass), L, E, true);
    c.limbs("decoy modulus", &dml);
    let k = p.k as u32;
    let x = Expect::new(&p.m, opow(&p.base, &p.e, p.k, &p.m), L, p.k == 0);
    let mut v = Verd::default();
    let params = total("MontyParams::new_vartime", || MontyParams::<L>::new_vartime(odd_u::<L>(&p.ml)))?;
    let decoy = total("MontyParams::new_vartime (decoy)", || MontyParams::<L>::new_vartime(odd_u::<L>(&dml)))?;
    let (yes, no) = (Choice::from(1u8), Choice::from(0u8));
    let assigned = {
        let mut q = decoy;
        q.conditional_assign(&params, yes);
        q
    };
    let sel = [
        ("MontyParams::conditional_select(decoy, p, 1)", MontyParams::conditional_select(&decoy, &params, yes)),
        ("MontyParams::conditional_select(p, decoy, 0)", MontyParams::conditional_select(&params, &decoy, no)),
        ("ConstantTimeSelect::ct_select(decoy, p, 1)", <MontyParams<L> as ConstantTimeSelect>::ct_select(&decoy, &params, yes)),
        ("MontyParams::conditional_assign(decoy <- p, 1)", assigned),
    ];
    let e = uint::<E>(&p.el);
    let bu = u_of::<L>(&p.base);
    for (name, ps) in sel.iter() {
        let f = total("MontyForm::new (selected params)", || MontyForm::new(&bu, *ps))?;
        let r = total("MontyForm::pow_bounded_exp (selected params)", || f.pow_bounded_exp(&e, k))?;
        v.check(&format!("MontyForm::pow_bounded_exp with {name}"), &x, &r.mont(), &r.retr(), false)?;
    }
    // the base itself selected against a value that lives under the decoy parameters
    let f0 = total("MontyForm::new", || MontyForm::new(&bu, params))?;
    let dz = total("MontyForm::new (decoy)", || MontyForm::new(&bu, decoy))?;
    let fsel = [
        ("MontyForm::conditional_select(decoy value, x, 1)", MontyForm::conditional_select(&dz, &f0, yes)),
        ("MontyForm::conditional_select(x, decoy value, 0)", MontyForm::conditional_select(&f0, &dz, no)),
        ("ConstantTimeSelect::ct_select(decoy value, x, 1)", <MontyForm<L> as ConstantTimeSelect>::ct_select(&dz, &f0, yes)),
    ];
    for (name, fs) in fsel.iter() {
        let r = total("MontyForm::pow_bounded_exp (selected base)", || fs.pow_bounded_exp(&e, k))?;
        v.check(&format!("MontyForm::pow_bounded_exp on {name}"), &x, &r.mont(), &r.retr(), false)?;
        let r = total("PowBoundedExp (selected base)", || PowBoundedExp::pow_bounded_exp(fs, &e, k))?;
        v.check(&format!("PowBoundedExp::pow_bounded_exp on {name}"), &x, &r.mont(), &r.retr(), false)?;
        multi_forms::<MontyForm<L>, L, E>(&mut v, name, &x, &[(*fs, e)], k)?;
    }
    v.finish()
}

// ------------------------------------------------------------------------------------------------
// arrays of 7 terms

fn fixed_multi7<const L: usize, const E: usize>(t: &mut Tape, c: &mut Case) -> CaseResult {
    let (ml, mclass) = gens::modulus(t, L);
    let m = big(&ml);
    let mut bases = vec![];
    let mut exps = vec![];
    for _ in 0..7 {
        bases.push(gens::base(t, &m, L, true).0);
        exps.push(gens::exponent(t, E).0);
    }
    let maxlen = exps.iter().map(|e| bit_len(e)).max().unwrap_or(0);
    let kk = gens::pick_k(t, 64 * E as u64, maxlen);
    c.limbs("m", &ml);
    for (b, e) in bases.iter().zip(exps.iter()) {
        c.limbs("base", &limbs_of(b, L));
        c.limbs("exponent", e);
    }
    c.num("exponent_bits", kk);
    c.label(mclass);
    c.label("multi-exp 7 terms");
    label_k(c, kk, 64 * E as u64, maxlen);
    let mut want = BigUint::one() % &m;
    let mut nt = false;
    for (b, e) in bases.iter().zip(exps.iter()) {
        want = want * opow(b, &big(e), kk, &m) % &m;
        nt |= pow_nontrivial(b, &big(e), kk, &m);
    }
    c.nontrivial(nt);
    let k = kk as u32;
    let x = Expect::new(&m, want, L, kk == 0);
    let mut v = Verd::default();
    let params = total("MontyParams::new_vartime", || MontyParams::<L>::new_vartime(odd_u::<L>(&ml)))?;
    let terms: Vec<(MontyForm<L>, Uint<E>)> = bases.iter().zip(exps.iter()).map(|(b, e)| (MontyForm::new(&u_of::<L>(b), params), uint::<E>(e))).collect();
    multi_arr::<MontyForm<L>, L, E, 7>(&mut v, "MontyForm", &x, &terms, k)?;
    let r = total("multi_exponentiate_bounded_exp (slice, 7 terms)", || <MontyForm<L> as MultiExponentiateBoundedExp<Uint<E>, [(MontyForm<L>, Uint<E>)]>>::multi_exponentiate_bounded_exp(&terms, k))?;
    v.check("MontyForm MultiExponentiateBoundedExp<[_]> (7 terms)", &x, &r.mont(), &r.retr(), false)?;
    v.finish()
}

// ------------------------------------------------------------------------------------------------
// lincomb over equivalent parameter sets

fn lincomb_equivalent_fixed<const L: usize, const W: usize>(t: &mut Tape, c: &mut Case) -> CaseResult
where
    Uint<L>: Concat<Output = Uint<W>>,
    Uint<W>: Split<Output = Uint<L>>,
{
    let ml = lincomb_modulus(t, L);
    let lc = gen_lincomb_case(t, c, ml, L);
    let x = Expect::new(&lc.m, lc.want.clone(), L, false);
    let mut v = Verd::default();
    let pa = total("MontyParams::new", || MontyParams::<L>::new(odd_u::<L>(&lc.ml)))?;
    let pb = total("MontyParams::new_vartime", || MontyParams::<L>::new_vartime(odd_u::<L>(&lc.ml)))?;
    let pc = MontyParams::conditional_select(&pa, &pb, Choice::from(1u8));
    let sets = [pa, pb, pc];
    // term i: a under set i mod 3, b under set (i + 1) mod 3; term 0 (whose parameters the
    // implementation reads) rotates with the case
    let rot = t.index(3);
    let forms: Vec<(MontyForm<L>, MontyForm<L>)> = lc
        .terms
        .iter()
        .enumerate()
        .map(|(i, (a, b))| (MontyForm::new(&u_of::<L>(a), sets[(i + rot) % 3]), MontyForm::new(&u_of::<L>(b), sets[(i + rot + 1) % 3])))
        .collect();
    let refs: Vec<(&MontyForm<L>, &MontyForm<L>)> = forms.iter().map(|(a, b)| (a, b)).collect();
    let r = total("MontyForm::lincomb_vartime (equivalent params)", || MontyForm::lincomb_vartime(&refs))?;
    v.check("MontyForm::lincomb_vartime over terms built with new / new_vartime / selected params", &x, &r.mont(), &r.retr(), false)?;
    let r = total("Monty::lincomb_vartime (equivalent params)", || <MontyForm<L> as Monty>::lincomb_vartime(&refs))?;
    v.check("Monty::lincomb_vartime over terms built with new / new_vartime / selected params", &x, &r.mont(), &r.retr(), false)?;
    v.finish()
}

/// boxed: every term with its own `BoxedMontyParams` allocation (alternating constructors), and
/// every term sharing one `Arc`
fn boxed_lincomb_equivalent(v: &mut Verd, x: &Expect, lc: &LinCase, extra: Option<BoxedMontyParams>, tag: &str) -> CaseResult {
    let n = lc.ml.len();
    let pa = total("BoxedMontyParams::new", || BoxedMontyParams::new(odd_b(&lc.ml)))?;
    let pb = total("BoxedMontyParams::new_vartime", || BoxedMontyParams::new_vartime(odd_b(&lc.ml)))?;
    let mut sets = vec![pa, pb];
    if let Some(p) = extra {
        // put the extra set first: term 0's parameters are the ones the implementation reads
        sets.insert(0, p);
    }
    let forms: Vec<(BoxedMontyForm, BoxedMontyForm)> = lc
        .terms
        .iter()
        .enumerate()
        .map(|(i, (a, b))| (BoxedMontyForm::new(b_of(a, n), sets[i % sets.len()].clone()), BoxedMontyForm::new(b_of(b, n), sets[(i + 1) % sets.len()].clone())))
        .collect();
    let refs: Vec<(&BoxedMontyForm, &BoxedMontyForm)> = forms.iter().map(|(a, b)| (a, b)).collect();
    v.boxed(&format!("BoxedMontyForm::lincomb_vartime over separately built params{tag}"), x, || BoxedMontyForm::lincomb_vartime(&refs))?;
    let shared = Arc::new(sets[0].clone());
    let forms: Vec<(BoxedMontyForm, BoxedMontyForm)> =
        lc.terms.iter().map(|(a, b)| (BoxedMontyForm::new_with_arc(b_of(a, n), shared.clone()), BoxedMontyForm::new_with_arc(b_of(b, n), shared.clone()))).collect();
    let refs: Vec<(&BoxedMontyForm, &BoxedMontyForm)> = forms.iter().map(|(a, b)| (a, b)).collect();
    v.boxed(&format!("BoxedMontyForm::lincomb_vartime over new_with_arc terms{tag}"), x, || BoxedMontyForm::lincomb_vartime(&refs))?;
    Ok(())
}

fn lincomb_equivalent_boxed(max: usize) -> impl Fn(&mut Tape, &mut Case) -> CaseResult {
    move |t, c| {
        let n = boxed_len(t, max);
        let ml = lincomb_modulus(t, n);
        let lc = gen_lincomb_case(t, c, ml, n);
        let x = Expect::new(&lc.m, lc.want.clone(), n, false);
        let mut v = Verd::default();
        boxed_lincomb_equivalent(&mut v, &x, &lc, None, "")?;
        v.finish()
    }
}

/// compile-time modulus: the boxed linear combination with `BoxedMontyParams::from_const_params`
/// (its leading-zero count is the macro's constant) next to separately constructed sets
fn lincomb_equivalent_const<MOD: ConstMontyParams<L>, const L: usize>(t: &mut Tape, c: &mut Case) -> CaseResult {
    let ml = ul(MOD::MODULUS.as_ref());
    let lc = gen_lincomb_case(t, c, ml, L);
    let x = Expect::new(&lc.m, lc.want.clone(), L, false);
    let mut v = Verd::default();
    let bp = total("BoxedMontyParams::from_const_params", || BoxedMontyParams::from_const_params::<L, MOD>())?;
    boxed_lincomb_equivalent(&mut v, &x, &lc, Some(bp), " (from_const_params first)")?;
    // runtime form: from_const_params next to new_vartime
    let dp = MontyParams::<L>::from_const_params::<MOD>();
    let rp = total("MontyParams::new_vartime", || MontyParams::<L>::new_vartime(odd_u::<L>(&lc.ml)))?;
    let forms: Vec<(MontyForm<L>, MontyForm<L>)> = lc
        .terms
        .iter()
        .enumerate()
        .map(|(i, (a, b))| {
            let (p, q) = if i % 2 == 0 { (dp, rp) } else { (rp, dp) };
            (MontyForm::new(&u_of::<L>(a), p), MontyForm::new(&u_of::<L>(b), q))
        })
        .collect();
    let refs: Vec<(&MontyForm<L>, &MontyForm<L>)> = forms.iter().map(|(a, b)| (a, b)).collect();
    let r = total("MontyForm::lincomb_vartime (from_const_params / new_vartime terms)", || MontyForm::lincomb_vartime(&refs))?;
    v.check("MontyForm::lincomb_vartime over from_const_params / new_vartime terms", &x, &r.mont(), &r.retr(), false)?;
    v.finish()
}

// ------------------------------------------------------------------------------------------------
// documented panic: empty products

/// `MontyForm::lincomb_vartime`, `BoxedMontyForm::lincomb_vartime`, `Monty::lincomb_vartime`:
/// "This method will panic if `products` is empty." `ConstMontyForm::lincomb_vartime` documents
/// nothing for the empty list: its behaviour is only recorded.
fn lincomb_empty(_t: &mut Tape, c: &mut Case) -> CaseResult {
    c.label("documented panic: empty products");
    // rule: the documented-panic case is non-trivial (the whole case is about the panic)
    c.nontrivial(true);
    must_panic("MontyForm::<1>::lincomb_vartime(&[])", || MontyForm::<1>::lincomb_vartime(&[]))?;
    must_panic("MontyForm::<4>::lincomb_vartime(&[])", || MontyForm::<4>::lincomb_vartime(&[]))?;
    must_panic("MontyForm::<5>::lincomb_vartime(&[])", || MontyForm::<5>::lincomb_vartime(&[]))?;
    must_panic("<MontyForm<2> as Monty>::lincomb_vartime(&[])", || <MontyForm<2> as Monty>::lincomb_vartime(&[]))?;
    must_panic("BoxedMontyForm::lincomb_vartime(&[])", || BoxedMontyForm::lincomb_vartime(&[]))?;
    must_panic("<BoxedMontyForm as Monty>::lincomb_vartime(&[])", || <BoxedMontyForm as Monty>::lincomb_vartime(&[]))?;
    c.label(match guard(|| ConstMontyForm::<moduli::M64Three, 1>::lincomb_vartime(&[]).retrieve()) {
        Ok(r) if ul(&r) == [0] => "ConstMontyForm::lincomb_vartime(&[]) (undocumented): returns 0",
        Ok(_) => "ConstMontyForm::lincomb_vartime(&[]) (undocumented): returns a non-zero value",
        Err(_) => "ConstMontyForm::lincomb_vartime(&[]) (undocumented): panics",
    });
    Ok(())
}

// ------------------------------------------------------------------------------------------------

macro_rules! s_pow {
    ($v:ident; $(($l:literal, $w:literal, $e:literal, $q:expr)),*) => { $(
        $v.push(SubCheck::new(format!("surface/dyn/pow/U{}^U{}", 64*$l, 64*$e), $q, fixed_pow::<$l, $w, $e>).tape(2 * (2 * $l + $e + 40)));
    )* };
}
macro_rules! s_allk {
    ($v:ident; $(($l:literal, $e:literal, $q:expr)),*) => { $(
        $v.push(SubCheck::new(format!("surface/dyn/pow-allk/U{}^U{}", 64*$l, 64*$e), $q, fixed_allk::<$l, $e>).tape(2 * (2 * $l + $e + 40)).thorough(10));
    )* };
}
macro_rules! s_multi {
    ($v:ident; $(($l:literal, $e:literal, $q:expr)),*) => { $(
        $v.push(SubCheck::new(format!("surface/dyn/multiexp/U{}^U{}", 64*$l, 64*$e), $q, fixed_multi::<$l, $e>).tape(2 * ($l + 5 * ($l + $e + 24) + 30)));
    )* };
}
macro_rules! s_lincomb {
    ($v:ident; $(($l:literal, $q:expr)),*) => { $(
        $v.push(SubCheck::new(format!("surface/dyn/lincomb/U{}", 64*$l), $q, fixed_lincomb::<$l>).tape(2 * ($l + 30 + 40 * 6)));
    )* };
}
macro_rules! s_const {
    ($v:ident; $(($name:ident, $l:literal, $e:literal, $qp:expr, $qm:expr, $ql:expr)),*) => { $(
        {
            use sm::$name;
            fn ctor(b: &Uint<$l>) -> ConstMontyForm<$name, $l> {
                let v = *b;
                crypto_bigint::const_monty_form!(v, $name)
            }
            $v.push(SubCheck::new(format!("surface/const/pow/{}^U{}", stringify!($name), 64*$e), $qp, const_pow::<$name, $l, $e>(ctor)).tape(2 * ($l + $e + 40)));
            $v.push(SubCheck::new(format!("surface/const/multiexp/{}^U{}", stringify!($name), 64*$e), $qm, const_multi::<$name, $l, $e>).tape(2 * (5 * ($l + $e + 24) + 30)));
            $v.push(SubCheck::new(format!("surface/const/lincomb/{}", stringify!($name)), $ql, const_lincomb::<$name, $l>).tape(2 * (30 + 40 * 6)));
            $v.push(SubCheck::new(format!("surface/const/lincomb-equivalent-params/{}", stringify!($name)), $ql, lincomb_equivalent_const::<$name, $l>).tape(2 * (30 + 40 * 6)));
        }
    )* };
}
macro_rules! s_const_equiv {
    ($v:ident; $(($name:ident, $l:literal, $q:expr)),*) => { $(
        $v.push(SubCheck::new(format!("surface/const/lincomb-equivalent-params/{}", stringify!($name)), $q, lincomb_equivalent_const::<moduli::$name, $l>).tape(2 * (30 + 40 * 6)));
    )* };
}

pub(crate) fn subchecks() -> Vec<SubCheck> {
    let mut v = vec![];
    s_pow!(v; (3, 6, 3, 4000), (3, 6, 1, 4000), (5, 10, 2, 3000), (5, 10, 5, 2400), (6, 12, 3, 2400), (7, 14, 7, 1600), (4, 8, 5, 2400), (2, 4, 7, 2400));
    s_allk!(v; (3, 1, 1200), (5, 1, 800));
    s_multi!(v; (3, 3, 3000), (5, 2, 2400), (6, 6, 1200), (7, 1, 1600));
    s_lincomb!(v; (3, 16000), (5, 12000), (6, 10000), (7, 8000));
    s_const!(v; (S192Lz4, 3, 3, 3000, 1200, 3000), (S320Rand, 5, 2, 2400, 900, 2400), (S320Lz2, 5, 5, 1800, 900, 3000), (S448Lz1, 7, 1, 1800, 900, 3000));
    s_const_equiv!(v; (M64Lz3, 1, 3000), (M128Lz2, 2, 3000), (M256Lz1, 4, 3000), (M256Lz5, 4, 3000), (M128ZeroHigh, 2, 2000));
    v.push(SubCheck::new("surface/dyn/pow-through-selection/U128^U128", 4000, pow_through_selection::<2, 2>).tape(2 * (3 * 2 + 2 + 50)));
    v.push(SubCheck::new("surface/dyn/pow-through-selection/U256^U64", 3000, pow_through_selection::<4, 1>).tape(2 * (3 * 4 + 1 + 50)));
    v.push(SubCheck::new("surface/dyn/pow-through-selection/U320^U192", 2000, pow_through_selection::<5, 3>).tape(2 * (3 * 5 + 3 + 50)));
    v.push(SubCheck::new("surface/dyn/multiexp7/U128^U128", 2400, fixed_multi7::<2, 2>).tape(2 * (2 + 7 * (2 + 2 + 24) + 30)));
    v.push(SubCheck::new("surface/dyn/multiexp7/U320^U64", 1200, fixed_multi7::<5, 1>).tape(2 * (5 + 7 * (5 + 1 + 24) + 30)));
    v.push(SubCheck::new("surface/dyn/lincomb-equivalent-params/U128", 8000, lincomb_equivalent_fixed::<2, 4>).tape(2 * (2 + 30 + 40 * 6)));
    v.push(SubCheck::new("surface/dyn/lincomb-equivalent-params/U256", 6000, lincomb_equivalent_fixed::<4, 8>).tape(2 * (4 + 30 + 40 * 6)));
    v.push(SubCheck::new("surface/dyn/lincomb-equivalent-params/U320", 5000, lincomb_equivalent_fixed::<5, 10>).tape(2 * (5 + 30 + 40 * 6)));
    v.push(SubCheck::new("surface/boxed/lincomb-equivalent-params/1..=17", 8000, lincomb_equivalent_boxed(17)).tape(2 * (17 + 30 + 40 * 6)));
    v.push(SubCheck::new("surface/panics/lincomb-empty", 4, lincomb_empty).tape(4).thorough(1));
    v
}
