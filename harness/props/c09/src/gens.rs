//! C09-specific generators: moduli (C08 classes + leading-zero targeted + the [R/4, R/2) band in
//! which the boxed ladder needs its second final subtraction), bases, exponents, bit bounds.

use num_bigint::BigUint;
use num_traits::{One, Zero};
use vmodel::gen;
use vmodel::*;

/// Odd modulus with exactly `lz` leading zero bits in `n` limbs (`lz <= 64 n - 2`, so m >= 3).
/// Shapes sit at both ends of the bit length so that `terms * m` straddles `R`.
pub fn modulus_lz(t: &mut Tape, n: usize, lz: u64) -> Limbs {
    let bits = 64 * n as u64 - lz;
    assert!(bits >= 2);
    let m: BigUint = match t.weighted(&[3, 2, 2, 4]) {
        0 => mask(bits),
        1 => {
            // 2^bits - c, c odd and small relative to 2^(bits-1)
            let c = BigUint::from(gen::word(t) | 1);
            if c < pow2(bits - 1) {
                pow2(bits) - c
            } else {
                mask(bits)
            }
        }
        2 => pow2(bits - 1) + BigUint::one(),
        _ => {
            let v = gen::limbs(t, n);
            ((big(&v) & mask(bits - 1)) | pow2(bits - 1)) | BigUint::one()
        }
    };
    limbs_exact(&m, n)
}

/// A leading-zero count for an `n`-limb modulus: biased to 0..=5 (so that up to 40 terms cross
/// `2^lz`), then 6..=63, then whole zero limbs.
pub fn pick_lz(t: &mut Tape, n: usize) -> u64 {
    let maxlz = 64 * n as u64 - 2;
    let lz = match t.weighted(&[8, 3, if n > 1 { 2 } else { 0 }]) {
        0 => t.below(6),
        1 => t.range(6, 63),
        _ => t.range(64, maxlz),
    };
    lz.min(maxlz)
}

/// Modulus for the pow checks. Returns (limbs, class label).
pub fn modulus(t: &mut Tape, n: usize) -> (Limbs, &'static str) {
    match t.weighted(&[6, 4, 3, 2]) {
        0 => gen::odd_modulus(t, n),
        1 => {
            // R/4 <= m < R/2: almost-Montgomery results can reach 2m and above
            let mut v = gen::limbs(t, n);
            let top = match t.weighted(&[2, 2, 1, 3]) {
                0 => 0x5555_5555_5555_5555u64,
                1 => 0x4000_0000_0000_0000,
                2 => 0x7fff_ffff_ffff_ffff,
                _ => (t.u64() >> 2) | (1 << 62),
            };
            v[n - 1] = top;
            v[0] |= 1;
            (v, "m in [R/4,R/2)")
        }
        2 => {
            let lz = pick_lz(t, n);
            (modulus_lz(t, n, lz), "m with chosen leading zeros")
        }
        _ => {
            let mut v = gen::limbs(t, n);
            v[n - 1] |= 1 << 63;
            v[0] |= 1;
            (v, "m >= R/2")
        }
    }
}

/// Cheap reduced residue (few tape words): used where a case needs many of them.
pub fn residue_cheap(t: &mut Tape, m: &BigUint, n: usize) -> BigUint {
    let one = BigUint::one();
    let r = match t.weighted(&[1, 1, 5, 1, 1, 6, 1]) {
        0 => BigUint::zero(),
        1 => one.clone(),
        2 => m - &one,
        3 => (m + &one) >> 1u32,
        4 => m >> 1u32,
        5 => big(&t.expand(n + 1)),
        _ => BigUint::from(gen::word(t)),
    };
    r % m
}

/// Base value for a pow check. Returns (value as handed to the constructor, class label).
/// With `allow_unreduced` a value >= m may be produced (fixed-width `new` reduces it).
pub fn base(t: &mut Tape, m: &BigUint, n: usize, allow_unreduced: bool) -> (BigUint, &'static str) {
    let one = BigUint::one();
    match t.weighted(&[2, 2, 3, 1, 7, if allow_unreduced { 1 } else { 0 }]) {
        0 => (BigUint::zero(), "base 0"),
        1 => (&one % m, "base 1"),
        2 => ((m - &one) % m, "base m-1"),
        3 => {
            let v = if t.bool() { (m + &one) >> 1u32 } else { m.clone() + m - BigUint::from(2u32) };
            (v % m, "base (m+1)/2 or m-2")
        }
        4 => (gen::below_big(t, m), "base random < m"),
        _ => {
            let v = if t.bool() { mask(64 * n as u64) } else { big(&gen::limbs(t, n)) };
            if v >= *m {
                (v, "base >= m (fixed new reduces)")
            } else {
                (v, "base random < m")
            }
        }
    }
}

/// Exponent shapes: 0, 1, 2^j, all-ones, constants, 2^j±1, random bit length, patterned, uniform,
/// sparse windows (few non-zero nibbles), one repeated nibble.
pub fn exponent(t: &mut Tape, n: usize) -> (Limbs, &'static str) {
    let bits = 64 * n as u64;
    match t.weighted(&[1, 1, 2, 2, 2, 3, 4, 2, 3, 2, 1]) {
        0 => (vec![0; n], "exp 0"),
        1 => {
            let mut v = vec![0; n];
            v[0] = 1;
            (v, "exp 1")
        }
        2 => (limbs_of(&pow2(t.edgy(bits - 1)), n), "exp 2^j"),
        3 => (vec![u64::MAX; n], "exp all-ones"),
        4 => (gen::shape_k(t, n), "exp K"),
        5 => (gen::shape_p(t, n), "exp P"),
        6 => (gen::shape_t(t, n), "exp T"),
        7 => (gen::shape_l(t, n), "exp L"),
        8 => (gen::shape_u(t, n), "exp U"),
        9 => {
            let mut v = vec![0u64; n];
            let cnt = t.usize_in(1, 4);
            for _ in 0..cnt {
                let w = t.below(bits / 4);
                let nib = t.range(1, 15);
                v[(w / 16) as usize] |= nib << (4 * (w % 16));
            }
            (v, "exp sparse windows")
        }
        _ => {
            let nib = t.range(1, 15);
            let w = (0..16).fold(0u64, |a, i| a | (nib << (4 * i)));
            (vec![w; n], "exp repeated nibble")
        }
    }
}

/// Bit bound k in 0..=bits: the boundary list of the design, window / limb neighbourhoods, the
/// exponent's own bit length ± 1, uniform.
pub fn pick_k(t: &mut Tape, bits: u64, elen: u64) -> u64 {
    let k = match t.weighted(&[3, 3, 2, 2, 3, 3]) {
        0 => t.pick(&[0, 1, 3, 4, 5, 63, 64, 65, bits.saturating_sub(1), bits]),
        1 => bits,
        2 => (64 * t.below(bits / 64 + 1) + t.below(3)).saturating_sub(1),
        3 => (4 * t.below(bits / 4 + 1) + t.below(3)).saturating_sub(1),
        4 => (elen + t.below(3)).saturating_sub(1),
        _ => t.range(0, bits),
    };
    k.min(bits)
}

/// Number of non-zero 4-bit windows of `e`.
pub fn nonzero_windows(e: &BigUint) -> usize {
    e.to_u64_digits().iter().map(|w| (0..16).filter(|i| (w >> (4 * i)) & 15 != 0).count()).sum()
}

/// Term count for lincomb in 1..=40, biased to the accumulation-window boundaries `j * 2^lz + {-1,0,1}`.
pub fn term_count(t: &mut Tape, lz: u64) -> usize {
    let w = if lz >= 6 { 64 } else { 1u64 << lz };
    let n = match t.weighted(&[4, 2, 1, 3]) {
        0 => {
            let j = t.range(1, (40 / w).max(1).min(4));
            (j * w + t.below(3)).saturating_sub(1)
        }
        1 => t.below(4) + 1,
        2 => 40,
        _ => t.range(1, 40),
    };
    n.clamp(1, 40) as usize
}
