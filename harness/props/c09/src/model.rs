//! Oracle-side *classification model* of the boxed exponentiation ladder, used only to **search
//! for and label** inputs on which the accumulator leaves the loop at or above `2m` (so that both
//! final conditional subtractions of `BoxedMontyForm::pow_bounded_exp` are needed). Verdicts never
//! depend on it: expected values always come from `BigUint::modpow`.
//!
//! Model of one "almost Montgomery multiplication" as documented in
//! `boxed_monty_form/mul.rs::almost_montgomery_mul`: `z = (x*y + t*m) / R` with
//! `t = x*y * (-1/m) mod R`, and `m` subtracted once iff `z >= R`. (The interleaved CIOS loop
//! produces the same integer: `t` is the unique value in `[0, R)` making the sum divisible by `R`.)

use num_bigint::BigUint;
use num_traits::One;
use vmodel::*;

pub struct Amm {
    m: BigUint,
    rbits: u64,
    rmask: BigUint,
    /// -1/m mod R
    k: BigUint,
    pub one: BigUint,
}

impl Amm {
    pub fn new(m: &BigUint, n: usize) -> Self {
        let rbits = 64 * n as u64;
        let rmask = mask(rbits);
        // Newton iteration for 1/m mod 2^rbits (m odd): inv <- inv * (2 - m*inv)
        let mut inv = BigUint::one();
        let r = pow2(rbits);
        let two = BigUint::from(2u32);
        let mut bits = 1;
        while bits < rbits {
            let t = (&r + &two - (m * &inv & &rmask)) & &rmask;
            inv = (inv * t) & &rmask;
            bits *= 2;
        }
        debug_assert!(((m * &inv) & &rmask).is_one());
        let k = (&r - &inv) & &rmask;
        Amm { m: m.clone(), rbits, rmask, k, one: &r % m }
    }

    pub fn mul(&self, a: &BigUint, b: &BigUint) -> BigUint {
        let ab = a * b;
        let t = ((&ab & &self.rmask) * &self.k) & &self.rmask;
        let mut z = (ab + t * &self.m) >> self.rbits;
        if z.bits() > self.rbits {
            z -= &self.m;
        }
        z
    }

    fn sq4(&self, z: &BigUint) -> BigUint {
        let mut z = self.mul(z, z);
        for _ in 0..3 {
            z = self.mul(&z, &z);
        }
        z
    }

    /// powers[i] = x^i as the boxed ladder builds them (x in Montgomery form, reduced)
    pub fn powers(&self, x: &BigUint) -> Vec<BigUint> {
        let mut p = vec![self.one.clone(), x.clone()];
        for i in 2..16 {
            let nx = self.mul(&p[i - 1], x);
            p.push(nx);
        }
        p
    }

    /// Search 12-bit exponents `i1 i2 best` (three 4-bit windows, `exponent_bits = 12`) for one on
    /// which the accumulator after the last multiplication is `>= 2m`. The last window selects the
    /// largest table entry; `i1`, `i2` are enumerated starting from tape-chosen offsets.
    /// Returns (exponent, found).
    pub fn search_double_reduction(&self, x: &BigUint, off1: u64, off2: u64) -> (u64, bool) {
        let p = self.powers(x);
        let best = (1..16).max_by_key(|&i| p[i].clone()).unwrap();
        let two_m = &self.m << 1u32;
        let mut fallback = (1u64 << 8) | best as u64;
        let mut fallback_val = BigUint::from(0u32);
        for a in 0..15u64 {
            let i1 = 1 + (a + off1) % 15;
            let z1 = self.sq4(&self.mul(&self.one, &p[i1 as usize]));
            for b in 0..16u64 {
                let i2 = (b + off2) % 16;
                let z2 = self.sq4(&self.mul(&z1, &p[i2 as usize]));
                let f = self.mul(&z2, &p[best]);
                let e = (i1 << 8) | (i2 << 4) | best as u64;
                if f >= two_m {
                    return (e, true);
                }
                if f > fallback_val {
                    fallback_val = f;
                    fallback = e;
                }
            }
        }
        (fallback, false)
    }
}

// ------------------------------------------------------------------------------------------------
// input tuples for the two rare end states of the boxed ladder (shared with C15)

/// (modulus limbs, base < m, 12-bit exponent, found): m in [0.42 R, 0.495 R), exponent searched so
/// that the almost-Montgomery accumulator leaves the loop at or above 2m.
pub fn double_reduction_tuple(t: &mut Tape, n: usize) -> (Limbs, BigUint, u64, bool) {
    let mut ml = t.expand(n);
    ml[n - 1] = t.range(0x6B85_1EB8_51EB_851F, 0x7EB8_51EB_851E_B851);
    ml[0] |= 1;
    let m = big(&ml);
    let base = big(&t.expand(n + 1)) % &m;
    let x_mont = (&base << (64 * n)) % &m;
    let amm = Amm::new(&m, n);
    let (off1, off2) = (t.below(15), t.below(16));
    let (e, found) = amm.search_double_reduction(&x_mont, off1, off2);
    (ml, base, e, found)
}

/// (modulus limbs, base, exponent): m = p^k c with one leading zero bit, base = p c beta, exponent
/// 0x10 | i2 with 16 + i2 >= k > 16, so that base^e = 0 (mod m) through the last window only.
pub fn late_zero_tuple(t: &mut Tape, n: usize) -> Option<(Limbs, BigUint, u64)> {
    let p = BigUint::from(t.pick(&[3u32, 5, 7]));
    let k = t.range(17, 22) as u32;
    let pk = num_traits::pow(p.clone(), k as usize);
    let r = pow2(64 * n as u64);
    let lo = (&r * 42u32) / 100u32;
    let span = (&r * 7u32) / 100u32;
    let target = lo + big(&t.expand(n)) % span;
    let mut cfac = &target / &pk;
    if !cfac.bit(0) {
        cfac += 1u32;
    }
    while (&cfac % &p) == BigUint::from(0u32) {
        cfac += 2u32;
    }
    let m = &pk * &cfac;
    if m.bits() != 64 * n as u64 - 1 {
        return None;
    }
    let beta = big(&t.expand(n)) | BigUint::one();
    let base = (&p * &cfac * beta) % &m;
    let i2 = t.range((k - 16) as u64, 15);
    Some((limbs_exact(&m, n), base, 0x10 | i2))
}
