fn main() {
    vmodel::cli_main(c09::spec())
}
