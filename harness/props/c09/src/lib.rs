//! C09 — modular exponentiation, multi-exponentiation and linear combination are exact.
//!
//! Oracle: `num_bigint::BigUint` (`modpow` of the exponent masked to `k` bits, product of powers,
//! Σ aᵢ·bᵢ mod m). Every result is checked for value (`retrieve`) *and* canonical form
//! (`as_montgomery() < m`); compile-time, runtime and boxed implementations are run on the same
//! operands whenever the modulus is shared.
//!
//! Documentation the assertions rest on:
//! * `pow_bounded_exp`: "`exponent_bits` representing the number of (least significant) bits to take
//!   into account for the exponent" ⇒ base^(e mod 2^k); `pow` = all bits of the exponent type / of
//!   the boxed exponent's precision.
//! * `MultiExponentiate(BoundedExp)`: "Calculates `x1 ^ k1 * ... * xn ^ kn`".
//! * `lincomb_vartime`: "Calculate the sum of products of pairs `(a, b)` in `products`" (non-empty).
//! * `retrieve`: "guaranteed to be reduced".
//! `k > BITS(exponent)` is outside the quantifier (index panic) and is never generated.

mod gens;
pub mod model;
pub mod moduli;
mod surface;

use crypto_bigint::modular::{
    BoxedMontyForm, BoxedMontyParams, ConstMontyForm, ConstMontyParams, MontyForm, MontyParams,
};
use crypto_bigint::{
    BoxedUint, Concat, Limb, Monty, MultiExponentiate, MultiExponentiateBoundedExp, Odd, Pow, PowBoundedExp, Split, Uint,
};
use num_bigint::BigUint;
use subtle::ConditionallySelectable;
use num_traits::{One, Zero};
use vmodel::*;

pub fn spec() -> PropSpec {
    PropSpec {
        id: "C09",
        rule: "cases: odd modulus m (classes 1, 3, 2^B-1, 2^(B-1)+1, ~R/3, ~R/4, small prime, zero high limbs, 2^B-c, top-limb edge, random odd, R/4<=m<R/2, chosen leading-zero count 0..=63+, m>=R/2; 17 compile-time moduli) x base in {0, 1, m-1, (m+1)/2, m-2, random<m, value>=m for fixed-width new} x exponent shapes {0, 1, 2^j, all-ones, K, P, T, L, U, sparse windows, repeated nibble} of a width equal / narrower / wider than the base x bit bound k in 0..=BITS(exponent) (boundary list 0,1,3,4,5,63,64,65,BITS-1,BITS; neighbourhoods of multiples of 4 and 64; bitlen(e)+-1; uniform; every k for the allk sub-checks); multi-exponentiation with 1..=5 terms (array and slice forms); lincomb with 1..=40 terms, term count biased to j*2^lz+{-1,0,1}, residues biased to m-1; boxed pow-double-reduction: m in [0.42R,0.495R], 12-bit exponent found by an oracle-side model search of the almost-Montgomery ladder so that the accumulator leaves the loop >= 2m. Each case runs every API form (inherent, PowBoundedExp, Pow, MultiExponentiate(BoundedExp), Monty-generic, const/dyn/boxed conversions) against one BigUint oracle value and requires retrieve()==oracle and as_montgomery()<m. non-trivial: pow / multi-exp: (some) base mod m not in {0,1} AND (k%4 != 0 OR k > 64 OR e mod 2^k has >= 2 non-zero 4-bit windows) [allk sub-checks: base mod m not in {0,1} AND e != 0, every k is run]; pow-double-reduction: the model search found an exponent with final accumulator >= 2m; lincomb: term count > 2^min(lz,63) (more than one accumulation window) OR (>= 2 terms AND exact sum of products >= m). distinct by (m, bases, exponents, k) resp. (m, all terms). surface/* sub-checks (API-surface audit): the same generators, oracle and rules at 3, 5, 6, 7 limbs (bases) and 3, 5, 7 limbs (exponents), 4 more compile-time moduli, 7-term arrays, parameter sets / bases that went through constant-time selection against a decoy modulus, linear combinations over equivalent but separately built parameter sets; the documented panic of lincomb_vartime on an empty list counts as non-trivial. Since seeding round 4: boxed pow-late-zero (m = p^k c with one leading zero bit, base = p c beta, exponent 0x10|i2: the result is 0 mod m through the last window only, accumulator ends on exactly 0, m or 2m); every boxed pow result is also used as an operand (r+1, -r, r-r, 2r).",
        assumptions: vec![
            "num-bigint modpow / mul / rem are correct (independent implementation)".into(),
            "bridging uses from_words/as_words only; moduli enter through Odd::new / impl_modulus!".into(),
            "k > BITS(exponent) is outside the property's quantifier and is not generated".into(),
        ],
        subchecks,
    }
}

// ------------------------------------------------------------------------------------------------
// expectation + verdict accumulator (exact F-08 matcher)

struct Expect {
    m: BigUint,
    want: BigUint,
    /// limbs of the result type
    n: usize,
    /// the result is handed out straight from the `one` parameter (exponent_bits == 0)
    from_one: bool,
}

impl Expect {
    fn new(m: &BigUint, want: BigUint, n: usize, from_one: bool) -> Self {
        Expect { m: m.clone(), want, n, from_one }
    }
}

#[derive(Default)]
struct Verd {
    known: Option<Fail>,
}

impl Verd {
    /// `mont` = Montgomery representation, `retr` = retrieved integer of one result.
    fn check(&mut self, what: &str, x: &Expect, mont: &[u64], retr: &[u64], is_boxed: bool) -> CaseResult {
        let want_l = limbs_of(&x.want, x.n);
        let canonical = big(mont) < x.m;
        if retr == want_l.as_slice() && canonical && mont.len() == x.n {
            return Ok(());
        }
        // F-08: modulus 1, value taken from the `one` parameter, which is 1 instead of R mod 1 = 0.
        // Fixed widths: Montgomery form 1 (non-canonical), retrieve() reduces it to 0.
        // Boxed: Montgomery form 1, retrieve() returns 1.
        if x.m.is_one() && x.from_one && mont.len() == x.n && retr.len() == x.n {
            let mut one_l = vec![0u64; x.n];
            one_l[0] = 1;
            let retr_sig = if is_boxed { one_l.clone() } else { vec![0u64; x.n] };
            if mont == one_l.as_slice() && retr == retr_sig.as_slice() {
                self.known.get_or_insert_with(|| {
                    Fail::known("F-08", format!("{what}: modulus 1, exponent_bits 0: Montgomery form is 1 (params.one = 1, not R mod 1 = 0), retrieve() = {}", retr[0]))
                });
                return Ok(());
            }
        }
        vfail!(
            "{what}: retrieve() = {}, want {}; as_montgomery() = {} ({}canonical), modulus {}",
            hex(retr),
            hex(&want_l),
            hex(mont),
            if canonical { "" } else { "NOT " },
            hex(&limbs_of(&x.m, x.n))
        )
    }

    fn boxed(&mut self, what: &str, x: &Expect, f: impl FnOnce() -> BoxedMontyForm) -> CaseResult {
        match guard(f) {
            Ok(r) => {
                // trait accessor: the inherent one carries a debug assertion of its own
                let mont = bl(<BoxedMontyForm as Monty>::as_montgomery(&r));
                let retr = bl(&total(&format!("{what}: retrieve"), || r.retrieve())?);
                self.check(what, x, &mont, &retr, true)?;
                // the result as an operand of further arithmetic (a value that is not canonical is
                // wrong there even when retrieve() is right, and trips operand assertions in the
                // checked profile)
                let fu = total(&format!("{what}: arithmetic on the result (r + 1, -r, r - r, 2r)"), || {
                    let one = BoxedMontyForm::one(r.params().clone());
                    (bbig(&(&r + &one).retrieve()), bbig(&(-&r).retrieve()), bbig(&(&r - &r).retrieve()), bbig(&r.double().retrieve()))
                })?;
                let m = &x.m;
                let w = &x.want % m;
                let expect = ((&w + 1u32) % m, (m - &w) % m, BigUint::zero(), (&w * 2u32) % m);
                vensure!(fu == expect, "{what}: arithmetic on the result: (r + 1, -r, r - r, 2r) = ({:x}, {:x}, {:x}, {:x}), want ({:x}, {:x}, {:x}, {:x}); modulus {:x}", fu.0, fu.1, fu.2, fu.3, expect.0, expect.1, expect.2, expect.3, m);
                Ok(())
            }
            Err(p) => {
                // F-08 in the checked profile: BoxedMontyForm::pow_bounded_exp's own debug assertion
                // sees retrieve() = 1 for modulus 1.
                if x.m.is_one() && x.from_one && PROFILE == "dbg" && p.contains("ret.retrieve() < self.params.modulus") {
                    self.known.get_or_insert_with(|| Fail::known("F-08", format!("{what}: modulus 1, exponent_bits 0: debug assertion on the result of pow_bounded_exp fails ({p})")));
                    Ok(())
                } else {
                    vfail!("{what}: unexpected panic: {p}")
                }
            }
        }
    }

    fn finish(self) -> CaseResult {
        match self.known {
            Some(f) => Err(f),
            None => Ok(()),
        }
    }
}

// ------------------------------------------------------------------------------------------------
// helpers

trait Fx<const L: usize>: Copy {
    fn mont(&self) -> Limbs;
    fn retr(&self) -> Limbs;
}
impl<const L: usize> Fx<L> for MontyForm<L> {
    fn mont(&self) -> Limbs {
        ul(self.as_montgomery())
    }
    fn retr(&self) -> Limbs {
        ul(&self.retrieve())
    }
}
impl<MOD: ConstMontyParams<L>, const L: usize> Fx<L> for ConstMontyForm<MOD, L> {
    fn mont(&self) -> Limbs {
        ul(self.as_montgomery())
    }
    fn retr(&self) -> Limbs {
        ul(&self.retrieve())
    }
}

fn odd_u<const L: usize>(m: &[u64]) -> Odd<Uint<L>> {
    Option::from(Odd::new(uint::<L>(m))).expect("harness: modulus must be odd")
}
fn odd_b(m: &[u64]) -> Odd<BoxedUint> {
    Option::from(Odd::new(boxed(m))).expect("harness: modulus must be odd")
}
fn u_of<const L: usize>(x: &BigUint) -> Uint<L> {
    uint::<L>(&limbs_exact(x, L))
}
fn b_of(x: &BigUint, n: usize) -> BoxedUint {
    boxed(&limbs_exact(x, n))
}
fn int_limbs<I: AsRef<[Limb]>>(x: &I) -> Limbs {
    x.as_ref().iter().map(|l| l.0).collect()
}

/// base^(e mod 2^k) mod m
fn opow(b: &BigUint, e: &BigUint, k: u64, m: &BigUint) -> BigUint {
    if m.is_one() {
        return BigUint::zero();
    }
    b.modpow(&(e & mask(k)), m)
}

fn pow_nontrivial(b: &BigUint, e: &BigUint, k: u64, m: &BigUint) -> bool {
    let br = b % m;
    !br.is_zero() && !br.is_one() && (k % 4 != 0 || k > 64 || gens::nonzero_windows(&(e & mask(k))) >= 2)
}

fn label_k(c: &mut Case, k: u64, ebits: u64, elen: u64) {
    if k == 0 {
        c.label("k = 0");
    }
    if k == ebits {
        c.label("k = BITS(exponent)");
    }
    if k % 4 != 0 {
        c.label("k not a multiple of 4");
    }
    if k > 64 {
        c.label("k crosses a limb");
    }
    if k % 64 == 0 && k > 0 {
        c.label("k multiple of 64");
    }
    if k % 64 == 1 {
        c.label("k = 64j+1");
    }
    if k < elen {
        c.label("k < bitlen(e): exponent truncated");
    }
}

fn label_lz(c: &mut Case, ml: &[u64]) -> u64 {
    let lz = 64 * ml.len() as u64 - bit_len(ml);
    c.label(match lz {
        0 => "modulus lz 0",
        1 => "modulus lz 1",
        2..=5 => "modulus lz 2..=5",
        6..=62 => "modulus lz 6..=62",
        63 => "modulus lz 63",
        _ => "modulus lz >= 64",
    });
    lz.min(63)
}

// Monty-generic routes (trait `Monty` only)
fn monty_pow<M: Monty>(modulus: Odd<M::Integer>, base: M::Integer, e: &M::Integer, k: u32) -> M {
    let p = M::new_params_vartime(modulus);
    let x = M::new(base, p);
    PowBoundedExp::pow_bounded_exp(&x, e, k)
}
fn monty_lincomb<M: Monty>(modulus: Odd<M::Integer>, terms: Vec<(M::Integer, M::Integer)>) -> M {
    let p = M::new_params_vartime(modulus);
    let forms: Vec<(M, M)> = terms.into_iter().map(|(a, b)| (M::new(a, p.clone()), M::new(b, p.clone()))).collect();
    let refs: Vec<(&M, &M)> = forms.iter().map(|(a, b)| (a, b)).collect();
    M::lincomb_vartime(&refs)
}
fn monty_out<M: Monty>(r: &M) -> (Limbs, Limbs) {
    (int_limbs(r.as_montgomery()), int_limbs(&r.retrieve()))
}

/// trait forms of exponentiation for a fixed-width form
fn pow_traits<F, const L: usize, const E: usize>(v: &mut Verd, tag: &str, x: &Expect, f: &F, e: &Uint<E>, k: u32) -> CaseResult
where
    F: Fx<L> + PowBoundedExp<Uint<E>>,
{
    let r = total("PowBoundedExp::pow_bounded_exp", || PowBoundedExp::pow_bounded_exp(f, e, k))?;
    v.check(&format!("{tag} PowBoundedExp::pow_bounded_exp"), x, &r.mont(), &r.retr(), false)?;
    if k == Uint::<E>::BITS {
        let r = total("Pow::pow", || Pow::pow(f, e))?;
        v.check(&format!("{tag} Pow::pow"), x, &r.mont(), &r.retr(), false)?;
    }
    Ok(())
}

fn multi_arr<F, const L: usize, const E: usize, const N: usize>(v: &mut Verd, tag: &str, x: &Expect, terms: &[(F, Uint<E>)], k: u32) -> CaseResult
where
    F: Fx<L> + MultiExponentiateBoundedExp<Uint<E>, [(F, Uint<E>); N]>,
{
    let arr: [(F, Uint<E>); N] = core::array::from_fn(|i| terms[i]);
    let r = total("multi_exponentiate_bounded_exp (array)", || F::multi_exponentiate_bounded_exp(&arr, k))?;
    v.check(&format!("{tag} MultiExponentiateBoundedExp<[_; {N}]>"), x, &r.mont(), &r.retr(), false)?;
    if k == Uint::<E>::BITS {
        let r = total("multi_exponentiate (array)", || <F as MultiExponentiate<Uint<E>, [(F, Uint<E>); N]>>::multi_exponentiate(&arr))?;
        v.check(&format!("{tag} MultiExponentiate<[_; {N}]>"), x, &r.mont(), &r.retr(), false)?;
    }
    Ok(())
}

/// array (N = number of terms, 1..=5) and slice forms
fn multi_forms<F, const L: usize, const E: usize>(v: &mut Verd, tag: &str, x: &Expect, terms: &[(F, Uint<E>)], k: u32) -> CaseResult
where
    F: Fx<L>
        + MultiExponentiateBoundedExp<Uint<E>, [(F, Uint<E>)]>
        + MultiExponentiateBoundedExp<Uint<E>, [(F, Uint<E>); 1]>
        + MultiExponentiateBoundedExp<Uint<E>, [(F, Uint<E>); 2]>
        + MultiExponentiateBoundedExp<Uint<E>, [(F, Uint<E>); 3]>
        + MultiExponentiateBoundedExp<Uint<E>, [(F, Uint<E>); 4]>
        + MultiExponentiateBoundedExp<Uint<E>, [(F, Uint<E>); 5]>,
{
    match terms.len() {
        1 => multi_arr::<F, L, E, 1>(v, tag, x, terms, k)?,
        2 => multi_arr::<F, L, E, 2>(v, tag, x, terms, k)?,
        3 => multi_arr::<F, L, E, 3>(v, tag, x, terms, k)?,
        4 => multi_arr::<F, L, E, 4>(v, tag, x, terms, k)?,
        5 => multi_arr::<F, L, E, 5>(v, tag, x, terms, k)?,
        _ => unreachable!("harness: 1..=5 terms"),
    }
    let r = total("multi_exponentiate_bounded_exp (slice)", || <F as MultiExponentiateBoundedExp<Uint<E>, [(F, Uint<E>)]>>::multi_exponentiate_bounded_exp(terms, k))?;
    v.check(&format!("{tag} MultiExponentiateBoundedExp<[_]> ({} terms)", terms.len()), x, &r.mont(), &r.retr(), false)?;
    if k == Uint::<E>::BITS {
        let r = total("multi_exponentiate (slice)", || <F as MultiExponentiate<Uint<E>, [(F, Uint<E>)]>>::multi_exponentiate(terms))?;
        v.check(&format!("{tag} MultiExponentiate<[_]> ({} terms)", terms.len()), x, &r.mont(), &r.retr(), false)?;
    }
    Ok(())
}

/// every boxed exponentiation form on (m, reduced base, exponent limbs, k)
fn boxed_pow_forms(v: &mut Verd, x: &Expect, ml: &[u64], base: &BigUint, el: &[u64], k: u32, ct_params: bool, all_forms: bool) -> CaseResult {
    let n = ml.len();
    let params = total("BoxedMontyParams::new", || if ct_params { BoxedMontyParams::new(odd_b(ml)) } else { BoxedMontyParams::new_vartime(odd_b(ml)) })?;
    let bx = total("BoxedMontyForm::new", || BoxedMontyForm::new(b_of(base, n), params.clone()))?;
    let be = boxed(el);
    v.boxed("BoxedMontyForm::pow_bounded_exp", x, || bx.pow_bounded_exp(&be, k))?;
    if !all_forms {
        return Ok(());
    }
    v.boxed("PowBoundedExp for BoxedMontyForm", x, || PowBoundedExp::pow_bounded_exp(&bx, &be, k))?;
    if k as usize == 64 * el.len() {
        v.boxed("BoxedMontyForm::pow", x, || bx.pow(&be))?;
    }
    v.boxed("Monty-generic pow_bounded_exp (BoxedMontyForm)", x, || monty_pow::<BoxedMontyForm>(odd_b(ml), b_of(base, n), &be, k))?;
    Ok(())
}

struct PowCase {
    ml: Limbs,
    m: BigUint,
    /// value handed to fixed-width constructors (may be >= m)
    base: BigUint,
    el: Limbs,
    e: BigUint,
    k: u64,
}

fn gen_pow_case(t: &mut Tape, c: &mut Case, ml: Limbs, mclass: Option<&'static str>, l: usize, e_limbs: usize, allow_unreduced: bool) -> PowCase {
    let m = big(&ml);
    let (base, bclass) = gens::base(t, &m, l, allow_unreduced);
    let (el, eclass) = gens::exponent(t, e_limbs);
    let k = gens::pick_k(t, 64 * e_limbs as u64, bit_len(&el));
    c.limbs("m", &ml);
    c.limbs("base", &limbs_of(&base, l));
    c.limbs("exponent", &el);
    c.num("exponent_bits", k);
    if let Some(mc) = mclass {
        c.label(mc);
    }
    if m.is_one() {
        c.label("m=1");
    }
    c.label(bclass);
    c.label(eclass);
    label_k(c, k, 64 * e_limbs as u64, bit_len(&el));
    label_lz(c, &ml);
    c.label(match e_limbs.cmp(&l) {
        std::cmp::Ordering::Less => "exponent narrower than base",
        std::cmp::Ordering::Equal => "exponent width = base width",
        std::cmp::Ordering::Greater => "exponent wider than base",
    });
    let e = big(&el);
    c.nontrivial(pow_nontrivial(&base, &e, k, &m));
    PowCase { ml, m, base, el, e, k }
}

// ------------------------------------------------------------------------------------------------
// runtime modulus, fixed widths

fn fixed_pow<const L: usize, const W: usize, const E: usize>(t: &mut Tape, c: &mut Case) -> CaseResult
where
    Uint<L>: Concat<Output = Uint<W>>,
    Uint<W>: Split<Output = Uint<L>>,
{
    let (ml, mclass) = gens::modulus(t, L);
    let ct_params = t.bool();
    let p = gen_pow_case(t, c, ml, Some(mclass), L, E, true);
    let k = p.k as u32;
    let x = Expect::new(&p.m, opow(&p.base, &p.e, p.k, &p.m), L, p.k == 0);
    let mut v = Verd::default();

    let pa = total("MontyParams::new", || MontyParams::<L>::new(odd_u::<L>(&p.ml)))?;
    let pb = total("MontyParams::new_vartime", || MontyParams::<L>::new_vartime(odd_u::<L>(&p.ml)))?;
    vensure!(pa == pb, "MontyParams::new and new_vartime disagree: {:?} vs {:?}", pa, pb);
    let params = if ct_params { pa } else { pb };
    let f = total("MontyForm::new", || MontyForm::new(&u_of::<L>(&p.base), params))?;
    let e = uint::<E>(&p.el);

    let r = total("MontyForm::pow_bounded_exp", || f.pow_bounded_exp(&e, k))?;
    v.check("MontyForm::pow_bounded_exp", &x, &r.mont(), &r.retr(), false)?;
    if p.k == 64 * E as u64 {
        let r = total("MontyForm::pow", || f.pow(&e))?;
        v.check("MontyForm::pow", &x, &r.mont(), &r.retr(), false)?;
    }
    pow_traits::<MontyForm<L>, L, E>(&mut v, "MontyForm", &x, &f, &e, k)?;
    // single-term multi-exponentiation is the same ladder
    multi_forms::<MontyForm<L>, L, E>(&mut v, "MontyForm", &x, &[(f, e)], k)?;
    if E == L {
        // trait Monty: PowBoundedExp<Self::Integer>
        let el_l = p.el.clone();
        let r = total("Monty-generic pow_bounded_exp (MontyForm)", || monty_pow::<MontyForm<L>>(odd_u::<L>(&p.ml), u_of::<L>(&p.base), &uint::<L>(&el_l), k))?;
        let (mo, re) = monty_out(&r);
        v.check("Monty-generic pow_bounded_exp (MontyForm)", &x, &mo, &re, false)?;
    }
    // boxed on the same modulus (exponent keeps its own precision)
    boxed_pow_forms(&mut v, &x, &p.ml, &(&p.base % &p.m), &p.el, k, ct_params, true)?;
    v.finish()
}

/// every k in 0..=BITS(exponent) for one (m, base, e)
fn fixed_allk<const L: usize, const E: usize>(t: &mut Tape, c: &mut Case) -> CaseResult {
    let (ml, mclass) = gens::modulus(t, L);
    let m = big(&ml);
    let (base, bclass) = gens::base(t, &m, L, true);
    let (el, eclass) = gens::exponent(t, E);
    c.limbs("m", &ml);
    c.limbs("base", &limbs_of(&base, L));
    c.limbs("exponent", &el);
    c.label(mclass);
    c.label(bclass);
    c.label(eclass);
    c.label("all k in 0..=BITS(exponent)");
    let e = big(&el);
    let br = &base % &m;
    c.nontrivial(!br.is_zero() && !br.is_one() && !e.is_zero());
    let mut v = Verd::default();
    let params = total("MontyParams::new_vartime", || MontyParams::<L>::new_vartime(odd_u::<L>(&ml)))?;
    let f = total("MontyForm::new", || MontyForm::new(&u_of::<L>(&base), params))?;
    let eu = uint::<E>(&el);
    let bparams = total("BoxedMontyParams::new_vartime", || BoxedMontyParams::new_vartime(odd_b(&ml)))?;
    let bx = total("BoxedMontyForm::new", || BoxedMontyForm::new(b_of(&br, L), bparams))?;
    let be = boxed(&el);
    for k in 0..=(64 * E as u32) {
        let x = Expect::new(&m, opow(&base, &e, k as u64, &m), L, k == 0);
        let r = total("MontyForm::pow_bounded_exp", || f.pow_bounded_exp(&eu, k))?;
        v.check(&format!("MontyForm::pow_bounded_exp(k={k})"), &x, &r.mont(), &r.retr(), false)?;
        v.boxed(&format!("BoxedMontyForm::pow_bounded_exp(k={k})"), &x, || bx.pow_bounded_exp(&be, k))?;
    }
    v.finish()
}

struct MultiCase {
    ml: Limbs,
    m: BigUint,
    bases: Vec<BigUint>,
    exps: Vec<Limbs>,
    k: u64,
    want: BigUint,
}

fn gen_multi_case(t: &mut Tape, c: &mut Case, ml: Limbs, mclass: Option<&'static str>, l: usize, e_limbs: usize) -> MultiCase {
    let m = big(&ml);
    let n = t.usize_in(1, 5);
    let mut bases: Vec<BigUint> = vec![];
    let mut exps: Vec<Limbs> = vec![];
    for i in 0..n {
        // repeated bases / exponents are part of the space
        if i > 0 && t.chance(1, 6) {
            let j = t.index(i);
            bases.push(bases[j].clone());
        } else {
            bases.push(gens::base(t, &m, l, true).0);
        }
        if i > 0 && t.chance(1, 6) {
            let j = t.index(i);
            exps.push(exps[j].clone());
        } else {
            exps.push(gens::exponent(t, e_limbs).0);
        }
    }
    let maxlen = exps.iter().map(|e| bit_len(e)).max().unwrap_or(0);
    let k = gens::pick_k(t, 64 * e_limbs as u64, maxlen);
    c.limbs("m", &ml);
    for (b, e) in bases.iter().zip(exps.iter()) {
        c.limbs("base", &limbs_of(b, l));
        c.limbs("exponent", e);
    }
    c.num("exponent_bits", k);
    if let Some(mc) = mclass {
        c.label(mc);
    }
    c.label(match n {
        1 => "multi-exp 1 term",
        2 => "multi-exp 2 terms",
        3 => "multi-exp 3 terms",
        4 => "multi-exp 4 terms",
        _ => "multi-exp 5 terms",
    });
    label_k(c, k, 64 * e_limbs as u64, maxlen);
    let mut want = BigUint::one() % &m;
    let mut nt = false;
    let mut any_zero_factor = false;
    for (b, e) in bases.iter().zip(exps.iter()) {
        let pw = opow(b, &big(e), k, &m);
        any_zero_factor |= pw.is_zero();
        want = want * pw % &m;
        nt |= pow_nontrivial(b, &big(e), k, &m);
    }
    if any_zero_factor && n > 1 {
        c.label("multi-exp with a zero factor");
    }
    c.nontrivial(nt);
    MultiCase { ml, m, bases, exps, k, want }
}

fn fixed_multi<const L: usize, const E: usize>(t: &mut Tape, c: &mut Case) -> CaseResult {
    let (ml, mclass) = gens::modulus(t, L);
    let mc = gen_multi_case(t, c, ml, Some(mclass), L, E);
    let k = mc.k as u32;
    let x = Expect::new(&mc.m, mc.want.clone(), L, mc.k == 0);
    let mut v = Verd::default();
    let params = total("MontyParams::new_vartime", || MontyParams::<L>::new_vartime(odd_u::<L>(&mc.ml)))?;
    let terms: Vec<(MontyForm<L>, Uint<E>)> = mc.bases.iter().zip(mc.exps.iter()).map(|(b, e)| (MontyForm::new(&u_of::<L>(b), params), uint::<E>(e))).collect();
    multi_forms::<MontyForm<L>, L, E>(&mut v, "MontyForm", &x, &terms, k)?;
    // "the product of the individual powers", computed by the implementation itself
    if mc.k > 0 {
        let mut acc = terms[0].0.pow_bounded_exp(&terms[0].1, k);
        for (f, e) in &terms[1..] {
            acc = acc * f.pow_bounded_exp(e, k);
        }
        v.check("product of MontyForm::pow_bounded_exp", &x, &acc.mont(), &acc.retr(), false)?;
    }
    v.finish()
}

struct LinCase {
    ml: Limbs,
    m: BigUint,
    terms: Vec<(BigUint, BigUint)>,
    want: BigUint,
}

fn gen_lincomb_case(t: &mut Tape, c: &mut Case, ml: Limbs, l: usize) -> LinCase {
    let m = big(&ml);
    c.limbs("m", &ml);
    let lz = label_lz(c, &ml);
    let n = gens::term_count(t, lz);
    let mode = t.weighted(&[5, 2, 1, 1]);
    let mut terms: Vec<(BigUint, BigUint)> = vec![];
    let max = (&m - BigUint::one()) % &m;
    for i in 0..n {
        let pair = match mode {
            0 => (gens::residue_cheap(t, &m, l), gens::residue_cheap(t, &m, l)),
            // every product maximal: the accumulator bound k*p^2 <= p*R is as tight as it gets
            1 => (max.clone(), max.clone()),
            2 => {
                if i == 0 {
                    (gens::residue_cheap(t, &m, l), gens::residue_cheap(t, &m, l))
                } else {
                    terms[0].clone()
                }
            }
            _ => (max.clone(), gens::residue_cheap(t, &m, l)),
        };
        terms.push(pair);
    }
    c.label(match mode {
        0 => "lincomb mixed residues",
        1 => "lincomb all (m-1)*(m-1)",
        2 => "lincomb one pair repeated",
        _ => "lincomb (m-1)*b_i",
    });
    for (a, b) in &terms {
        c.limbs("a", &limbs_of(a, l));
        c.limbs("b", &limbs_of(b, l));
    }
    let exact: BigUint = terms.iter().map(|(a, b)| a * b).sum();
    let window = 1u64 << lz;
    let crosses = n as u64 > window;
    c.label(if crosses { "lincomb terms > 2^lz (several windows)" } else if n as u64 == window { "lincomb terms = 2^lz (one full window)" } else { "lincomb terms < 2^lz" });
    c.label(match n {
        1 => "lincomb 1 term",
        2..=4 => "lincomb 2..=4 terms",
        5..=16 => "lincomb 5..=16 terms",
        17..=39 => "lincomb 17..=39 terms",
        _ => "lincomb 40 terms",
    });
    c.nontrivial(crosses || (n >= 2 && exact >= m));
    let want = exact % &m;
    LinCase { ml, m, terms, want }
}

fn lincomb_modulus(t: &mut Tape, n: usize) -> Limbs {
    if t.chance(3, 4) {
        let lz = gens::pick_lz(t, n);
        gens::modulus_lz(t, n, lz)
    } else {
        gens::modulus(t, n).0
    }
}

fn boxed_lincomb_forms(v: &mut Verd, x: &Expect, lc: &LinCase) -> CaseResult {
    let n = lc.ml.len();
    let bparams = total("BoxedMontyParams::new_vartime", || BoxedMontyParams::new_vartime(odd_b(&lc.ml)))?;
    let bforms: Vec<(BoxedMontyForm, BoxedMontyForm)> =
        lc.terms.iter().map(|(a, b)| (BoxedMontyForm::new(b_of(a, n), bparams.clone()), BoxedMontyForm::new(b_of(b, n), bparams.clone()))).collect();
    let brefs: Vec<(&BoxedMontyForm, &BoxedMontyForm)> = bforms.iter().map(|(a, b)| (a, b)).collect();
    v.boxed("BoxedMontyForm::lincomb_vartime", x, || BoxedMontyForm::lincomb_vartime(&brefs))?;
    v.boxed("Monty::lincomb_vartime for BoxedMontyForm", x, || <BoxedMontyForm as Monty>::lincomb_vartime(&brefs))?;
    let bterms: Vec<(BoxedUint, BoxedUint)> = lc.terms.iter().map(|(a, b)| (b_of(a, n), b_of(b, n))).collect();
    v.boxed("Monty-generic lincomb_vartime (BoxedMontyForm)", x, || monty_lincomb::<BoxedMontyForm>(odd_b(&lc.ml), bterms))?;
    Ok(())
}

fn fixed_lincomb<const L: usize>(t: &mut Tape, c: &mut Case) -> CaseResult {
    let ml = lincomb_modulus(t, L);
    let lc = gen_lincomb_case(t, c, ml, L);
    let x = Expect::new(&lc.m, lc.want.clone(), L, false);
    let mut v = Verd::default();
    let params = total("MontyParams::new_vartime", || MontyParams::<L>::new_vartime(odd_u::<L>(&lc.ml)))?;
    let forms: Vec<(MontyForm<L>, MontyForm<L>)> = lc.terms.iter().map(|(a, b)| (MontyForm::new(&u_of::<L>(a), params), MontyForm::new(&u_of::<L>(b), params))).collect();
    let refs: Vec<(&MontyForm<L>, &MontyForm<L>)> = forms.iter().map(|(a, b)| (a, b)).collect();
    let r = total("MontyForm::lincomb_vartime", || MontyForm::lincomb_vartime(&refs))?;
    v.check("MontyForm::lincomb_vartime", &x, &r.mont(), &r.retr(), false)?;
    let r = total("Monty::lincomb_vartime", || <MontyForm<L> as Monty>::lincomb_vartime(&refs))?;
    v.check("Monty::lincomb_vartime for MontyForm", &x, &r.mont(), &r.retr(), false)?;
    let uterms: Vec<(Uint<L>, Uint<L>)> = lc.terms.iter().map(|(a, b)| (u_of::<L>(a), u_of::<L>(b))).collect();
    let r = total("Monty-generic lincomb_vartime (MontyForm)", || monty_lincomb::<MontyForm<L>>(odd_u::<L>(&lc.ml), uterms))?;
    let (mo, re) = monty_out(&r);
    v.check("Monty-generic lincomb_vartime (MontyForm)", &x, &mo, &re, false)?;
    boxed_lincomb_forms(&mut v, &x, &lc)?;
    // the same terms with parameter sets and values that went through constant-time selection against
    // those of a decoy modulus (another leading-zero count: another accumulation window)
    let dlz = gens::pick_lz(t, L);
    let dml = gens::modulus_lz(t, L, dlz);
    let decoy = total("MontyParams::new_vartime (decoy)", || MontyParams::<L>::new_vartime(odd_u::<L>(&dml)))?;
    let (yes, no) = (subtle::Choice::from(1u8), subtle::Choice::from(0u8));
    let sel = [
        ("MontyParams::conditional_select(decoy, p, 1)", MontyParams::conditional_select(&decoy, &params, yes)),
        ("MontyParams::conditional_select(p, decoy, 0)", MontyParams::conditional_select(&params, &decoy, no)),
    ];
    for (name, p) in sel.iter() {
        let forms: Vec<(MontyForm<L>, MontyForm<L>)> = lc.terms.iter().map(|(a, b)| (MontyForm::new(&u_of::<L>(a), *p), MontyForm::new(&u_of::<L>(b), *p))).collect();
        let refs: Vec<(&MontyForm<L>, &MontyForm<L>)> = forms.iter().map(|(a, b)| (a, b)).collect();
        let r = total("MontyForm::lincomb_vartime (selected params)", || MontyForm::lincomb_vartime(&refs))?;
        v.check(&format!("MontyForm::lincomb_vartime with {name}"), &x, &r.mont(), &r.retr(), false)?;
    }
    let dz = MontyForm::<L>::zero(decoy);
    let forms_sel: Vec<(MontyForm<L>, MontyForm<L>)> =
        forms.iter().map(|(a, b)| (MontyForm::conditional_select(&dz, a, yes), MontyForm::conditional_select(b, &dz, no))).collect();
    let refs: Vec<(&MontyForm<L>, &MontyForm<L>)> = forms_sel.iter().map(|(a, b)| (a, b)).collect();
    let r = total("MontyForm::lincomb_vartime (selected values)", || MontyForm::lincomb_vartime(&refs))?;
    v.check("MontyForm::lincomb_vartime over values from MontyForm::conditional_select", &x, &r.mont(), &r.retr(), false)?;
    v.finish()
}

// ------------------------------------------------------------------------------------------------
// compile-time modulus

type CtorFn<MOD, const L: usize> = fn(&Uint<L>) -> ConstMontyForm<MOD, L>;

fn const_params_agree<MOD: ConstMontyParams<L>, const L: usize>(ml: &[u64]) -> Result<(MontyParams<L>, BoxedMontyParams), Fail> {
    let dp = MontyParams::<L>::from_const_params::<MOD>();
    let rp = total("MontyParams::new_vartime", || MontyParams::<L>::new_vartime(odd_u::<L>(ml)))?;
    vensure!(dp == rp, "MontyParams::from_const_params differs from MontyParams::new_vartime: {:?} vs {:?}", dp, rp);
    let bp = BoxedMontyParams::from_const_params::<L, MOD>();
    let rbp = total("BoxedMontyParams::new_vartime", || BoxedMontyParams::new_vartime(odd_b(ml)))?;
    vensure!(bp == rbp, "BoxedMontyParams::from_const_params differs from BoxedMontyParams::new_vartime: {:?} vs {:?}", bp, rbp);
    Ok((dp, bp))
}

fn const_pow<MOD: ConstMontyParams<L>, const L: usize, const E: usize>(ctor: CtorFn<MOD, L>) -> impl Fn(&mut Tape, &mut Case) -> CaseResult {
    move |t, c| {
        let ml = ul(MOD::MODULUS.as_ref());
        let p = gen_pow_case(t, c, ml, None, L, E, true);
        let k = p.k as u32;
        let x = Expect::new(&p.m, opow(&p.base, &p.e, p.k, &p.m), L, p.k == 0);
        let mut v = Verd::default();
        let bu = u_of::<L>(&p.base);
        let f = total("ConstMontyForm::new", || ConstMontyForm::<MOD, L>::new(&bu))?;
        let f2 = total("const_monty_form!", || ctor(&bu))?;
        vensure!(f == f2, "const_monty_form! and ConstMontyForm::new disagree");
        let e = uint::<E>(&p.el);
        let r = total("ConstMontyForm::pow_bounded_exp", || f.pow_bounded_exp(&e, k))?;
        v.check("ConstMontyForm::pow_bounded_exp", &x, &r.mont(), &r.retr(), false)?;
        if p.k == 64 * E as u64 {
            let r = total("ConstMontyForm::pow", || f.pow(&e))?;
            v.check("ConstMontyForm::pow", &x, &r.mont(), &r.retr(), false)?;
        }
        pow_traits::<ConstMontyForm<MOD, L>, L, E>(&mut v, "ConstMontyForm", &x, &f, &e, k)?;
        // the same value through the runtime and boxed representations of the same parameters
        let (dp, bp) = const_params_agree::<MOD, L>(&p.ml)?;
        let d = MontyForm::<L>::from(&f);
        vensure!(*d.params() == dp, "From<&ConstMontyForm> for MontyForm: params differ from from_const_params");
        let rd = total("MontyForm::pow_bounded_exp (from const)", || d.pow_bounded_exp(&e, k))?;
        v.check("MontyForm::pow_bounded_exp (converted from ConstMontyForm)", &x, &rd.mont(), &rd.retr(), false)?;
        veq!(rd.mont(), r.mont(), "const and dyn pow_bounded_exp give different Montgomery representations");
        let bx = total("BoxedMontyForm::new", || BoxedMontyForm::new(b_of(&(&p.base % &p.m), L), bp))?;
        let be = boxed(&p.el);
        v.boxed("BoxedMontyForm::pow_bounded_exp (from_const_params)", &x, || bx.pow_bounded_exp(&be, k))?;
        v.finish()
    }
}

fn const_multi<MOD: ConstMontyParams<L>, const L: usize, const E: usize>(t: &mut Tape, c: &mut Case) -> CaseResult {
    let ml = ul(MOD::MODULUS.as_ref());
    let mc = gen_multi_case(t, c, ml, None, L, E);
    let k = mc.k as u32;
    let x = Expect::new(&mc.m, mc.want.clone(), L, mc.k == 0);
    let mut v = Verd::default();
    let terms: Vec<(ConstMontyForm<MOD, L>, Uint<E>)> = mc.bases.iter().zip(mc.exps.iter()).map(|(b, e)| (ConstMontyForm::<MOD, L>::new(&u_of::<L>(b)), uint::<E>(e))).collect();
    multi_forms::<ConstMontyForm<MOD, L>, L, E>(&mut v, "ConstMontyForm", &x, &terms, k)?;
    // runtime representation of the same terms
    let dterms: Vec<(MontyForm<L>, Uint<E>)> = terms.iter().map(|(f, e)| (MontyForm::<L>::from(f), *e)).collect();
    multi_forms::<MontyForm<L>, L, E>(&mut v, "MontyForm (from const)", &x, &dterms, k)?;
    v.finish()
}

fn const_lincomb<MOD: ConstMontyParams<L>, const L: usize>(t: &mut Tape, c: &mut Case) -> CaseResult {
    let ml = ul(MOD::MODULUS.as_ref());
    let lc = gen_lincomb_case(t, c, ml, L);
    let x = Expect::new(&lc.m, lc.want.clone(), L, false);
    let mut v = Verd::default();
    let forms: Vec<(ConstMontyForm<MOD, L>, ConstMontyForm<MOD, L>)> =
        lc.terms.iter().map(|(a, b)| (ConstMontyForm::<MOD, L>::new(&u_of::<L>(a)), ConstMontyForm::<MOD, L>::new(&u_of::<L>(b)))).collect();
    let r = total("ConstMontyForm::lincomb_vartime", || ConstMontyForm::<MOD, L>::lincomb_vartime(&forms))?;
    v.check("ConstMontyForm::lincomb_vartime", &x, &r.mont(), &r.retr(), false)?;
    let dforms: Vec<(MontyForm<L>, MontyForm<L>)> = forms.iter().map(|(a, b)| (MontyForm::<L>::from(a), MontyForm::<L>::from(b))).collect();
    let refs: Vec<(&MontyForm<L>, &MontyForm<L>)> = dforms.iter().map(|(a, b)| (a, b)).collect();
    let rd = total("MontyForm::lincomb_vartime (from const)", || MontyForm::lincomb_vartime(&refs))?;
    v.check("MontyForm::lincomb_vartime (converted from ConstMontyForm)", &x, &rd.mont(), &rd.retr(), false)?;
    boxed_lincomb_forms(&mut v, &x, &lc)?;
    v.finish()
}

// ------------------------------------------------------------------------------------------------
// boxed, runtime precision

const BOXED_BIASED: [usize; 10] = [1, 2, 3, 4, 5, 8, 9, 15, 16, 17];

fn boxed_len(t: &mut Tape, max: usize) -> usize {
    let n = match t.weighted(&[2, 1]) {
        0 => t.pick(&BOXED_BIASED),
        _ => t.usize_in(1, max),
    };
    n.min(max)
}

fn boxed_pow(max: usize) -> impl Fn(&mut Tape, &mut Case) -> CaseResult {
    move |t, c| {
        let n = boxed_len(t, max);
        let en = match t.weighted(&[3, 2, 2, 2]) {
            0 => n,
            1 => t.usize_in(1, n),
            2 => (n + t.usize_in(1, 3)).min(max + 1),
            _ => boxed_len(t, max + 1),
        };
        let (ml, mclass) = gens::modulus(t, n);
        let ct_params = t.bool();
        let p = gen_pow_case(t, c, ml, Some(mclass), n, en, false);
        c.label(if n <= 4 { "boxed 1..=4 limbs" } else if n <= 16 { "boxed 5..=16 limbs" } else { "boxed 17 limbs" });
        let x = Expect::new(&p.m, opow(&p.base, &p.e, p.k, &p.m), n, p.k == 0);
        let mut v = Verd::default();
        boxed_pow_forms(&mut v, &x, &p.ml, &p.base, &p.el, p.k as u32, ct_params, true)?;
        v.finish()
    }
}

fn boxed_allk(max: usize) -> impl Fn(&mut Tape, &mut Case) -> CaseResult {
    move |t, c| {
        let n = boxed_len(t, max);
        let en = t.usize_in(1, 2);
        let (ml, mclass) = gens::modulus(t, n);
        let m = big(&ml);
        let (base, bclass) = gens::base(t, &m, n, false);
        let (el, eclass) = gens::exponent(t, en);
        c.limbs("m", &ml);
        c.limbs("base", &limbs_of(&base, n));
        c.limbs("exponent", &el);
        c.label(mclass);
        c.label(bclass);
        c.label(eclass);
        c.label("all k in 0..=BITS(exponent)");
        let e = big(&el);
        c.nontrivial(!base.is_zero() && !base.is_one() && !e.is_zero());
        let mut v = Verd::default();
        let bparams = total("BoxedMontyParams::new_vartime", || BoxedMontyParams::new_vartime(odd_b(&ml)))?;
        let bx = total("BoxedMontyForm::new", || BoxedMontyForm::new(b_of(&base, n), bparams))?;
        let be = boxed(&el);
        for k in 0..=(64 * en as u32) {
            let x = Expect::new(&m, opow(&base, &e, k as u64, &m), n, k == 0);
            v.boxed(&format!("BoxedMontyForm::pow_bounded_exp(k={k})"), &x, || bx.pow_bounded_exp(&be, k))?;
        }
        v.finish()
    }
}

fn boxed_lincomb(max: usize) -> impl Fn(&mut Tape, &mut Case) -> CaseResult {
    move |t, c| {
        let n = boxed_len(t, max);
        let ml = lincomb_modulus(t, n);
        let lc = gen_lincomb_case(t, c, ml, n);
        let x = Expect::new(&lc.m, lc.want.clone(), n, false);
        let mut v = Verd::default();
        boxed_lincomb_forms(&mut v, &x, &lc)?;
        v.finish()
    }
}

/// Directed search (oracle-side model of the almost-Montgomery ladder, see `model.rs`) for inputs
/// on which the boxed accumulator leaves the loop at or above 2m, so that the *second* final
/// conditional subtraction is needed: m in about [0.42 R, 0.495 R], three exponent windows, the
/// last one selecting the largest table entry.
fn boxed_pow_double_reduction(max: usize) -> impl Fn(&mut Tape, &mut Case) -> CaseResult {
    move |t, c| {
        let n = match t.weighted(&[6, 2, 1]) {
            0 => t.usize_in(1, 4),
            1 => t.usize_in(5, 9),
            _ => t.usize_in(10, max),
        };
        let mut ml = t.expand(n);
        ml[n - 1] = t.range(0x6B85_1EB8_51EB_851F, 0x7EB8_51EB_851E_B851);
        ml[0] |= 1;
        let m = big(&ml);
        let base = big(&t.expand(n + 1)) % &m;
        let x_mont = (&base << (64 * n)) % &m;
        let amm = model::Amm::new(&m, n);
        let (off1, off2) = (t.below(15), t.below(16));
        let (e, found) = amm.search_double_reduction(&x_mont, off1, off2);
        let en = match t.weighted(&[2, 1, 1]) {
            0 => 1,
            1 => 2,
            _ => n,
        };
        let mut el = vec![0u64; en];
        el[0] = e;
        let k = 12u64;
        c.limbs("m", &ml);
        c.limbs("base", &limbs_of(&base, n));
        c.limbs("exponent", &el);
        c.num("exponent_bits", k);
        c.label(if found { "model: boxed accumulator >= 2m after the loop (second final subtraction needed)" } else { "model: accumulator >= 2m not reached" });
        c.label(if n <= 4 { "boxed 1..=4 limbs" } else if n <= 16 { "boxed 5..=16 limbs" } else { "boxed 17 limbs" });
        c.nontrivial(found);
        let x = Expect::new(&m, opow(&base, &big(&el), k, &m), n, false);
        let mut v = Verd::default();
        boxed_pow_forms(&mut v, &x, &ml, &base, &el, k as u32, false, true)?;
        // the same exponent with every bound that still covers its 12 bits and one that cuts it
        let bparams = total("BoxedMontyParams::new", || BoxedMontyParams::new(odd_b(&ml)))?;
        let bx = total("BoxedMontyForm::new", || BoxedMontyForm::new(b_of(&base, n), bparams))?;
        let be = boxed(&el);
        for k2 in [11u64, 13, 16, 64 * en as u64] {
            let x2 = Expect::new(&m, opow(&base, &big(&el), k2, &m), n, false);
            v.boxed(&format!("BoxedMontyForm::pow_bounded_exp(k={k2})"), &x2, || bx.pow_bounded_exp(&be, k2 as u32))?;
        }
        v.finish()
    }
}

/// Exponentiation whose result is 0 (mod m) only because of the LAST window: m = p^k * c with one
/// leading zero bit, base = p * c * beta, exponent = 0x10 | i2 with 16 + i2 >= k > 16. All earlier
/// ladder values are non-zero residues; the final product is a multiple of m, so an almost-reduced
/// accumulator ends on exactly 0, m or 2m — the boundary values of the final conditional subtractions.
fn boxed_pow_late_zero(max: usize) -> impl Fn(&mut Tape, &mut Case) -> CaseResult {
    move |t, c| {
        let n = match t.weighted(&[6, 2, 1]) {
            0 => t.usize_in(1, 4),
            1 => t.usize_in(5, 9),
            _ => t.usize_in(10, max),
        };
        let p = BigUint::from(t.pick(&[3u32, 5, 7]));
        let k = t.range(17, 22) as u32;
        let pk = num_traits::pow(p.clone(), k as usize);
        // m = p^k * c in [0.42 R, 0.495 R): choose the target, divide, make c odd and coprime to p
        let r = pow2(64 * n as u64);
        let lo = (&r * 42u32) / 100u32;
        let span = (&r * 7u32) / 100u32;
        let target = lo + big(&t.expand(n)) % span;
        let mut cfac = &target / &pk;
        if !cfac.bit(0) {
            cfac += 1u32;
        }
        while (&cfac % &p).is_zero() {
            cfac += 2u32;
        }
        let m = &pk * &cfac;
        if m.bits() != 64 * n as u64 - 1 {
            c.skip();
            return Ok(());
        }
        let ml = limbs_exact(&m, n);
        let beta = big(&t.expand(n)) | BigUint::one();
        let base = (&p * &cfac * beta) % &m;
        let i2 = t.range((k - 16) as u64, 15);
        let e = 0x10 | i2;
        let el = vec![e];
        c.limbs("m", &ml);
        c.limbs("base", &limbs_of(&base, n));
        c.limbs("exponent", &el);
        c.label("late zero: base^e = 0 (mod m) through the last window only");
        c.label(if n <= 4 { "boxed 1..=4 limbs" } else if n <= 16 { "boxed 5..=16 limbs" } else { "boxed 17 limbs" });
        let want = opow(&base, &big(&el), 64, &m);
        c.nontrivial(want.is_zero() && !base.is_zero());
        let x = Expect::new(&m, want, n, false);
        let mut v = Verd::default();
        boxed_pow_forms(&mut v, &x, &ml, &base, &el, 8, false, true)?;
        let bparams = total("BoxedMontyParams::new", || BoxedMontyParams::new(odd_b(&ml)))?;
        let bx = total("BoxedMontyForm::new", || BoxedMontyForm::new(b_of(&base, n), bparams))?;
        let be = boxed(&el);
        for k2 in [5u64, 6, 12, 64] {
            let x2 = Expect::new(&m, opow(&base, &big(&el), k2, &m), n, false);
            v.boxed(&format!("BoxedMontyForm::pow_bounded_exp(k={k2})"), &x2, || bx.pow_bounded_exp(&be, k2 as u32))?;
        }
        v.finish()
    }
}

// ------------------------------------------------------------------------------------------------

macro_rules! dyn_pow {
    ($v:ident; $(($l:literal, $w:literal, $e:literal, $q:expr)),*) => { $(
        $v.push(SubCheck::new(format!("dyn/pow/U{}^U{}", 64*$l, 64*$e), $q, fixed_pow::<$l, $w, $e>).tape(2 * (2 * $l + $e + 40)));
    )* };
}
macro_rules! dyn_allk {
    ($v:ident; $(($l:literal, $e:literal, $q:expr)),*) => { $(
        $v.push(SubCheck::new(format!("dyn/pow-allk/U{}^U{}", 64*$l, 64*$e), $q, fixed_allk::<$l, $e>).tape(2 * (2 * $l + $e + 40)).thorough(10));
    )* };
}
macro_rules! dyn_multi {
    ($v:ident; $(($l:literal, $e:literal, $q:expr)),*) => { $(
        $v.push(SubCheck::new(format!("dyn/multiexp/U{}^U{}", 64*$l, 64*$e), $q, fixed_multi::<$l, $e>).tape(2 * ($l + 5 * ($l + $e + 24) + 30)));
    )* };
}
macro_rules! dyn_lincomb {
    ($v:ident; $(($l:literal, $q:expr)),*) => { $(
        $v.push(SubCheck::new(format!("dyn/lincomb/U{}", 64*$l), $q, fixed_lincomb::<$l>).tape(2 * ($l + 30 + 40 * 6)));
    )* };
}
macro_rules! const_mod {
    ($v:ident; $(($name:ident, $l:literal, $e:literal, $qp:expr, $qm:expr, $ql:expr)),*) => { $(
        {
            use moduli::$name;
            fn ctor(b: &Uint<$l>) -> ConstMontyForm<$name, $l> {
                let v = *b;
                crypto_bigint::const_monty_form!(v, $name)
            }
            $v.push(SubCheck::new(format!("const/pow/{}^U{}", stringify!($name), 64*$e), $qp, const_pow::<$name, $l, $e>(ctor)).tape(2 * ($l + $e + 40)));
            $v.push(SubCheck::new(format!("const/multiexp/{}^U{}", stringify!($name), 64*$e), $qm, const_multi::<$name, $l, $e>).tape(2 * (5 * ($l + $e + 24) + 30)));
            $v.push(SubCheck::new(format!("const/lincomb/{}", stringify!($name)), $ql, const_lincomb::<$name, $l>).tape(2 * (30 + 40 * 6)));
        }
    )* };
}

fn subchecks(_ctx: &Ctx) -> Vec<SubCheck> {
    let mut v = vec![];
    dyn_pow!(v;
        (1, 2, 1, 24000), (1, 2, 2, 16000), (1, 2, 4, 8000),
        (2, 4, 1, 16000), (2, 4, 2, 16000), (2, 4, 3, 8000),
        (4, 8, 1, 8000), (4, 8, 4, 10000), (4, 8, 8, 4000),
        (8, 16, 2, 4000), (8, 16, 8, 3200),
        (16, 32, 4, 2000), (16, 32, 16, 1200), (2, 4, 16, 2000));
    dyn_allk!(v; (1, 1, 4500), (1, 2, 2400), (2, 1, 3600), (2, 2, 2400), (4, 1, 1800), (4, 2, 1200), (8, 2, 450), (16, 1, 300));
    dyn_multi!(v; (1, 1, 16000), (1, 2, 8000), (2, 2, 10000), (4, 1, 6000), (4, 4, 6000), (8, 8, 1600), (16, 4, 1200), (16, 16, 400));
    dyn_lincomb!(v; (1, 48000), (2, 40000), (4, 32000), (8, 16000), (16, 8000));
    const_mod!(v;
        (M64One, 1, 1, 300, 150, 100),
        (M64Three, 1, 2, 6000, 2400, 2400),
        (M64Max, 1, 1, 7500, 3000, 6000),
        (M64HalfP1, 1, 1, 7500, 3000, 6000),
        (M64Third, 1, 1, 7500, 3000, 6000),
        (M64Lz3, 1, 1, 6000, 2400, 6000),
        (M128HalfP1, 2, 2, 6000, 2400, 4500),
        (M128ZeroHigh, 2, 1, 6000, 2400, 3000),
        (M128Lz2, 2, 3, 4500, 1800, 6000),
        (M256P256Order, 4, 4, 4500, 1800, 4500),
        (M256Lz1, 4, 4, 3600, 1500, 6000),
        (M256Lz5, 4, 2, 4500, 1500, 6000),
        (M256Rand, 4, 5, 3000, 1200, 3000),
        (M512Third, 8, 8, 1500, 600, 3000),
        (M512Max, 8, 1, 3000, 900, 3000),
        (M1024Rand, 16, 16, 600, 180, 1800),
        (M1024QuarterP1, 16, 2, 1200, 450, 1800));
    v.push(SubCheck::new("boxed/pow/1..=17", 24000, boxed_pow(17)).tape(2 * (2 * 17 + 18 + 50)));
    v.push(SubCheck::new("boxed/pow-allk/1..=17", 3600, boxed_allk(17)).tape(2 * (2 * 17 + 2 + 50)).thorough(10));
    v.push(SubCheck::new("boxed/lincomb/1..=17", 30000, boxed_lincomb(17)).tape(2 * (17 + 30 + 40 * 6)));
    v.push(SubCheck::new("boxed/pow-double-reduction/1..=17", 6000, boxed_pow_double_reduction(17)).tape(24).thorough(10));
    v.push(SubCheck::new("boxed/pow-late-zero/1..=17", 4000, boxed_pow_late_zero(17)).tape(48).thorough(10));
    // API-surface audit (/verif/audit/E.md): appended last so that existing sub-check indices stay stable
    v.extend(surface::subchecks());
    v
}
