//! Compile-time moduli (`impl_modulus!`) used by the `ConstMontyForm` sub-checks. Chosen to span
//! the adversarial classes of the quantifier: 1, 3, 2^B-1, 2^(B-1)+1, ~R/3, ~R/4, zero high limbs,
//! 0/1/2/3/5 leading zero bits (lincomb window sizes 1, 2, 4, 8, 32), P-256 order, random odd.

use crypto_bigint::{impl_modulus, U1024, U128, U256, U512, U64};

impl_modulus!(M64One, U64, "0000000000000001");
impl_modulus!(M64Three, U64, "0000000000000003");
impl_modulus!(M64Max, U64, "ffffffffffffffff");
impl_modulus!(M64HalfP1, U64, "8000000000000001");
impl_modulus!(M64Third, U64, "5555555555555555");
impl_modulus!(M64Lz3, U64, "1fffffffffffffff");

impl_modulus!(M128HalfP1, U128, "80000000000000000000000000000001");
impl_modulus!(M128ZeroHigh, U128, "0000000000000000ffffffffffffffc5");
impl_modulus!(M128Lz2, U128, "3fffffffffffffffffffffffffffffff");

impl_modulus!(M256P256Order, U256, "ffffffff00000000ffffffffffffffffbce6faada7179e84f3b9cac2fc632551");
impl_modulus!(M256Lz1, U256, "7fffffff00000000ffffffffffffffffbce6faada7179e84f3b9cac2fc632551");
impl_modulus!(M256Lz5, U256, "07ffffffffffffffffffffffffffffffffffffffffffffffffffffffffffffed");
impl_modulus!(M256Rand, U256, "9CC24C5DF431A864188AB905AC751B727C9447A8E99E6366E1AD78A21E8D882B");

impl_modulus!(
    M512Third,
    U512,
    "55555555555555555555555555555555555555555555555555555555555555555555555555555555555555555555555555555555555555555555555555555555"
);
impl_modulus!(
    M512Max,
    U512,
    "ffffffffffffffffffffffffffffffffffffffffffffffffffffffffffffffffffffffffffffffffffffffffffffffffffffffffffffffffffffffffffffffff"
);

impl_modulus!(
    M1024Rand,
    U1024,
    "d8ec893363aa3127bc9c8b439c401fababd22e87106f0df68e66ee06f13f4597ba1c7420cd1821326c9bcb449eb746ef76c8d4803cad122c7ceaaf84839ff007683a148dfe18448aac6e80a860099d0cfdc9763f4a09e1559fdf94cac351d72002750c403c9862ad3683f69ad0a283d5a6336d8f65befd74a9fa98df34b9f2c7"
);
impl_modulus!(
    M1024QuarterP1,
    U1024,
    "4000000000000000000000000000000000000000000000000000000000000000000000000000000000000000000000000000000000000000000000000000000000000000000000000000000000000000000000000000000000000000000000000000000000000000000000000000000000000000000000000000000000000001"
);
