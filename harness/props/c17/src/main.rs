fn main() {
    vmodel::cli_main(c17::spec())
}
