//! C17 — radix strings: canonical output, exact parse, overflow always reported.
//!
//! Oracle: `num_bigint::BigUint::to_str_radix` for formatting; for parsing an independent digit
//! evaluator (`oracle::evaluate`) that decides {numeral denoting v | empty | invalid} from the
//! documented grammar (`['+'] digit ('_'? digit)*`, either letter case), then the documented
//! outcome for the target (`Ok(v)` iff it fits; `InputSize` / `Precision` iff it does not;
//! `Empty` / `InvalidDigit` iff it is not a numeral).
//!
//! APIs: `Uint::{from_str_radix_vartime, to_string_radix_vartime}`, `num_traits::Num::from_str_radix`
//! for `Uint`, `BoxedUint::{from_str_radix_vartime, from_str_radix_with_precision_vartime,
//! to_string_radix_vartime}`. (Int, Limb, NonZero, Odd, Wrapping, Checked have no radix API.)

pub mod oracle;
pub mod strings;
mod surface;

use crypto_bigint::{BoxedUint, DecodeError, Uint};
use num_bigint::BigUint;
use num_traits::{Num, Zero};
use oracle::{batch, evaluate, f17a_signature, sig_digits, Den};
use vmodel::*;

pub fn spec() -> PropSpec {
    PropSpec {
        id: "C17",
        rule: "cases: (a) round trip — a primary radix drawn from 2..=36 and a value of the target width built for that radix (0, 1, 2^BITS-1-{0,1,2}, radix^j, radix^j±1 with j biased to 0..2 / multiples of the per-limb digit batch ±1 / the largest exponent, sparse digits, q*radix^batch+r with a quotient limb at radix^batch±{0,1}, shapes L/T/Z, mixture); the value is formatted in EVERY radix 2..=36 and compared with BigUint::to_str_radix, the canonical numeral is parsed back by every parse API, and in the primary radix three legitimate spellings (optional '+', leading zeros, single interior underscores by grouping / few / mask, lower / UPPER / mixed case) are parsed; (b) parse — a string (decorated numeral of a value at / around 2^BITS of the target: 2^BITS, 2^BITS±1, 2^BITS+word, neighbouring powers of the radix, one limb too wide, multiples of 2^BITS, in range; the same spoiled by a leading / trailing / doubled underscore, a digit >= radix, an ASCII neighbour of the digit ranges, punctuation, non-ASCII, a second '+'; fixed specials such as \"\", \"+\", \"_\"; random strings over [0-9a-zA-Z_+]; arbitrary bytes) is classified by an independent digit evaluator and every parse API must give the documented outcome. per-limb batch(radix) = 64/log2(radix) for radix 2, 4, 16, else the largest j with radix^j <= 2^64-1. non-trivial: the digit count (alphanumerics after an optional '+' and leading zeros / underscores) is not a multiple of batch(radix), OR the denoted value is within 1 of 2^BITS of the target (2^BITS-1, 2^BITS, 2^BITS+1), OR the target has more than 32 limbs; surface/* sub-checks: the same two case kinds at 5, 6, 7, 9, 17, 31, 32, 33 limbs, and formatting through the Deref of NonZero / Odd (fixed and boxed) plus parsing through a function generic over num_traits::Num (same rule). distinct by (radix, value limbs, spellings) resp. (radix, target limbs, string).",
        assumptions: vec![
            "num-bigint to_str_radix / from_radix_be are correct (independent implementation)".into(),
            "grammar taken from the item docs: optional leading '+', underscores separate digits (interior, single); a doubled interior underscore is unspecified: the denoted value or InvalidDigit are both accepted".into(),
            "from_str_radix_with_precision_vartime: value beyond the limb capacity (bits_precision rounded up to 64) must give InputSize; beyond bits_precision rounded up to 8 but within the limbs either InputSize or Precision is accepted (the doc sentence about the byte length is ambiguous for strings); beyond bits_precision only: Precision; bits_precision = 0: any of the two".into(),
            "bridging uses from_words/as_words only".into(),
        ],
        subchecks,
    }
}

// ------------------------------------------------------------------------------------------------
// helpers

fn show(s: &str) -> String {
    let n = s.chars().count();
    if n <= 100 {
        format!("{s:?}")
    } else {
        let head: String = s.chars().take(60).collect();
        let tail: String = s.chars().skip(n - 30).collect();
        format!("{head:?}…{tail:?} ({n} chars)")
    }
}

type Parsed = Result<Limbs, DecodeError>;

#[derive(Clone, Copy)]
enum Target {
    /// fixed capacity of n limbs, no precision argument (Uint<N>)
    Limbs(usize),
    /// unbounded (BoxedUint::from_str_radix_vartime)
    Unbounded,
    /// BoxedUint::from_str_radix_with_precision_vartime(bits_precision)
    Precision(u32),
}

/// Compare the outcome of one parse API with the documented outcome for what the string denotes.
fn judge(api: &str, s: &str, radix: u32, den: &Den, target: Target, got: &Parsed) -> CaseResult {
    use DecodeError::*;
    let cap_limbs = match target {
        Target::Limbs(n) => Some(n),
        Target::Unbounded => None,
        Target::Precision(p) => Some((p.div_ceil(64) as usize).max(1)),
    };
    let describe = |g: &Parsed| match g {
        Ok(l) => format!("Ok({:x})", big(l)),
        Err(e) => format!("Err({e:?})"),
    };
    match den {
        Den::Empty => vensure!(*got == Err(Empty), "{api}({}, radix {radix}): empty input must give Err(Empty), got {}", show(s), describe(got)),
        Den::Invalid => {
            if *got == Err(InputSize) {
                if let Some(cl) = cap_limbs {
                    if f17a_signature(s, radix, cl) {
                        return Err(Fail::known(
                            "F-17a",
                            format!("{api}({}, radix {radix}) [{cl} limbs]: not a numeral (invalid character) but Err(InputSize) is reported instead of the documented Err(InvalidDigit), because the digits met before the invalid character already overflow", show(s)),
                        ));
                    }
                }
            }
            vensure!(*got == Err(InvalidDigit), "{api}({}, radix {radix}): not a numeral, must give Err(InvalidDigit), got {}", show(s), describe(got));
        }
        Den::Numeral { v, doubled } => {
            if *doubled && *got == Err(InvalidDigit) {
                return Ok(()); // unspecified by the docs: rejection of a doubled underscore is allowed
            }
            let bits = v.bits();
            let (allow_ok, allow_is, allow_pr) = match target {
                Target::Unbounded => (true, false, false),
                Target::Limbs(n) => {
                    if bits > 64 * n as u64 {
                        (false, true, false)
                    } else {
                        (true, false, false)
                    }
                }
                Target::Precision(p) => {
                    let (c8, lc) = (8 * (p as u64).div_ceil(8), 64 * (p as u64).div_ceil(64));
                    if bits <= p as u64 {
                        (true, false, false)
                    } else if p == 0 {
                        (false, true, true)
                    } else if bits > lc {
                        (false, true, false)
                    } else if bits > c8 {
                        (false, true, true)
                    } else {
                        (false, false, true)
                    }
                }
            };
            let want = || {
                let mut w = vec![];
                if allow_ok {
                    w.push(format!("Ok({v:x})"));
                }
                if allow_is {
                    w.push("Err(InputSize)".into());
                }
                if allow_pr {
                    w.push("Err(Precision)".into());
                }
                if *doubled {
                    w.push("Err(InvalidDigit)".into());
                }
                w.join(" or ")
            };
            let ok = match got {
                Ok(l) => allow_ok && big(l) == *v,
                Err(InputSize) => allow_is,
                Err(Precision) => allow_pr,
                Err(_) => false,
            };
            vensure!(ok, "{api}({}, radix {radix}): numeral of a {bits}-bit value: got {}, want {}", show(s), describe(got), want());
        }
    }
    Ok(())
}

fn radix_label(radix: u32) -> String {
    format!("radix {radix:02}")
}

fn draw_radix(t: &mut Tape) -> u32 {
    2 + t.below(35) as u32
}

/// Non-triviality rule of `PropSpec::rule`.
fn nontrivial(c: &mut Case, radix: u32, digits: usize, v: Option<&BigUint>, target_limbs: usize) {
    let a = digits % batch(radix) != 0;
    let b = v.map_or(false, |v| {
        let cap = pow2(64 * target_limbs as u64);
        let lo = &cap - 1u32;
        let hi = &cap + 1u32;
        *v >= lo && *v <= hi
    });
    let l = target_limbs > 32;
    if a {
        c.label("NT: digit count not a multiple of the per-limb batch");
    }
    if b {
        c.label("NT: value within 1 of 2^BITS");
    }
    if l {
        c.label("NT: more than 32 limbs (large-divisor encoder)");
    }
    c.nontrivial(a || b || l);
}

fn deco_labels(c: &mut Case, d: &strings::Deco) {
    if d.plus {
        c.label("spelling: leading '+'");
    }
    if d.zeros > 0 {
        c.label("spelling: leading zeros");
    }
    if d.underscores {
        c.label("spelling: interior underscores");
    }
    if d.upper {
        c.label("spelling: uppercase digits");
    }
    if !(d.plus || d.zeros > 0 || d.underscores || d.upper) {
        c.label("spelling: canonical");
    }
}

fn outcome_labels(c: &mut Case, den: &Den, target_limbs: usize) {
    match den {
        Den::Empty => c.label("string: empty / lone '+'"),
        Den::Invalid => c.label("string: not a numeral"),
        Den::Numeral { v, doubled } => {
            if *doubled {
                c.label("string: numeral with doubled underscore");
            }
            let cap_bits = 64 * target_limbs as u64;
            if *v == pow2(cap_bits) {
                c.label("string: numeral of exactly 2^BITS");
            } else if *v == mask(cap_bits) {
                c.label("string: numeral of exactly 2^BITS-1");
            }
            if v.bits() > cap_bits {
                c.label("string: numeral that does not fit");
            } else {
                c.label("string: numeral that fits");
            }
        }
    }
}

/// A string for a parse check against a target of `cap_bits` bits.
fn parse_string(t: &mut Tape, c: &mut Case, radix: u32, cap_bits: u64) -> String {
    let digits_cap = oracle::jmax(radix, cap_bits) as usize + 1;
    match t.weighted(&[6, 5, 1, 3, 1]) {
        k @ (0 | 1) => {
            let (v, class) = strings::around_cap(t, radix, cap_bits);
            c.label(class);
            let (s, d) = strings::decorate(t, &v.to_str_radix(radix), radix);
            deco_labels(c, &d);
            if k == 0 {
                s
            } else {
                let (s2, how) = strings::spoil(t, &s, radix);
                c.label(how);
                s2
            }
        }
        2 => {
            c.label("string source: fixed special");
            t.pick(&strings::SPECIALS).to_string()
        }
        3 => {
            let (s, how) = strings::alphabet_string(t, radix, digits_cap + batch(radix) + 2);
            c.label(how);
            s
        }
        _ => {
            let (s, how) = strings::byte_string(t, 40);
            c.label(how);
            s
        }
    }
}

// ------------------------------------------------------------------------------------------------
// fixed widths

fn fixed_parse_all<const N: usize>(s: &str, radix: u32, den: &Den) -> CaseResult {
    let got: Parsed = total("Uint::from_str_radix_vartime", || Uint::<N>::from_str_radix_vartime(s, radix))?.map(|u| ul(&u));
    judge(&format!("Uint<{N}>::from_str_radix_vartime"), s, radix, den, Target::Limbs(N), &got)?;
    let got2: Parsed = total("Num::from_str_radix", || <Uint<N> as Num>::from_str_radix(s, radix))?.map(|u| ul(&u));
    judge(&format!("<Uint<{N}> as Num>::from_str_radix"), s, radix, den, Target::Limbs(N), &got2)?;
    Ok(())
}

fn fixed_roundtrip<const N: usize>(t: &mut Tape, c: &mut Case) -> CaseResult {
    let radix = draw_radix(t);
    let (vl, class) = strings::value(t, N, radix);
    c.num("radix", radix as u64);
    c.limbs("x", &vl);
    c.label(class);
    c.label(radix_label(radix));
    let x = uint::<N>(&vl);
    let v = big(&vl);
    let canon = v.to_str_radix(radix);
    nontrivial(c, radix, sig_digits(&canon), Some(&v), N);

    for r in 2..=36u32 {
        let want = v.to_str_radix(r);
        let got = total("Uint::to_string_radix_vartime", || x.to_string_radix_vartime(r))?;
        vensure!(got == want, "Uint<{N}>::to_string_radix_vartime(radix {r}): got {}, want {}", show(&got), show(&want));
        let den = Den::Numeral { v: v.clone(), doubled: false };
        fixed_parse_all::<N>(&want, r, &den)?;
    }
    for _ in 0..3 {
        let (s, d) = strings::decorate(t, &canon, radix);
        c.text("spelling", &s);
        deco_labels(c, &d);
        let den = evaluate(&s, radix);
        assert!(den == Den::Numeral { v: v.clone(), doubled: false }, "harness: a decoration changed the denoted value: {s:?}");
        fixed_parse_all::<N>(&s, radix, &den)?;
    }
    Ok(())
}

fn fixed_parse<const N: usize>(t: &mut Tape, c: &mut Case) -> CaseResult {
    let radix = draw_radix(t);
    c.num("radix", radix as u64);
    c.label(radix_label(radix));
    let s = parse_string(t, c, radix, 64 * N as u64);
    c.text("s", &s);
    let den = evaluate(&s, radix);
    outcome_labels(c, &den, N);
    let v = if let Den::Numeral { v, .. } = &den { Some(v) } else { None };
    nontrivial(c, radix, sig_digits(&s), v, N);
    fixed_parse_all::<N>(&s, radix, &den)
}

// ------------------------------------------------------------------------------------------------
// boxed

const BOXED_BIASED: [usize; 26] = [1, 2, 3, 4, 8, 16, 31, 32, 33, 34, 40, 62, 63, 64, 65, 66, 94, 95, 96, 97, 127, 128, 129, 130, 139, 140];

fn boxed_len(t: &mut Tape, max: usize) -> usize {
    // index 0 (the shrink target) is the smallest length of the biased list that is allowed
    let biased: Vec<usize> = if max > 40 { BOXED_BIASED.iter().copied().filter(|&n| n >= 31 && n <= max).collect() } else { BOXED_BIASED.iter().copied().filter(|&n| n <= max).collect() };
    match t.weighted(&[3, 2]) {
        0 => t.pick(&biased),
        _ => t.usize_in(1, max),
    }
}

/// `BoxedUint::from_str_radix_vartime` with the F-17 signature matcher.
fn boxed_unbounded(s: &str, radix: u32, den: &Den) -> Result<Option<BoxedUint>, Fail> {
    let r = total("BoxedUint::from_str_radix_vartime", || BoxedUint::from_str_radix_vartime(s, radix))?;
    if let Ok(x) = &r {
        if x.nlimbs() == 0 {
            let zero = matches!(den, Den::Numeral { v, .. } if v.is_zero());
            let fmt = guard(|| x.to_string_radix_vartime(radix));
            let f17_result = match &fmt {
                Ok(out) => out.is_empty(),
                Err(_) => true,
            };
            if zero && f17_result {
                return Err(Fail::known(
                    "F-17",
                    format!("BoxedUint::from_str_radix_vartime({}, radix {radix}) returned a value with zero limbs; formatting it gives {:?} instead of \"0\"", show(s), fmt),
                ));
            }
            vfail!("BoxedUint::from_str_radix_vartime({}, radix {radix}) returned a value with zero limbs (formatting it gives {:?})", show(s), fmt);
        }
    }
    let got: Parsed = r.as_ref().map(|x| bl(x)).map_err(|e| *e);
    judge("BoxedUint::from_str_radix_vartime", s, radix, den, Target::Unbounded, &got)?;
    Ok(r.ok())
}

/// `BoxedUint::from_str_radix_with_precision_vartime`
fn boxed_precision(s: &str, radix: u32, den: &Den, p: u32) -> Result<Option<BoxedUint>, Fail> {
    let r = total("BoxedUint::from_str_radix_with_precision_vartime", || BoxedUint::from_str_radix_with_precision_vartime(s, radix, p))?;
    let got: Parsed = r.as_ref().map(|x| bl(x)).map_err(|e| *e);
    judge(&format!("BoxedUint::from_str_radix_with_precision_vartime(bits_precision = {p})"), s, radix, den, Target::Precision(p), &got)?;
    if let Ok(x) = &r {
        if p > 0 {
            // "created with bits_precision rounded up to a multiple of Limb::BITS"
            veq!(x.nlimbs(), p.div_ceil(64) as usize, "from_str_radix_with_precision_vartime({}, radix {radix}, {p}): limbs of the result", show(s));
        } else {
            vensure!(x.nlimbs() >= 1, "from_str_radix_with_precision_vartime({}, radix {radix}, 0) returned a value with zero limbs", show(s));
        }
    }
    Ok(r.ok())
}

/// A parsed value must format back to the canonical numeral of the denoted value.
fn reformat(what: &str, x: &Option<BoxedUint>, den: &Den, radix: u32) -> CaseResult {
    if let (Some(x), Den::Numeral { v, .. }) = (x, den) {
        let want = v.to_str_radix(radix);
        let got = total("BoxedUint::to_string_radix_vartime", || x.to_string_radix_vartime(radix))?;
        vensure!(got == want, "{what}: result ({} limbs) formats in radix {radix} as {}, want {}", x.nlimbs(), show(&got), show(&want));
    }
    Ok(())
}

fn precisions(t: &mut Tape, den: &Den, n: usize) -> Vec<u32> {
    let full = 64 * n as u32;
    let mut ps = vec![full, full - 1 - t.below(63) as u32, t.range(0, full as u64 + 64) as u32];
    if let Den::Numeral { v, .. } = den {
        let b = v.bits().min(64 * 300) as u32;
        let pick = match t.weighted(&[3, 3, 2, 2, 2, 1]) {
            0 => b,
            1 => b.saturating_sub(1),
            2 => b + 1,
            3 => b.div_ceil(64) * 64,
            4 => (b.div_ceil(64) * 64).saturating_sub(64),
            _ => b.div_ceil(8) * 8,
        };
        ps.push(pick);
        ps.push(b.saturating_sub(1 + t.below(70) as u32));
    }
    if t.chance(1, 8) {
        ps.push(0);
    }
    ps
}

fn boxed_roundtrip_case(max: usize) -> impl Fn(&mut Tape, &mut Case) -> CaseResult {
    move |t, c| {
        let n = boxed_len(t, max);
        let radix = draw_radix(t);
        let (vl, class) = strings::value(t, n, radix);
        c.num("radix", radix as u64);
        c.limbs("x", &vl);
        c.label(class);
        c.label(radix_label(radix));
        if n > 128 {
            c.label("boxed: more than 128 limbs (heap work buffer)");
        }
        if n > 32 && bit_len(&vl) <= 64 * 31 {
            c.label("boxed: small value in a type wider than 32 limbs");
        }
        let x = boxed(&vl);
        let v = big(&vl);
        let canon = v.to_str_radix(radix);
        nontrivial(c, radix, sig_digits(&canon), Some(&v), n);

        let den = Den::Numeral { v: v.clone(), doubled: false };
        for r in 2..=36u32 {
            let want = v.to_str_radix(r);
            let got = total("BoxedUint::to_string_radix_vartime", || x.to_string_radix_vartime(r))?;
            vensure!(got == want, "BoxedUint({n} limbs)::to_string_radix_vartime(radix {r}): got {}, want {}", show(&got), show(&want));
            boxed_unbounded(&want, r, &den)?;
            boxed_precision(&want, r, &den, 64 * n as u32)?;
        }
        for _ in 0..2 {
            let (s, d) = strings::decorate(t, &canon, radix);
            c.text("spelling", &s);
            deco_labels(c, &d);
            let den = evaluate(&s, radix);
            assert!(den == Den::Numeral { v: v.clone(), doubled: false }, "harness: a decoration changed the denoted value: {s:?}");
            let y = boxed_unbounded(&s, radix, &den)?;
            reformat("from_str_radix_vartime", &y, &den, radix)?;
            for p in precisions(t, &den, n) {
                c.num("bits_precision", p as u64);
                let y = boxed_precision(&s, radix, &den, p)?;
                reformat("from_str_radix_with_precision_vartime", &y, &den, radix)?;
            }
        }
        Ok(())
    }
}

fn boxed_parse_case(max: usize) -> impl Fn(&mut Tape, &mut Case) -> CaseResult {
    move |t, c| {
        let n = boxed_len(t, max);
        let radix = draw_radix(t);
        c.num("radix", radix as u64);
        c.num("target limbs", n as u64);
        c.label(radix_label(radix));
        let s = parse_string(t, c, radix, 64 * n as u64);
        c.text("s", &s);
        let den = evaluate(&s, radix);
        outcome_labels(c, &den, n);
        let v = if let Den::Numeral { v, .. } = &den { Some(v) } else { None };
        nontrivial(c, radix, sig_digits(&s), v, n);

        let y = boxed_unbounded(&s, radix, &den)?;
        reformat("from_str_radix_vartime", &y, &den, radix)?;
        for p in precisions(t, &den, n) {
            c.num("bits_precision", p as u64);
            let y = boxed_precision(&s, radix, &den, p)?;
            reformat("from_str_radix_with_precision_vartime", &y, &den, radix)?;
        }
        Ok(())
    }
}

// ------------------------------------------------------------------------------------------------

macro_rules! fixed {
    ($v:ident, $qr:expr, $qp:expr; $($n:literal),*) => { $(
        $v.push(SubCheck::new(format!("fixed/roundtrip/U{}", 64*$n), $qr, fixed_roundtrip::<$n>).tape(48 + 3 * $n));
        $v.push(SubCheck::new(format!("fixed/parse/U{}", 64*$n), $qp, fixed_parse::<$n>).tape(48 + 5 * $n));
    )* };
}

fn subchecks(ctx: &Ctx) -> Vec<SubCheck> {
    let mut v = vec![];
    fixed!(v, 20000, 120000; 1, 2);
    fixed!(v, 16000, 80000; 3, 4);
    fixed!(v, 12000, 50000; 8);
    fixed!(v, 10000, 30000; 16);
    fixed!(v, 4000, 12000; 40);
    if ctx.thorough() {
        // straddle the 32-limb large-divisor threshold with fixed widths, and a second large round
        fixed!(v, 400, 3000; 32, 33, 64);
    }
    v.extend(surface::subchecks(ctx));
    v.push(SubCheck::new("boxed/roundtrip/1..=40", 16000, boxed_roundtrip_case(40)).tape(200));
    v.push(SubCheck::new("boxed/roundtrip/1..=140", 6000, boxed_roundtrip_case(140)).tape(480));
    v.push(SubCheck::new("boxed/parse/1..=40", 40000, boxed_parse_case(40)).tape(260));
    v.push(SubCheck::new("boxed/parse/1..=140", 12000, boxed_parse_case(140)).tape(760));
    v
}
