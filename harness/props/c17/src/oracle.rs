//! Independent oracle for radix numerals: a digit evaluator that decides what a string denotes
//! (never calls crypto-bigint), the per-limb digit batch used by the non-triviality rule, and the
//! signature predicate of finding F-17a.

use num_bigint::BigUint;
use num_traits::Zero;

/// Number of digits the decoder folds into one limb: 64 / log2(radix) for the radices whose digits
/// tile a 64-bit limb exactly (2, 4, 16), otherwise the largest j with radix^j <= 2^64 - 1.
pub fn batch(radix: u32) -> usize {
    match radix {
        2 => 64,
        4 => 32,
        16 => 16,
        r => u64::MAX.ilog(r as u64) as usize,
    }
}

pub fn aligned(radix: u32) -> bool {
    matches!(radix, 2 | 4 | 16)
}

/// Value of an ASCII alphanumeric as a digit (either letter case), 0..36.
pub fn digit_val(b: u8) -> Option<u32> {
    match b {
        b'0'..=b'9' => Some((b - b'0') as u32),
        b'a'..=b'z' => Some((b - b'a') as u32 + 10),
        b'A'..=b'Z' => Some((b - b'A') as u32 + 10),
        _ => None,
    }
}

pub const LOWER: &[u8; 36] = b"0123456789abcdefghijklmnopqrstuvwxyz";

/// What a string denotes in a radix, by the documented grammar
/// `['+'] digit ('_'? digit)*` ("may begin with a `+`", "may use underscore characters to separate
/// digits"; a leading / trailing underscore is not a separator).
#[derive(Debug, Clone, PartialEq)]
pub enum Den {
    /// "" or a lone "+"
    Empty,
    /// not a numeral: a byte that is neither a digit below the radix nor '_', or a leading / trailing '_'
    Invalid,
    /// a numeral denoting `v`; `doubled` when two or more underscores are adjacent somewhere
    /// (the documentation does not say whether that still "separates digits")
    Numeral { v: BigUint, doubled: bool },
}

pub fn evaluate(s: &str, radix: u32) -> Den {
    let b = s.as_bytes();
    let body = b.strip_prefix(b"+").unwrap_or(b);
    if body.is_empty() {
        return Den::Empty;
    }
    let mut digits: Vec<u8> = Vec::with_capacity(body.len());
    let mut doubled = false;
    let mut prev_us = false;
    let mut invalid = false;
    for (i, &c) in body.iter().enumerate() {
        if c == b'_' {
            if i == 0 || i == body.len() - 1 {
                invalid = true;
            }
            if prev_us {
                doubled = true;
            }
            prev_us = true;
            continue;
        }
        prev_us = false;
        match digit_val(c) {
            Some(d) if d < radix => digits.push(d as u8),
            _ => invalid = true,
        }
    }
    if invalid || digits.is_empty() {
        return Den::Invalid;
    }
    let v = BigUint::from_radix_be(&digits, radix).expect("oracle: digits are below the radix");
    Den::Numeral { v, doubled }
}

/// Alphanumeric characters left after an optional '+' and the leading zeros / underscores
/// (the "digit count" of the non-triviality rule; for a canonical numeral it is its length, 0 for "0").
pub fn sig_digits(s: &str) -> usize {
    let b = s.as_bytes();
    let mut body = b.strip_prefix(b"+").unwrap_or(b);
    while let Some((&c, rest)) = body.split_first() {
        if c == b'0' || c == b'_' {
            body = rest;
        } else {
            break;
        }
    }
    body.iter().filter(|c| c.is_ascii_alphanumeric()).count()
}

/// Largest j with radix^j <= 2^bits - 1.
pub fn jmax(radix: u32, bits: u64) -> u32 {
    let mut j = (bits as f64 / (radix as f64).log2()).floor() as u32 + 1;
    loop {
        if BigUint::from(radix).pow(j).bits() <= bits {
            return j;
        }
        j -= 1;
    }
}

/// Signature of F-17a: the string is not a numeral *because of an invalid character* (no leading /
/// trailing underscore, not empty), the target has `cap_limbs` limbs, and the digits the decoder meets
/// before that character (scanning from the most significant end; from the least significant end
/// for radix 2, 4, 16) already exceed the capacity — the case in which `InputSize` is reported
/// instead of the documented `InvalidDigit`.
pub fn f17a_signature(s: &str, radix: u32, cap_limbs: usize) -> bool {
    let b = s.as_bytes();
    let mut body = b.strip_prefix(b"+").unwrap_or(b);
    if body.is_empty() || body[0] == b'_' || body[body.len() - 1] == b'_' {
        return false;
    }
    while let Some((&c, rest)) = body.split_first() {
        if c == b'0' || c == b'_' {
            body = rest;
        } else {
            break;
        }
    }
    let valid = |c: u8| c == b'_' || digit_val(c).map_or(false, |d| d < radix);
    if aligned(radix) {
        let Some(pos) = body.iter().rposition(|&c| !valid(c)) else { return false };
        let m = body[pos + 1..].iter().filter(|&&c| c != b'_').count();
        m > cap_limbs * batch(radix)
    } else {
        let Some(pos) = body.iter().position(|&c| !valid(c)) else { return false };
        let digs: Vec<u8> = body[..pos].iter().filter(|&&c| c != b'_').map(|&c| digit_val(c).unwrap() as u8).collect();
        if digs.is_empty() {
            return false;
        }
        let p = BigUint::from_radix_be(&digs, radix).unwrap_or_else(BigUint::zero);
        p.bits() > 64 * cap_limbs as u64
    }
}

#[cfg(test)]
mod tests {
    use super::*;
    #[test]
    fn evaluator() {
        assert_eq!(evaluate("", 10), Den::Empty);
        assert_eq!(evaluate("+", 10), Den::Empty);
        assert_eq!(evaluate("_", 10), Den::Invalid);
        assert_eq!(evaluate("+_", 10), Den::Invalid);
        assert_eq!(evaluate("0_", 10), Den::Invalid);
        assert_eq!(evaluate("_0", 10), Den::Invalid);
        assert_eq!(evaluate("a", 10), Den::Invalid);
        assert_eq!(evaluate("++1", 10), Den::Invalid);
        assert_eq!(evaluate("1é", 10), Den::Invalid);
        assert_eq!(evaluate("+0_1_2", 10), Den::Numeral { v: 12u32.into(), doubled: false });
        assert_eq!(evaluate("1__2", 10), Den::Numeral { v: 12u32.into(), doubled: true });
        assert_eq!(evaluate("Zz", 36), Den::Numeral { v: 1295u32.into(), doubled: false });
        assert_eq!(batch(10), 19);
        assert_eq!(batch(3), 40);
        assert_eq!(batch(36), 12);
        assert_eq!(jmax(2, 64), 63);
        assert_eq!(jmax(10, 64), 19);
        assert_eq!(sig_digits("+0_012"), 2);
    }
}
