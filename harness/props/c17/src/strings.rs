//! Generators: values adversarial for a radix, legitimate decorations of a canonical numeral,
//! spoiling mutations, alphabet strings and arbitrary bytes. Everything draws from the tape.

use crate::oracle::{batch, jmax, LOWER};
use num_bigint::BigUint;
use num_traits::{One, Zero};
use vmodel::gen;
use vmodel::*;

fn pick_j(t: &mut Tape, radix: u32, jm: u32) -> u32 {
    let b = batch(radix) as u32;
    let j = match t.weighted(&[2, 4, 3, 2]) {
        0 => t.below(3) as u32,
        1 => {
            // around a multiple of the per-limb batch
            let k = t.below((jm / b + 2) as u64) as u32 * b;
            (k + t.below(3) as u32).saturating_sub(1)
        }
        2 => jm - (t.below(3) as u32).min(jm),
        _ => t.range(0, jm as u64) as u32,
    };
    j.min(jm)
}

fn rpow(radix: u32, j: u32) -> BigUint {
    BigUint::from(radix).pow(j)
}

/// A value of exactly `n` limbs, adversarial for `radix`. Returns (limbs, class label).
pub fn value(t: &mut Tape, n: usize, radix: u32) -> (Limbs, &'static str) {
    let bits = 64 * n as u64;
    let jm = jmax(radix, bits);
    let (v, class): (BigUint, &'static str) = match t.weighted(&[1, 1, 2, 4, 4, 2, 3, 1, 3, 3, 3, 4, if n >= 2 { 3 } else { 0 }]) {
        0 => (BigUint::zero(), "value: 0"),
        1 => (BigUint::one(), "value: 1"),
        2 => (mask(bits) - BigUint::from(t.below(3)), "value: 2^BITS-1-{0,1,2}"),
        3 => (rpow(radix, pick_j(t, radix, jm)), "value: radix^j"),
        4 => (rpow(radix, pick_j(t, radix, jm)) - BigUint::one(), "value: radix^j-1"),
        5 => (rpow(radix, pick_j(t, radix, jm)) + BigUint::one(), "value: radix^j+1"),
        6 => {
            // sparse digits: d*radix^j + e*radix^i
            let (j, i) = (pick_j(t, radix, jm), pick_j(t, radix, jm));
            let d = 1 + t.below(radix as u64 - 1);
            let e = t.below(radix as u64);
            let v = rpow(radix, j) * BigUint::from(d) + rpow(radix, i) * BigUint::from(e);
            (v % pow2(bits), "value: sparse digits")
        }
        7 => (rpow(radix, jm), "value: largest power of radix"),
        8 => (big(&gen::shape_l(t, n)), "value: shape L (patterned limbs)"),
        9 => (big(&gen::shape_t(t, n)), "value: shape T (random bit length)"),
        10 => (big(&if n > 1 { gen::shape_z(t, n) } else { gen::shape_t(t, n) }), "value: shape Z (narrow in wide type)"),
        11 => (big(&gen::limbs(t, n)), "value: mixture"),
        _ => {
            // x = q*d + r with d = radix^batch (the per-limb divisor of the division encoder / the
            // per-batch multiplier of the decoder), the top limb of q equal to d or a neighbour and
            // r in {0, d-1, random}: whole batches of zero / maximal digits in the interior and
            // quotient limbs at the divisor, which powers of the radix alone do not produce.
            let d = rpow(radix, batch(radix) as u32);
            let m = t.usize_in(0, n - 2);
            // the encoder divides by d normalised (shifted left by its leading zeros): `d >> lshift`
            // is the value at which its "top limb already below the divisor" shortcut flips
            let lshift = 64u64.saturating_sub(d.bits());
            let dn = (&d >> lshift).max(BigUint::from(2u32));
            let top = match t.weighted(&[3, 2, 2, 3, 1, 1]) {
                0 => d.clone(),
                1 => &d - 1u32,
                2 => &d + 1u32,
                3 => dn.clone(),
                4 => &dn - 1u32,
                _ => &dn + 1u32,
            };
            let low = if m == 0 || t.chance(1, 3) { BigUint::zero() } else { big(&gen::limbs(t, m)) };
            let q = ((top << (64 * m as u64)) + low).max(BigUint::one());
            // after i division steps the running quotient is q: x = q*d^i + r (i up to the width;
            // added after the round-2 seeded change C17-C, whose trigger is exactly such a quotient
            // limb at division step 13..21)
            let mut imax = 1u32;
            while imax < 2 * n as u32 + 2 && (&q * rpow(radix, (imax + 1) * batch(radix) as u32)).bits() <= bits {
                imax += 1;
            }
            // i = 0: the value itself has its top limb at the divisor (the state a "skip the top limb"
            // shortcut before the division loop looks at; seeded change C17-J of round 5)
            let i = match t.weighted(&[2, 3, 2, 2]) {
                0 => 1,
                1 => imax,
                2 => t.u32_in(1, imax),
                _ => 0,
            };
            let d = rpow(radix, i * batch(radix) as u32);
            let r = match t.weighted(&[2, 1, 2]) {
                0 => BigUint::zero(),
                1 => &d - 1u32,
                _ => big(&gen::limbs(t, n)) % &d,
            };
            ((q * &d + r) % pow2(bits), "value: quotient limb at the per-limb divisor radix^batch")
        }
    };
    (limbs_exact(&v, n), class)
}

/// A value near (mostly at or above) the capacity 2^cap_bits, for parse checks. May not fit.
pub fn around_cap(t: &mut Tape, radix: u32, cap_bits: u64) -> (BigUint, &'static str) {
    let n = (cap_bits / 64).max(1) as usize;
    let cap = pow2(cap_bits);
    let jm = jmax(radix, cap_bits);
    match t.weighted(&[3, 3, 2, 2, 2, 2, 2, 2, 2, 2, 1, 4]) {
        0 => (cap, "target value: 2^BITS"),
        1 => (cap - BigUint::one(), "target value: 2^BITS-1"),
        2 => (cap + BigUint::one(), "target value: 2^BITS+1"),
        3 => (cap + BigUint::from(gen::word(t)), "target value: 2^BITS+word (wraps to a small value)"),
        4 => (rpow(radix, jm + 1), "target value: smallest power of radix >= 2^BITS"),
        5 => (rpow(radix, jm), "target value: largest power of radix < 2^BITS"),
        6 => (rpow(radix, jm + 1) - BigUint::one(), "target value: radix^(jmax+1)-1"),
        7 => {
            // bit length cap+1 ..= cap+64
            let mut l = gen::limbs(t, n);
            l.push(gen::word(t) | 1);
            (big(&l), "target value: one limb too wide")
        }
        8 => (cap * BigUint::from(2 + t.below(radix as u64 - 1)), "target value: small multiple of 2^BITS (wraps to 0)"),
        9 => {
            let l = gen::limbs(t, n);
            (big(&l) + &cap, "target value: 2^BITS + in-range value")
        }
        10 => (big(&gen::limbs(t, 2 * n + 1)), "target value: more than twice too wide"),
        _ => (big(&gen::limbs(t, n)), "target value: in range"),
    }
}

#[derive(Default, Clone, Copy)]
pub struct Deco {
    pub plus: bool,
    pub zeros: usize,
    pub underscores: bool,
    pub upper: bool,
}

/// A legitimate spelling of the canonical lowercase numeral `canon`: optional '+', leading zeros,
/// single interior underscores, either letter case. Always denotes the same value.
pub fn decorate(t: &mut Tape, canon: &str, radix: u32) -> (String, Deco) {
    let mut d = Deco::default();
    d.plus = t.chance(1, 3);
    d.zeros = match t.weighted(&[4, 2, 1, 2, 1]) {
        0 => 0,
        1 => 1,
        2 => 2,
        3 => (batch(radix) + t.below(3) as usize).saturating_sub(1),
        _ => t.usize_in(3, 70),
    };
    let mut digs: Vec<u8> = vec![b'0'; d.zeros];
    digs.extend_from_slice(canon.as_bytes());
    let len = digs.len();
    // sep[i]: one underscore before digs[i] (1 <= i < len)
    let mut sep = vec![false; len];
    if len >= 2 {
        match t.weighted(&[4, 2, 2, 1]) {
            0 => {}
            1 => {
                let g = t.pick(&[3usize, 1, 2, 4, 8, batch(radix), batch(radix) - 1]).max(1);
                for i in 1..len {
                    sep[i] = (len - i) % g == 0;
                }
            }
            2 => {
                for _ in 0..t.usize_in(1, 4) {
                    let i = 1 + t.index(len - 1);
                    sep[i] = true;
                }
            }
            _ => {
                let m = t.expand(len.div_ceil(64));
                for i in 1..len {
                    sep[i] = (m[i / 64] >> (i % 64)) & 1 == 1;
                }
            }
        }
    }
    d.underscores = sep.iter().any(|&x| x);
    match t.weighted(&[3, 2, 2]) {
        0 => {}
        1 => digs.iter_mut().for_each(|c| *c = c.to_ascii_uppercase()),
        _ => {
            let m = t.expand(len.div_ceil(64));
            for (i, c) in digs.iter_mut().enumerate() {
                if (m[i / 64] >> (i % 64)) & 1 == 1 {
                    *c = c.to_ascii_uppercase();
                }
            }
        }
    }
    d.upper = digs.iter().any(|c| c.is_ascii_uppercase());
    let mut out = String::with_capacity(len * 2 + 1);
    if d.plus {
        out.push('+');
    }
    for (i, &c) in digs.iter().enumerate() {
        if sep[i] {
            out.push('_');
        }
        out.push(c as char);
    }
    (out, d)
}

/// Spoil an ASCII numeral spelling. The result is usually not a numeral (the oracle decides).
pub fn spoil(t: &mut Tape, s: &str, radix: u32) -> (String, &'static str) {
    let mut b: Vec<u8> = s.as_bytes().to_vec();
    let start = if b.first() == Some(&b'+') { 1 } else { 0 };
    let body_len = b.len() - start;
    let kind = t.weighted(&[2, 2, 3, 3, 2, 2, 2, 1, 3, 3]);
    // position inside the body: first / last / interior
    let pos = |t: &mut Tape, insert: bool| -> usize {
        let span = if insert { body_len + 1 } else { body_len.max(1) };
        start
            + match t.weighted(&[2, 2, 3]) {
                0 => 0,
                1 => span - 1,
                _ => t.index(span),
            }
    };
    let bad: (Vec<u8>, &'static str) = match kind {
        0 => {
            b.insert(start, b'_');
            return (String::from_utf8(b).unwrap(), "spoil: leading underscore");
        }
        1 => {
            b.push(b'_');
            return (String::from_utf8(b).unwrap(), "spoil: trailing underscore");
        }
        2 => {
            if body_len < 2 {
                b.push(b'_');
                return (String::from_utf8(b).unwrap(), "spoil: trailing underscore");
            }
            let i = start + 1 + t.index(body_len - 1);
            let k = if t.chance(1, 4) { 3 } else { 2 };
            for _ in 0..k {
                b.insert(i, b'_');
            }
            return (String::from_utf8(b).unwrap(), "spoil: doubled interior underscore");
        }
        3 => {
            // the first digit that is not below the radix, or the last letter
            let c = if radix < 36 && t.chance(2, 3) { LOWER[radix as usize] } else { b'z' };
            let c = if t.bool() { c.to_ascii_uppercase() } else { c };
            (vec![c], "spoil: digit >= radix")
        }
        4 => (vec![t.pick(&[b'/', b':', b'@', b'[', b'`', b'{'])], "spoil: ASCII neighbour of a digit range"),
        5 => (vec![t.pick(&[b' ', b'-', b'.', b',', b'\t', b'\n', 0u8, 0x7f, b'x', b'#'])], "spoil: punctuation / space / sign"),
        6 => (t.pick(&["é", "٣", "１", "\u{80}", "𝟙", "\u{feff}"]).as_bytes().to_vec(), "spoil: non-ASCII character"),
        8 => {
            // any 7-bit byte that is not an alphanumeric, '_' or '+' (uniform: control characters,
            // space, punctuation) — added after the round-2 seeded change C17-D (a mask-based digit
            // decoder accepting the control bytes 0x10..0x19) was missed
            let mut c = t.below(128) as u8;
            while c.is_ascii_alphanumeric() || c == b'_' || c == b'+' {
                c = (c + 1) % 128;
            }
            (vec![c], "spoil: arbitrary non-alphanumeric 7-bit byte")
        }
        9 => {
            // a valid digit character with exactly one bit flipped (0x01..0x40), if the result is
            // not itself alphanumeric / '_' / '+': what a mask- or table-based decoder confuses
            let d = if radix <= 10 || t.bool() { b'0' + t.below(radix.min(10) as u64) as u8 } else { LOWER[10 + t.index(radix as usize - 10)] };
            let d = if d.is_ascii_lowercase() && t.bool() { d.to_ascii_uppercase() } else { d };
            let mut c = d ^ (1u8 << t.below(7));
            if c.is_ascii_alphanumeric() || c == b'_' || c == b'+' {
                c = d ^ 0x20;
                if c.is_ascii_alphanumeric() || c == b'_' || c == b'+' {
                    c = d ^ 0x60;
                }
                if c.is_ascii_alphanumeric() || c == b'_' || c == b'+' {
                    c = 0x11;
                }
            }
            (vec![c & 0x7f], "spoil: digit character with one bit flipped")
        }
        _ => {
            // a second or misplaced '+'
            let i = if (start == 1 && t.bool()) || b.is_empty() { 0 } else { 1 + t.index(b.len()) };
            b.insert(i, b'+');
            return (String::from_utf8(b).unwrap(), "spoil: second or misplaced '+'");
        }
    };
    let (bytes, label) = bad;
    if body_len > 0 && t.bool() {
        let i = pos(t, false);
        b.splice(i..i + 1, bytes);
    } else {
        let i = pos(t, true);
        b.splice(i..i, bytes);
    }
    (String::from_utf8(b).expect("harness: spoiled string stays UTF-8"), label)
}

pub const SPECIALS: [&str; 40] = [
    "", "+", "_", "+_", "++", "0", "+0", "00", "0_0", "0__0", "_0", "0_", "-0", "-1", " 1", "1 ", "1_", "+1", "1+", "z", "Z", "10", "1_0", "1__0", "__", "+__", "+-1",
    "0x10", "1e3", "1.0", "\u{0}", "٣", "+00_00", "0_1", "01", "+_1", "1_+", "_1_", "1\n", "00000000000000000000000000000000000000000000000000000000000000000000000000000000",
];

const ALPHABET: &[u8; 64] = b"0123456789abcdefghijklmnopqrstuvwxyzABCDEFGHIJKLMNOPQRSTUVWXYZ_+";

/// A string over `[0-9a-zA-Z_+]`, in one of several mixes.
pub fn alphabet_string(t: &mut Tape, radix: u32, max_len: usize) -> (String, &'static str) {
    let len = t.edgy(max_len as u64) as usize;
    let mode = t.weighted(&[3, 3, 2, 2]);
    let w = t.expand(len);
    let digit = |x: u64| -> u8 {
        let c = LOWER[(x % radix as u64) as usize];
        if (x >> 32) & 1 == 1 {
            c.to_ascii_uppercase()
        } else {
            c
        }
    };
    let mut out: Vec<u8> = Vec::with_capacity(len);
    let wild = if len > 0 { t.index(len) } else { 0 };
    for (i, &x) in w.iter().enumerate() {
        let c = match mode {
            0 => digit(x),
            1 => {
                if (x >> 40) % 8 == 0 {
                    b'_'
                } else {
                    digit(x)
                }
            }
            2 => ALPHABET[(x >> 20) as usize % 64],
            _ => {
                if i == wild {
                    ALPHABET[(x >> 20) as usize % 64]
                } else {
                    digit(x)
                }
            }
        };
        out.push(c);
    }
    let label = match mode {
        0 => "alphabet: digits below the radix, mixed case",
        1 => "alphabet: digits and random underscores",
        2 => "alphabet: uniform over [0-9a-zA-Z_+]",
        _ => "alphabet: digits with one wild character",
    };
    (String::from_utf8(out).unwrap(), label)
}

/// Arbitrary bytes (made a `&str` by lossy UTF-8 conversion), or arbitrary 7-bit ASCII.
pub fn byte_string(t: &mut Tape, max_len: usize) -> (String, &'static str) {
    let len = t.usize_in(0, max_len);
    let raw = gen::bytes(t, len);
    if t.bool() {
        (String::from_utf8_lossy(&raw).into_owned(), "bytes: arbitrary (lossy UTF-8)")
    } else {
        (raw.iter().map(|&b| (b & 0x7f) as char).collect(), "bytes: arbitrary 7-bit ASCII")
    }
}
