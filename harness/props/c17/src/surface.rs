//! API-surface audit (see /verif/audit/F.md).
//!
//! The radix API has six items (`Uint::{from_str_radix_vartime, to_string_radix_vartime}`,
//! `<Uint as num_traits::Num>::from_str_radix`, `BoxedUint::{from_str_radix_vartime,
//! from_str_radix_with_precision_vartime, to_string_radix_vartime}`); every one is driven by the
//! existing sub-checks. What was missing are *instantiations* of the const-generic items:
//!
//! * fixed widths outside 1, 2, 3, 4, 8, 16, 40 in the quick tier: 5, 6, 7, 9, 17 limbs, and 31, 32, 33
//!   limbs (the `RADIX_ENCODING_LIMBS_LARGE = 32` threshold of the encoder was straddled by *fixed*
//!   widths only in the thorough tier) — the same case functions, same oracle;
//! * the formatting methods reached through `Deref` from `NonZero<Uint>`, `Odd<Uint>`,
//!   `NonZero<BoxedUint>`, `Odd<BoxedUint>` (method resolution route), and the generic-function route
//!   `fn f<T: num_traits::Num>` for parsing.
//!
//! Not asserted: the documented panic for a radix outside 2..=36 (the C17 statement only speaks
//! about supported radices).

use super::*;
use crypto_bigint::{NonZero, Odd};

fn parse_generic<T: Num>(s: &str, radix: u32) -> Result<T, T::FromStrRadixErr> {
    T::from_str_radix(s, radix)
}

/// "Format a [`Uint`] as a string in a given base." through the wrappers' `Deref`, and the numeral
/// parsed back through a function generic over `num_traits::Num`.
fn deref_routes<const N: usize>(t: &mut Tape, c: &mut Case) -> CaseResult {
    let radix = draw_radix(t);
    let (mut vl, class) = strings::value(t, N, radix);
    let odd = t.bool();
    if odd {
        vl[0] |= 1;
    } else if is_zero(&vl) {
        vl[N - 1] = 1 << 63;
    }
    c.num("radix", radix as u64);
    c.limbs("x", &vl);
    c.label(class);
    c.label(radix_label(radix));
    c.label(if odd { "wrapper: Odd" } else { "wrapper: NonZero" });
    let v = big(&vl);
    let want = v.to_str_radix(radix);
    nontrivial(c, radix, sig_digits(&want), Some(&v), N);
    let (got_fixed, got_boxed) = if odd {
        let o = total("Odd::new(odd)", || Odd::new(uint::<N>(&vl)).unwrap())?;
        let ob = total("Odd::new(odd boxed)", || Odd::new(boxed(&vl)).unwrap())?;
        (total("Odd<Uint>::to_string_radix_vartime", || o.to_string_radix_vartime(radix))?, total("Odd<BoxedUint>::to_string_radix_vartime", || ob.to_string_radix_vartime(radix))?)
    } else {
        let o = total("NonZero::new(non-zero)", || NonZero::new(uint::<N>(&vl)).unwrap())?;
        let ob = total("NonZero::new(non-zero boxed)", || NonZero::new(boxed(&vl)).unwrap())?;
        (total("NonZero<Uint>::to_string_radix_vartime", || o.to_string_radix_vartime(radix))?, total("NonZero<BoxedUint>::to_string_radix_vartime", || ob.to_string_radix_vartime(radix))?)
    };
    vensure!(got_fixed == want, "wrapper<Uint<{N}>>::to_string_radix_vartime(radix {radix}) via Deref: got {}, want {}", show(&got_fixed), show(&want));
    vensure!(got_boxed == want, "wrapper<BoxedUint>::to_string_radix_vartime(radix {radix}) via Deref: got {}, want {}", show(&got_boxed), show(&want));
    let den = Den::Numeral { v: v.clone(), doubled: false };
    let got: Parsed = total("fn f<T: Num>(..) with T = Uint", || parse_generic::<Uint<N>>(&want, radix))?.map(|u| ul(&u));
    judge(&format!("parse_generic::<Uint<{N}>> (T: Num)"), &want, radix, &den, Target::Limbs(N), &got)?;
    Ok(())
}

macro_rules! fixed {
    ($v:ident, $qr:expr, $qp:expr; $($n:literal),*) => { $(
        $v.push(SubCheck::new(format!("surface/widths/fixed/roundtrip/U{}", 64*$n), $qr, fixed_roundtrip::<$n>).tape(48 + 3 * $n).thorough(10));
        $v.push(SubCheck::new(format!("surface/widths/fixed/parse/U{}", 64*$n), $qp, fixed_parse::<$n>).tape(48 + 5 * $n).thorough(10));
    )* };
}

pub fn subchecks(_ctx: &Ctx) -> Vec<SubCheck> {
    let mut v = vec![];
    fixed!(v, 4000, 16000; 5, 6, 7);
    fixed!(v, 2500, 8000; 9, 17);
    fixed!(v, 700, 3000; 31, 32, 33);
    v.push(SubCheck::new("surface/deref+generic-routes/U192", 6000, deref_routes::<3>).tape(64).thorough(10));
    v.push(SubCheck::new("surface/deref+generic-routes/U448", 4000, deref_routes::<7>).tape(80).thorough(10));
    v
}
