//! Oracle side of C20: everything here is plain `num_bigint::BigUint` arithmetic (multiplication,
//! addition, comparison, shifts, and — for the iteration model only — division). num-bigint's own
//! `sqrt` is never used.

use num_bigint::BigUint;
use num_traits::{One, Zero};

/// The validity predicate of the property: `s` is *the* integer square root of `x`
/// iff `s^2 <= x < (s+1)^2`. Uses `(s+1)^2 = s^2 + 2s + 1`, i.e. `x - s^2 <= 2s`.
pub fn is_floor_root(s: &BigUint, x: &BigUint) -> bool {
    let sq = s * s;
    if sq > *x {
        return false;
    }
    (x - &sq) <= (s << 1u32)
}

/// Which half of the predicate fails (for messages).
pub fn explain(s: &BigUint, x: &BigUint) -> &'static str {
    if s * s > *x {
        "s^2 > x (too large)"
    } else if !is_floor_root(s, x) {
        "(s+1)^2 <= x (too small)"
    } else {
        "valid"
    }
}

/// Binary digit-by-digit square root (restoring): independent of Newton's iteration. Used for
/// diagnostics (the expected value in a failure message) and for the harness self-test.
pub fn isqrt_digits(x: &BigUint) -> BigUint {
    let mut r = BigUint::zero();
    let h = (x.bits() + 1) / 2;
    for k in (0..h).rev() {
        let cand = &r | (BigUint::one() << k);
        if &cand * &cand <= *x {
            r = cand;
        }
    }
    r
}

/// Oracle-side model of the iteration the source documents (Brent & Zimmermann Alg. 1.13 started at
/// `x_0 = 2^ceil(bits(x)/2)`, `x_{i+1} = floor((x_i + floor(x / x_i)) / 2)`, answer
/// `min(x_{n-1}, x_n)` after `n` loop rounds): the least `n >= 1` such that the answer is the floor
/// root `root` for every round count in `n..=limit`. `None` if that is not reached within `limit`.
/// Only used to *classify* cases (how deep into the fixed iteration budget an input reaches).
pub fn newton_need(x: &BigUint, root: &BigUint, limit: u32) -> Option<u32> {
    let b = x.bits();
    let mut xs: Vec<BigUint> = Vec::with_capacity(limit as usize + 1);
    xs.push(BigUint::one() << ((b + 1) >> 1));
    for _ in 0..limit {
        let cur = xs.last().unwrap();
        let next = if cur.is_zero() { BigUint::zero() } else { (cur + x / cur) >> 1u32 };
        xs.push(next);
    }
    let mut need = None;
    for n in 1..=limit as usize {
        let ans = if xs[n - 1] > xs[n] { &xs[n] } else { &xs[n - 1] };
        if ans == root {
            if need.is_none() {
                need = Some(n as u32);
            }
        } else {
            need = None;
        }
    }
    need
}

#[cfg(test)]
mod tests {
    use super::*;

    #[test]
    fn oracle_self_test() {
        for v in 0u64..5000 {
            let x = BigUint::from(v);
            let r = isqrt_digits(&x);
            assert!(is_floor_root(&r, &x));
            assert_eq!(r, BigUint::from((v as f64).sqrt().floor() as u64));
            if v > 0 {
                assert!(!is_floor_root(&(&r + 1u32), &x));
            }
            if !r.is_zero() {
                assert!(!is_floor_root(&(&r - 1u32), &x));
            }
        }
        // (2^25+1)^2 - 1 needs 6 = LOG2(64) rounds
        let t = (BigUint::one() << 25u32) + 1u32;
        let x = &t * &t - 1u32;
        assert_eq!(newton_need(&x, &(&t - 1u32), 10), Some(6));
    }
}
