fn main() {
    vmodel::cli_main(c20::spec())
}
