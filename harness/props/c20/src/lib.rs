//! C20 — the integer square root is the exact floor for every input.
//!
//! Statement: for every x, `sqrt` / `sqrt_vartime` (fixed `Uint` and `BoxedUint`, inherent and through
//! the `SquareRoot` trait, and the `wrapping_sqrt(_vartime)` aliases) return the unique `s` with
//! `s^2 <= x < (s+1)^2`; `checked_sqrt(_vartime)` are `some` exactly when x is a perfect square.
//!
//! Documentation the assertions rest on:
//! * `Uint::sqrt` / `BoxedUint::sqrt`: "Computes √(`self`) in constant time"; `sqrt_vartime`:
//!   "Computes √(`self`)"; trait `SquareRoot`: "Computes `floor(sqrt(self))`" (both methods).
//! * `wrapping_sqrt(_vartime)`: "Wrapped sqrt is just normal √(`self`)".
//! * `checked_sqrt(_vartime)`: "returning a `CtOption` which `is_some` only if the √(`self`)² == self";
//!   together with the property statement: `is_some` **iff** x is a perfect square, and then the
//!   value is the root. Nothing is asserted about the hidden value of a `none`.
//! * The domain is every value of the type: no documented precondition, no documented panic.
//!
//! Oracle: the validity predicate on each returned value (BigUint multiplication / comparison only);
//! for constructed inputs `t^2 + d` additionally the root known by construction. The precision of a
//! boxed result is not documented, so only its value is asserted (a differing precision is labelled).

pub mod oracle;
pub mod xgen;

use crypto_bigint::{BoxedUint, Integer, NonZero, Odd, SquareRoot, Uint};
use num_bigint::BigUint;
use oracle::*;
use vmodel::*;
use xgen::*;

pub fn spec() -> PropSpec {
    PropSpec {
        id: "C20",
        rule: "cases: x built as t^2+d with t in {2^j, 2^j+-1, 2^j+-small, random of every bit length <= BITS/2, 2^(BITS/2)-1-k, limb patterns, small} (j over the whole range, half of the draws in the top quarter) and d in {-1,0,+1,-2,+2,2t,2t-1,t,random<=2t}; plus 0..3, 2^BITS-1-k, values around 2^(BITS-1), 2^k / 2^k+-1 for every k, limb patterns (shape L), random bit lengths (shape T), the generic shape mixture; a quarter of the cases zero-padded inside a wider container. Every sqrt form of the width (ct, vartime, wrapping aliases, checked forms, SquareRoot and Integer trait paths; fixed cases also run BoxedUint on the same limbs) is checked on each x with the predicate s^2 <= x < (s+1)^2 (BigUint), checked forms some <=> x = s^2. non-trivial: x >= 4 and ( x within distance 1 of a perfect square [x = s^2, s^2+1 or (s+1)^2-1] or x within distance 1 of a power of two [x in {2^k-1, 2^k, 2^k+1}: the bit length, hence the parity that picks the initial guess, flips next to x] or an oracle-side model of the documented Newton iteration needs >= LOG2_BITS rounds before min(x_(n-1), x_n) is the floor root ); surface/* sub-checks: the same cases and rule at 6, 10, 12, 14, 17, 24 limbs (fixed), 21..=40 limbs (boxed), through the Deref / UFCS routes of NonZero and Odd wrappers, and const evaluation at 5, 6, 7 limbs. distinct by (container limbs, x limbs).",
        assumptions: vec![
            "num-bigint multiplication / addition / comparison are correct (num-bigint's sqrt is not used)".into(),
            "bridging uses from_words / as_words only".into(),
            "BoxedUint result precision is not asserted (undocumented); only the value".into(),
        ],
        subchecks,
    }
}

// ------------------------------------------------------------------------------------------------
// observations and their verification

#[derive(Default)]
struct Obs {
    /// (form name, returned root)
    roots: Vec<(&'static str, BigUint)>,
    /// (form name, Some(value) if is_some)
    checked: Vec<(&'static str, Option<BigUint>)>,
}

/// Checks every observation against the predicate; returns the (validated) floor root.
fn verify(x: &BigUint, constructed: &Option<BigUint>, obs: &Obs, what: &str) -> Result<BigUint, Fail> {
    for (name, s) in &obs.roots {
        if !is_floor_root(s, x) {
            vfail!(
                "{what} {name}: returned s = {:#x} for x = {:#x}, which is not the floor square root: {} (floor root is {:#x})",
                s,
                x,
                explain(s, x),
                isqrt_digits(x)
            );
        }
    }
    let s = obs.roots[0].1.clone();
    if let Some(r) = constructed {
        // second oracle; both derivations are exact, so a disagreement is a harness bug
        assert!(*r == s, "harness: constructed root {r:#x} disagrees with the validated root {s:#x} for x = {x:#x}");
    }
    let perfect = &s * &s == *x;
    for (name, v) in &obs.checked {
        match v {
            Some(v) => {
                vensure!(perfect, "{what} {name}: is_some (value {:#x}) although x = {:#x} is not a perfect square (floor root {:#x})", v, x, s);
                vensure!(*v == s, "{what} {name}: some({:#x}) but the root of x = {:#x} is {:#x}", v, x, s);
            }
            None => vensure!(!perfect, "{what} {name}: is_none although x = {:#x} = ({:#x})^2 is a perfect square", x, s),
        }
    }
    Ok(s)
}

fn log2_floor(bits: u64) -> u32 {
    63 - bits.leading_zeros()
}

/// Labels + the non-triviality rule of `spec().rule`. `s` must be the validated floor root.
fn classify(c: &mut Case, g: &X, padded: bool, x: &BigUint, s: &BigUint, container_bits: u64) {
    c.label(g.class);
    if let Some((rlab, olab)) = g.family {
        c.label(format!("root: {rlab}"));
        c.label(format!("offset: {olab}"));
        let quant_t = matches!(rlab, "t = 2^j" | "t = 2^j-1" | "t = 2^j+1");
        let quant_d = matches!(olab, "x = t^2-1" | "x = t^2" | "x = t^2+1");
        if quant_t && quant_d {
            c.label(format!("quantifier family: {rlab}, {olab}"));
        }
    }
    if padded {
        c.label("zero-padded (value narrower than the container)");
    }
    let four = BigUint::from(4u32);
    let sq = s * s;
    let below = x - &sq; // x - s^2 in 0..=2s
    let above = (&sq + (s << 1u32) + 1u32) - x; // (s+1)^2 - x >= 1
    let one = BigUint::from(1u32);
    let adj_sq = *x >= four && (below <= one || above == one);
    let b = x.bits();
    let adj_p2 = *x >= four && (*x == pow2(b - 1) || *x == pow2(b - 1) + 1u32 || *x == mask(b));
    let log2 = log2_floor(container_bits);
    let need = newton_need(x, s, log2 + 4);
    let deep = *x >= four && matches!(need, Some(n) if n >= log2);
    c.nontrivial(adj_sq || adj_p2 || deep);

    c.label(if b % 2 == 1 { "bits(x) odd" } else { "bits(x) even" });
    if below == BigUint::from(0u32) {
        c.label("x perfect square");
    } else if adj_sq {
        c.label("x adjacent to a perfect square");
    }
    if adj_p2 {
        c.label("x within 1 of a power of two");
    }
    if b == container_bits {
        c.label("bits(x) = BITS (top bit set)");
    }
    c.label(match need {
        None => "newton model: not stable within LOG2_BITS+4 rounds",
        Some(n) if n > log2 + 2 => "newton model: needs > LOG2_BITS+2 rounds (more than the code runs)",
        Some(n) if n > log2 => "newton model: needs LOG2_BITS+1 or +2 rounds",
        Some(n) if n == log2 => "newton model: needs LOG2_BITS rounds",
        Some(n) if n + 1 == log2 => "newton model: needs LOG2_BITS-1 rounds",
        Some(_) => "newton model: needs <= LOG2_BITS-2 rounds",
    });
}

// ------------------------------------------------------------------------------------------------
// generic trait paths

fn tr_sqrt<T: SquareRoot>(x: &T) -> T {
    x.sqrt()
}
fn tr_sqrt_vartime<T: SquareRoot>(x: &T) -> T {
    x.sqrt_vartime()
}
fn int_sqrt<T: Integer>(x: &T) -> T {
    SquareRoot::sqrt(x)
}
fn int_sqrt_vartime<T: Integer>(x: &T) -> T {
    SquareRoot::sqrt_vartime(x)
}

// ------------------------------------------------------------------------------------------------
// fixed widths

fn fixed_obs<const N: usize>(u: &Uint<N>) -> Result<Obs, Fail> {
    let mut o = Obs::default();
    o.roots.push(("Uint::sqrt", ubig(&total("Uint::sqrt", || u.sqrt())?)));
    o.roots.push(("Uint::sqrt_vartime", ubig(&total("Uint::sqrt_vartime", || u.sqrt_vartime())?)));
    o.roots.push(("Uint::wrapping_sqrt", ubig(&total("Uint::wrapping_sqrt", || u.wrapping_sqrt())?)));
    o.roots.push((
        "Uint::wrapping_sqrt_vartime",
        ubig(&total("Uint::wrapping_sqrt_vartime", || u.wrapping_sqrt_vartime())?),
    ));
    o.roots.push(("<Uint as SquareRoot>::sqrt", ubig(&total("SquareRoot::sqrt", || tr_sqrt(u))?)));
    o.roots.push((
        "<Uint as SquareRoot>::sqrt_vartime",
        ubig(&total("SquareRoot::sqrt_vartime", || tr_sqrt_vartime(u))?),
    ));
    o.roots.push(("<T: Integer>::sqrt (Uint)", ubig(&total("Integer sqrt", || int_sqrt(u))?)));
    o.roots.push((
        "<T: Integer>::sqrt_vartime (Uint)",
        ubig(&total("Integer sqrt_vartime", || int_sqrt_vartime(u))?),
    ));
    // NonZero / Odd operands reach the same methods through Deref
    if let Some(nz) = Option::<NonZero<Uint<N>>>::from(NonZero::new(*u)) {
        o.roots.push(("NonZero<Uint>::sqrt (deref)", ubig(&total("NonZero<Uint>::sqrt", || nz.sqrt())?)));
    }
    if let Some(odd) = Option::<Odd<Uint<N>>>::from(Odd::new(*u)) {
        o.roots.push(("Odd<Uint>::sqrt_vartime (deref)", ubig(&total("Odd<Uint>::sqrt_vartime", || odd.sqrt_vartime())?)));
    }
    let ck = total("Uint::checked_sqrt", || u.checked_sqrt())?;
    o.checked.push(("Uint::checked_sqrt", Option::<Uint<N>>::from(ck).map(|v| ubig(&v))));
    let ck = total("Uint::checked_sqrt_vartime", || u.checked_sqrt_vartime())?;
    o.checked.push(("Uint::checked_sqrt_vartime", Option::<Uint<N>>::from(ck).map(|v| ubig(&v))));
    Ok(o)
}

fn fixed_case<const N: usize>(t: &mut Tape, c: &mut Case) -> CaseResult {
    let (g, padded) = gen_padded(t, N);
    c.limbs("x", &g.limbs);
    let x = big(&g.limbs);
    let u = uint::<N>(&g.limbs);
    let what = format!("U{}", 64 * N);
    let obs = fixed_obs::<N>(&u)?;
    let s = verify(&x, &g.root, &obs, &what)?;
    // the boxed implementation on the same limbs (same precision): ct == vartime == boxed
    let b = boxed(&g.limbs);
    let mut bo = Obs::default();
    bo.roots.push(("BoxedUint::sqrt (same limbs)", bbig(&total("BoxedUint::sqrt", || b.sqrt())?)));
    bo.roots.push((
        "BoxedUint::sqrt_vartime (same limbs)",
        bbig(&total("BoxedUint::sqrt_vartime", || b.sqrt_vartime())?),
    ));
    let sb = verify(&x, &g.root, &bo, &what)?;
    veq!(sb, s, "{what}: boxed and fixed roots differ");
    classify(c, &g, padded, &x, &s, 64 * N as u64);
    Ok(())
}

// ------------------------------------------------------------------------------------------------
// boxed, runtime precisions 1..=max limbs

fn boxed_obs(b: &BoxedUint) -> Result<Obs, Fail> {
    let mut o = Obs::default();
    o.roots.push(("BoxedUint::sqrt", bbig(&total("BoxedUint::sqrt", || b.sqrt())?)));
    o.roots.push(("BoxedUint::sqrt_vartime", bbig(&total("BoxedUint::sqrt_vartime", || b.sqrt_vartime())?)));
    o.roots.push(("BoxedUint::wrapping_sqrt", bbig(&total("BoxedUint::wrapping_sqrt", || b.wrapping_sqrt())?)));
    o.roots.push((
        "BoxedUint::wrapping_sqrt_vartime",
        bbig(&total("BoxedUint::wrapping_sqrt_vartime", || b.wrapping_sqrt_vartime())?),
    ));
    o.roots.push(("<BoxedUint as SquareRoot>::sqrt", bbig(&total("SquareRoot::sqrt", || tr_sqrt(b))?)));
    o.roots.push((
        "<BoxedUint as SquareRoot>::sqrt_vartime",
        bbig(&total("SquareRoot::sqrt_vartime", || tr_sqrt_vartime(b))?),
    ));
    o.roots.push(("<T: Integer>::sqrt (BoxedUint)", bbig(&total("Integer sqrt", || int_sqrt(b))?)));
    o.roots.push((
        "<T: Integer>::sqrt_vartime (BoxedUint)",
        bbig(&total("Integer sqrt_vartime", || int_sqrt_vartime(b))?),
    ));
    let ck = total("BoxedUint::checked_sqrt", || b.checked_sqrt())?;
    o.checked.push(("BoxedUint::checked_sqrt", Option::<BoxedUint>::from(ck).map(|v| bbig(&v))));
    let ck = total("BoxedUint::checked_sqrt_vartime", || b.checked_sqrt_vartime())?;
    o.checked.push(("BoxedUint::checked_sqrt_vartime", Option::<BoxedUint>::from(ck).map(|v| bbig(&v))));
    Ok(o)
}

fn boxed_case(max: usize) -> impl Fn(&mut Tape, &mut Case) -> CaseResult {
    move |t, c| {
        let n = t.usize_in(1, max);
        let (g, padded) = gen_padded(t, n);
        c.num("precision limbs", n as u64);
        c.limbs("x", &g.limbs);
        let x = big(&g.limbs);
        let b = boxed(&g.limbs);
        assert_eq!(b.nlimbs(), n, "harness: boxed precision");
        let what = format!("BoxedUint({n} limbs)");
        let obs = boxed_obs(&b)?;
        vensure!(bl(&b) == g.limbs, "{what}: the operand changed under &self methods");
        let s = verify(&x, &g.root, &obs, &what)?;
        // undocumented: precision of the result (labelled, not asserted)
        let r = b.sqrt();
        let rv = b.sqrt_vartime();
        if r.nlimbs() != n || rv.nlimbs() != n {
            c.label("boxed: result precision differs from the operand precision");
        }
        c.label(match n {
            1 => "boxed precision: 1 limb",
            2..=4 => "boxed precision: 2..=4 limbs",
            5..=8 => "boxed precision: 5..=8 limbs",
            9..=16 => "boxed precision: 9..=16 limbs",
            _ => "boxed precision: > 16 limbs",
        });
        if n & (n - 1) != 0 {
            c.label("boxed precision not a power of two");
        }
        classify(c, &g, padded, &x, &s, 64 * n as u64);
        Ok(())
    }
}

// ------------------------------------------------------------------------------------------------
// const evaluation (`sqrt`, `sqrt_vartime` and the wrapping aliases are `const fn` on Uint)

struct ConstRow {
    name: &'static str,
    x: Limbs,
    /// sqrt, sqrt_vartime, wrapping_sqrt, wrapping_sqrt_vartime evaluated by the compiler
    outs: [Limbs; 4],
    /// the same input evaluated at run time
    run: fn() -> [Limbs; 4],
}

macro_rules! const_row {
    ($name:literal, $n:literal, [$($w:expr),*]) => {{
        const X: Uint<$n> = Uint::<$n>::from_words([$($w),*]);
        const S: Uint<$n> = X.sqrt();
        const V: Uint<$n> = X.sqrt_vartime();
        const WS: Uint<$n> = X.wrapping_sqrt();
        const WV: Uint<$n> = X.wrapping_sqrt_vartime();
        fn run() -> [Limbs; 4] {
            let x = std::hint::black_box(X);
            [ul(&x.sqrt()), ul(&x.sqrt_vartime()), ul(&x.wrapping_sqrt()), ul(&x.wrapping_sqrt_vartime())]
        }
        ConstRow { name: $name, x: ul(&X), outs: [ul(&S), ul(&V), ul(&WS), ul(&WV)], run }
    }};
}

const M: u64 = u64::MAX;

fn const_rows() -> Vec<ConstRow> {
    vec![
        const_row!("U64 0", 1, [0]),
        const_row!("U64 1", 1, [1]),
        const_row!("U64 3", 1, [3]),
        const_row!("U64 MAX", 1, [M]),
        const_row!("U64 2^63", 1, [1 << 63]),
        const_row!("U64 2^63-1", 1, [(1 << 63) - 1]),
        const_row!("U64 (2^31+1)^2-1", 1, [(1 << 62) + (1 << 32)]),
        const_row!("U64 (2^32-1)^2", 1, [0xFFFF_FFFE_0000_0001]),
        const_row!("U128 MAX", 2, [M, M]),
        const_row!("U128 (2^63+1)^2-1", 2, [0, (1 << 62) | 1]),
        const_row!("U128 (2^64-1)^2-1", 2, [0, M - 1]),
        const_row!("U192 upstream edge (r+1)^2-583", 3, [0xdbf8a6864d45fa3d, 0x1762946e056535ba, 0x055fa39422bd9f28]),
        const_row!("U192 (2^95+1)^2-1", 3, [0, 1 << 32, 1 << 62]),
        const_row!("U192 MAX", 3, [M, M, M]),
        const_row!("U256 MAX", 4, [M, M, M, M]),
        const_row!("U256 upstream edge (r+1)^2-205", 4, [0xc1a631f2bd6c3597, 0xf8cd918a3679ff90, 0x2940737d94a48a91, 0x4bb750738e25a8f8]),
        const_row!("U256 (2^127+1)^2-1", 4, [0, 0, 1, 1 << 62]),
        const_row!("U256 2^255", 4, [0, 0, 0, 1 << 63]),
        const_row!("U256 2^255-1", 4, [M, M, M, M >> 1]),
        const_row!("U512 (2^255+1)^2-1", 8, [0, 0, 0, 0, 1, 0, 0, 1 << 62]),
    ]
}

fn const_case(t: &mut Tape, c: &mut Case) -> CaseResult {
    const_case_rows(&const_rows(), t, c)
}

fn const_case_rows(rows: &[ConstRow], t: &mut Tape, c: &mut Case) -> CaseResult {
    let i = t.index(rows.len());
    let row = &rows[i];
    c.text("constant", row.name);
    c.limbs("x", &row.x);
    let x = big(&row.x);
    let names = ["const Uint::sqrt", "const Uint::sqrt_vartime", "const Uint::wrapping_sqrt", "const Uint::wrapping_sqrt_vartime"];
    let mut o = Obs::default();
    for (k, n) in names.iter().enumerate() {
        o.roots.push((n, big(&row.outs[k])));
    }
    let s = verify(&x, &None, &o, row.name)?;
    let run = total("run-time evaluation", || (row.run)())?;
    for k in 0..4 {
        veq!(run[k], row.outs[k], "{}: {} evaluated at run time differs from the compile-time value", row.name, names[k]);
    }
    let g = X { limbs: row.x.clone(), class: "compile-time constant", family: None, root: None };
    classify(c, &g, false, &x, &s, 64 * row.x.len() as u64);
    Ok(())
}

// ------------------------------------------------------------------------------------------------

// (declared here: after `const_row!`, which the module uses)
mod surface;

macro_rules! fixed {
    ($v:ident; $(($n:literal, $q:expr)),*) => { $(
        $v.push(SubCheck::new(format!("fixed/sqrt/U{}", 64 * $n), $q, fixed_case::<$n>).tape(24 + 2 * $n));
    )* };
}

fn subchecks(ctx: &Ctx) -> Vec<SubCheck> {
    let mut v = vec![];
    fixed!(v; (1, 300000), (2, 300000), (3, 250000), (4, 250000), (7, 150000), (8, 150000), (16, 80000));
    // limb counts that are not a power of two: the iteration budgets are derived from log2(BITS)
    fixed!(v; (5, 40000), (9, 40000), (11, 30000), (13, 30000), (15, 30000));
    if ctx.thorough() {
        fixed!(v; (6, 20000), (10, 20000), (12, 20000), (14, 20000), (32, 3000));
    }
    v.push(SubCheck::new("boxed/sqrt/1..=20", 300000, boxed_case(20)).tape(72));
    v.push(SubCheck::new("const/sqrt", 200, const_case).tape(4).thorough(1));
    v.extend(surface::subchecks(ctx));
    v
}
