//! Input construction for C20 (all choices come from the tape).
//!
//! The adversarial family named by the quantifier is `x = t^2 + d` with the root `t` chosen as
//! `2^j`, `2^j +- 1`, `2^j + small`, random of every bit length up to `2^(BITS/2) - 1`, the largest
//! root `2^(BITS/2) - 1 - k`, limb patterns; and `d` in `{-1, 0, +1, -2, +2, 2t, 2t-1, t, random <= 2t}`
//! (so `x` sits directly below / on / above a perfect square at every magnitude). For such inputs the
//! expected root is known by construction (`t` when `0 <= d <= 2t`, `t - 1` when `-(2t-1) <= d < 0`),
//! which the check uses as a second, independent oracle next to the validity predicate.

use num_bigint::BigUint;
use num_traits::{One, Zero};
use vmodel::gen;
use vmodel::*;

pub struct X {
    /// exactly `n` limbs
    pub limbs: Limbs,
    /// generator class (histogram label)
    pub class: &'static str,
    /// for the `t^2 + d` family: (root class, offset class)
    pub family: Option<(&'static str, &'static str)>,
    /// the floor root when it is known by construction
    pub root: Option<BigUint>,
}

/// Value with a bit length in `1..=maxbits` (edge biased), top bit set, random below.
fn rand_len_bits(t: &mut Tape, maxbits: u64) -> BigUint {
    // mostly uniform over all lengths (distinct values); some weight on the extremes and on the
    // lengths next to multiples of 32 (limb / half-limb boundaries of the square)
    let len = match t.weighted(&[1, 2, 2, 7]) {
        0 => 1 + t.below(4.min(maxbits)),
        1 => maxbits - t.below(3.min(maxbits)),
        2 => (32 * (1 + t.below(maxbits / 32)) + t.below(3)).saturating_sub(1).clamp(1, maxbits),
        _ => 1 + t.below(maxbits),
    };
    let words = ((len + 63) / 64) as usize;
    let mut v: Vec<u64> = if words <= 2 { (0..words).map(|_| t.u64()).collect() } else { t.expand(words) };
    let top = len - 64 * (words as u64 - 1); // 1..=64 bits in the top word
    if top < 64 {
        v[words - 1] &= (1u64 << top) - 1;
    }
    v[words - 1] |= 1u64 << (top - 1);
    big(&v)
}

/// A root `t` in `0..=2^h - 1` and its class.
fn gen_root(t: &mut Tape, h: u64) -> (BigUint, &'static str) {
    let max = mask(h);
    let (r, lab): (BigUint, &'static str) = match t.weighted(&[1, 4, 4, 9, 1, 2]) {
        0 => (BigUint::from(t.below(17)), "t small (<= 16)"),
        1 => {
            // every j; half of the draws in the top quarter, where the iteration runs longest
            let j = if t.bool() { h - 1 - t.below(h / 4 + 1) } else { t.edgy(h - 1) };
            match t.below(3) {
                0 => (pow2(j), "t = 2^j"),
                1 => (pow2(j) - 1u32, "t = 2^j-1"),
                _ => (pow2(j) + 1u32, "t = 2^j+1"),
            }
        }
        2 => {
            let j = if t.bool() { h - 1 - t.below(h / 4 + 1) } else { t.edgy(h - 1) };
            let k = t.below(j.min(48) + 1);
            let mag = BigUint::from(2 + t.below(1u64 << k));
            let p = pow2(j);
            let v = if t.bool() {
                p + mag
            } else if mag < p {
                p - mag
            } else {
                p
            };
            (v, "t = 2^j +- small c (|c| >= 2)")
        }
        3 => (rand_len_bits(t, h), "t random (random bit length)"),
        4 => (&max - BigUint::from(t.below(4)), "t = 2^(BITS/2)-1-k (largest roots)"),
        _ => {
            let words = ((h + 63) / 64) as usize;
            let v = big(&gen::shape_l(t, words)) & &max;
            (v, "t limb pattern")
        }
    };
    (r.min(max), lab)
}

/// `x = t^2 + d`: returns (x, offset class, root known by construction).
fn gen_offset(t: &mut Tape, r: &BigUint) -> (BigUint, &'static str, Option<BigUint>) {
    let sq = r * r;
    let two_r = r << 1u32;
    // negative offsets: t^2 - k has floor root t - 1 iff k <= 2t - 1
    let minus = |k: u32, lab: &'static str| -> (BigUint, &'static str, Option<BigUint>) {
        let kb = BigUint::from(k);
        if sq < kb {
            return (sq.clone(), "x = t^2", Some(r.clone()));
        }
        let root = if &kb + 1u32 <= two_r { Some(r - 1u32) } else { None };
        (&sq - kb, lab, root)
    };
    // non-negative offsets: t^2 + d has floor root t iff d <= 2t
    let plus = |d: BigUint, lab: &'static str| -> (BigUint, &'static str, Option<BigUint>) {
        let root = if d <= two_r { Some(r.clone()) } else { None };
        (&sq + d, lab, root)
    };
    match t.weighted(&[4, 5, 4, 1, 1, 2, 1, 1, 1]) {
        0 => plus(BigUint::zero(), "x = t^2"),
        1 => minus(1, "x = t^2-1"),
        2 => plus(BigUint::one(), "x = t^2+1"),
        3 => minus(2, "x = t^2-2"),
        4 => plus(BigUint::from(2u32), "x = t^2+2"),
        5 => plus(two_r.clone(), "x = t^2+2t = (t+1)^2-1"),
        6 => {
            if r.is_zero() {
                plus(BigUint::zero(), "x = t^2")
            } else {
                plus(&two_r - 1u32, "x = t^2+2t-1")
            }
        }
        7 => plus(r.clone(), "x = t^2+t"),
        _ => {
            let d = gen::below_big(t, &(&two_r + 1u32));
            plus(d, "x = t^2+d, d random <= 2t")
        }
    }
}

/// An input of exactly `n` limbs (`BITS = 64 n`).
pub fn gen_x(t: &mut Tape, n: usize) -> X {
    let bits = 64 * n as u64;
    let h = bits / 2;
    let plain = |limbs: Limbs, class: &'static str| X { limbs, class, family: None, root: None };
    match t.weighted(&[1, 30, 1, 2, 2, 2, 2, 2]) {
        0 => {
            let mut v = vec![0u64; n];
            v[0] = t.below(4);
            plain(v, "x in {0,1,2,3}")
        }
        1 => {
            let (r, rlab) = gen_root(t, h);
            let (x, olab, root) = gen_offset(t, &r);
            // t <= 2^h - 1 and d <= 2t, so x <= 2^BITS - 1
            X { limbs: limbs_exact(&x, n), class: "x = t^2+d family", family: Some((rlab, olab)), root }
        }
        2 => {
            let x = mask(bits) - BigUint::from(t.below(4));
            plain(limbs_exact(&x, n), "x = 2^BITS-1-k, k<4")
        }
        3 => {
            // just below / above 2^(BITS-1): the bit length flips between BITS-1 and BITS
            let p = pow2(bits - 1);
            let mag = match t.below(3) {
                0 => t.below(3),
                1 => t.below(1 << 16),
                _ => t.u64() >> 1,
            };
            let x = if t.bool() { p + BigUint::from(mag) } else { p - BigUint::from(mag) };
            plain(limbs_exact(&x, n), "x around 2^(BITS-1)")
        }
        4 => plain(gen::shape_p(t, n), "x = 2^k, 2^k+-1 (every k)"),
        5 => plain(gen::shape_l(t, n), "x limb pattern (shape L)"),
        6 => plain(gen::shape_t(t, n), "x random bit length (shape T)"),
        _ => plain(gen::limbs(t, n), "x generic shape mixture"),
    }
}

/// Number of value limbs inside an `n`-limb container: mostly `n`, sometimes fewer (zero-padded).
pub fn value_limbs(t: &mut Tape, n: usize) -> usize {
    if n > 1 && t.chance(1, 4) {
        t.usize_in(1, n - 1)
    } else {
        n
    }
}

pub fn gen_padded(t: &mut Tape, n: usize) -> (X, bool) {
    let m = value_limbs(t, n);
    let mut x = gen_x(t, m);
    x.limbs.resize(n, 0);
    (x, m < n)
}
