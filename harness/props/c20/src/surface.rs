//! API-surface audit (see /verif/audit/F.md).
//!
//! Every sqrt item (`sqrt`, `sqrt_vartime`, the wrapping aliases, the checked forms, the
//! `SquareRoot` impls of `Uint` and `BoxedUint`, the `T: Integer` route) is driven by the existing
//! sub-checks; what was missing are instantiations:
//!
//! * fixed limb counts 6, 10, 12, 14 (thorough tier only so far) and counts above 16 (17, 24) in the
//!   quick tier; boxed precisions 21..=40 limbs (the iteration budget `log2_bits() + 2` changes at
//!   2048 bits = 32 limbs);
//! * the methods reached through the `Deref` of `NonZero<BoxedUint>` / `Odd<BoxedUint>` and the
//!   checked forms through `NonZero<Uint>` / `Odd<Uint>`; the `SquareRoot` trait through UFCS on a
//!   `&BoxedUint` taken from a wrapper;
//! * compile-time evaluation at 5, 6 and 7 limbs.
//!
//! Oracle and non-triviality rule: as for the other sub-checks (validity predicate on every root).

use super::*;

/// boxed precisions `lo..=hi` limbs, plus the wrapper (Deref) routes
fn boxed_range_case(lo: usize, hi: usize) -> impl Fn(&mut Tape, &mut Case) -> CaseResult {
    move |t, c| {
        let n = t.usize_in(lo, hi);
        let (g, padded) = gen_padded(t, n);
        c.num("precision limbs", n as u64);
        c.limbs("x", &g.limbs);
        let x = big(&g.limbs);
        let b = boxed(&g.limbs);
        let what = format!("BoxedUint({n} limbs)");
        let mut obs = boxed_obs(&b)?;
        wrapper_routes_boxed(&b, &mut obs)?;
        let s = verify(&x, &g.root, &obs, &what)?;
        c.label(if n >= 32 { "boxed precision: >= 32 limbs (log2_bits = 11+)" } else { "boxed precision: 21..=31 limbs" });
        classify(c, &g, padded, &x, &s, 64 * n as u64);
        Ok(())
    }
}

/// `NonZero<BoxedUint>` / `Odd<BoxedUint>` reach every sqrt method through `Deref`; the trait through UFCS
fn wrapper_routes_boxed(b: &BoxedUint, o: &mut Obs) -> CaseResult {
    if let Some(nz) = Option::<NonZero<BoxedUint>>::from(NonZero::new(b.clone())) {
        o.roots.push(("NonZero<BoxedUint>::sqrt (deref)", bbig(&total("NonZero<BoxedUint>::sqrt", || nz.sqrt())?)));
        o.roots.push(("NonZero<BoxedUint>::wrapping_sqrt_vartime (deref)", bbig(&total("NonZero<BoxedUint>::wrapping_sqrt_vartime", || nz.wrapping_sqrt_vartime())?)));
        o.roots.push(("<BoxedUint as SquareRoot>::sqrt(NonZero::as_ref())", bbig(&total("SquareRoot::sqrt", || <BoxedUint as SquareRoot>::sqrt(nz.as_ref()))?)));
        let ck = total("NonZero<BoxedUint>::checked_sqrt_vartime", || nz.checked_sqrt_vartime())?;
        o.checked.push(("NonZero<BoxedUint>::checked_sqrt_vartime (deref)", Option::<BoxedUint>::from(ck).map(|v| bbig(&v))));
    }
    if let Some(odd) = Option::<Odd<BoxedUint>>::from(Odd::new(b.clone())) {
        o.roots.push(("Odd<BoxedUint>::sqrt_vartime (deref)", bbig(&total("Odd<BoxedUint>::sqrt_vartime", || odd.sqrt_vartime())?)));
        o.roots.push(("Odd<BoxedUint>::wrapping_sqrt (deref)", bbig(&total("Odd<BoxedUint>::wrapping_sqrt", || odd.wrapping_sqrt())?)));
        o.roots.push(("<BoxedUint as SquareRoot>::sqrt_vartime(Odd::as_ref())", bbig(&total("SquareRoot::sqrt_vartime", || <BoxedUint as SquareRoot>::sqrt_vartime(odd.as_ref()))?)));
        let ck = total("Odd<BoxedUint>::checked_sqrt", || odd.checked_sqrt())?;
        o.checked.push(("Odd<BoxedUint>::checked_sqrt (deref)", Option::<BoxedUint>::from(ck).map(|v| bbig(&v))));
    }
    Ok(())
}

/// boxed 1..=20 limbs and fixed width N: the wrapper routes that the existing sub-checks leave out
fn wrapper_routes_case<const N: usize>(t: &mut Tape, c: &mut Case) -> CaseResult {
    let (g, padded) = gen_padded(t, N);
    c.limbs("x", &g.limbs);
    let x = big(&g.limbs);
    let u = uint::<N>(&g.limbs);
    let b = boxed(&g.limbs);
    let what = format!("U{} wrappers", 64 * N);
    let mut o = Obs::default();
    // anchor: the plain method (roots[0] is the reference slot of `verify`)
    o.roots.push(("Uint::sqrt_vartime", ubig(&total("Uint::sqrt_vartime", || u.sqrt_vartime())?)));
    if let Some(nz) = Option::<NonZero<Uint<N>>>::from(NonZero::new(u)) {
        o.roots.push(("NonZero<Uint>::sqrt_vartime (deref)", ubig(&total("NonZero<Uint>::sqrt_vartime", || nz.sqrt_vartime())?)));
        o.roots.push(("NonZero<Uint>::wrapping_sqrt (deref)", ubig(&total("NonZero<Uint>::wrapping_sqrt", || nz.wrapping_sqrt())?)));
        o.roots.push(("<Uint as SquareRoot>::sqrt(NonZero::as_ref())", ubig(&total("SquareRoot::sqrt", || <Uint<N> as SquareRoot>::sqrt(nz.as_ref()))?)));
        let ck = total("NonZero<Uint>::checked_sqrt", || nz.checked_sqrt())?;
        o.checked.push(("NonZero<Uint>::checked_sqrt (deref)", Option::<Uint<N>>::from(ck).map(|v| ubig(&v))));
    }
    if let Some(odd) = Option::<Odd<Uint<N>>>::from(Odd::new(u)) {
        o.roots.push(("Odd<Uint>::sqrt (deref)", ubig(&total("Odd<Uint>::sqrt", || odd.sqrt())?)));
        o.roots.push(("<Uint as SquareRoot>::sqrt_vartime(Odd::as_ref())", ubig(&total("SquareRoot::sqrt_vartime", || <Uint<N> as SquareRoot>::sqrt_vartime(odd.as_ref()))?)));
        let ck = total("Odd<Uint>::checked_sqrt_vartime", || odd.checked_sqrt_vartime())?;
        o.checked.push(("Odd<Uint>::checked_sqrt_vartime (deref)", Option::<Uint<N>>::from(ck).map(|v| ubig(&v))));
    }
    wrapper_routes_boxed(&b, &mut o)?;
    let s = verify(&x, &g.root, &o, &what)?;
    classify(c, &g, padded, &x, &s, 64 * N as u64);
    Ok(())
}

// ------------------------------------------------------------------------------------------------
// const evaluation at 5, 6, 7 limbs

fn const_rows_odd_widths() -> Vec<ConstRow> {
    vec![
        const_row!("U320 MAX", 5, [M, M, M, M, M]),
        const_row!("U320 (2^159+1)^2-1", 5, [0, 0, 1 << 32, 0, 1 << 62]),
        const_row!("U320 2^319", 5, [0, 0, 0, 0, 1 << 63]),
        const_row!("U384 MAX", 6, [M, M, M, M, M, M]),
        const_row!("U384 (2^191+1)^2-1", 6, [0, 0, 0, 1, 0, 1 << 62]),
        const_row!("U384 (2^192-1)^2", 6, [1, 0, 0, M - 1, M, M]),
        const_row!("U448 MAX", 7, [M, M, M, M, M, M, M]),
        const_row!("U448 (2^223+1)^2-1", 7, [0, 0, 0, 1 << 32, 0, 0, 1 << 62]),
        const_row!("U448 2^447-1", 7, [M, M, M, M, M, M, M >> 1]),
    ]
}

fn const_case_odd_widths(t: &mut Tape, c: &mut Case) -> CaseResult {
    const_case_rows(&const_rows_odd_widths(), t, c)
}

// ------------------------------------------------------------------------------------------------

macro_rules! fixed {
    ($v:ident; $(($n:literal, $q:expr)),*) => { $(
        $v.push(SubCheck::new(format!("surface/widths/fixed/sqrt/U{}", 64 * $n), $q, fixed_case::<$n>).tape(24 + 2 * $n).thorough(10));
    )* };
}

pub fn subchecks(_ctx: &Ctx) -> Vec<SubCheck> {
    let mut v = vec![];
    fixed!(v; (6, 12000), (10, 8000), (12, 8000), (14, 8000), (17, 5000), (24, 3000));
    v.push(SubCheck::new("surface/widths/boxed/sqrt/21..=40", 3000, boxed_range_case(21, 40)).tape(140).thorough(10));
    v.push(SubCheck::new("surface/wrapper-routes/U192+boxed", 30000, wrapper_routes_case::<3>).tape(32).thorough(10));
    v.push(SubCheck::new("surface/wrapper-routes/U320+boxed", 20000, wrapper_routes_case::<5>).tape(40).thorough(10));
    v.push(SubCheck::new("surface/const/sqrt/U320+U384+U448", 90, const_case_odd_widths).tape(4).thorough(1));
    v
}
