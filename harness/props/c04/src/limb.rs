//! `Limb`: adc / sbb / mac primitives (every carry word), overflowing / wrapping / saturating / checked
//! forms, operators, `Wrapping<Limb>`, `Checked<Limb>`.

use crate::forms::check_wrappers;
use crate::gens::{borrow_in, carry_in};
use crypto_bigint::{CheckedAdd, CheckedSub, Limb};
use vmodel::gen::{self, M};
use vmodel::*;

pub fn limb_case(t: &mut Tape, c: &mut Case) -> CaseResult {
    let a = gen::word(t);
    let b = match t.weighted(&[4, 2, 2, 1, 1, 1, 1]) {
        0 => gen::word(t),
        1 => !a,                     // a + b = MAX
        2 => a.wrapping_neg(),       // a + b = 2^64 (or 0)
        3 => a,                      // a - b = 0
        4 => a.wrapping_add(1),      // a - b = -1
        5 => (!a).wrapping_add(2),   // a + b = 2^64 + 1
        _ => (!a).wrapping_sub(1),   // a + b = MAX - 1: carry-in 2 wraps exactly
    };
    let cin = carry_in(t);
    let bin = borrow_in(t);
    let acc = gen::word(t);
    let mc = gen::word(t);
    c.num("a", a);
    c.num("b", b);
    c.num("carry_in", cin);
    c.num("borrow_in", bin);
    c.num("acc", acc);
    c.num("mac_carry", mc);
    let (la, lb) = (Limb(a), Limb(b));

    let s = a as u128 + b as u128;
    let sc = s + cin as u128;
    let add_over = s >> 64 != 0;
    let sub_under = a < b;
    let d = a.wrapping_sub(b);
    let d_b = a.wrapping_sub(b).wrapping_sub(bin >> 63);
    let under_b = (a as u128) < b as u128 + (bin >> 63) as u128;

    c.nontrivial(cin > 1 || add_over || sub_under || s as u64 == 0 || s as u64 == M || d == 0 || d == M || sc as u64 == 0 || sc as u64 == M);
    c.label(match cin {
        0 => "carry-in 0",
        1 => "carry-in 1",
        2 => "carry-in 2",
        M => "carry-in MAX",
        _ => "carry-in other",
    });
    c.label(if bin == 0 { "borrow-in 0" } else { "borrow-in MAX" });
    if sc >> 64 == 2 {
        c.label("limb carry-out = 2");
    }
    if sc == 1 << 64 {
        c.label("a + b + carry = 2^W exactly");
    } else if sc == M as u128 {
        c.label("a + b + carry = 2^W - 1");
    } else if sc >> 64 != 0 {
        c.label("add wraps");
    }
    if under_b {
        c.label("sub wraps");
    } else if d_b == 0 {
        c.label("a - b - borrow = 0");
    }

    // adc: exact for every carry word
    let (r, k) = total("Limb::adc", || la.adc(lb, Limb(cin)))?;
    veq!((r.0, k.0), (sc as u64, (sc >> 64) as u64), "Limb::adc({a:#x}, {b:#x}, {cin:#x})");
    let (r, k) = la.overflowing_add(lb);
    veq!((r.0, k.0), (s as u64, (s >> 64) as u64), "Limb::overflowing_add");
    // sbb: borrow-in is the mask 0 / MAX, borrow-out is the same encoding
    let (r, k) = total("Limb::sbb", || la.sbb(lb, Limb(bin)))?;
    veq!((r.0, k.0), (d_b, if under_b { M } else { 0 }), "Limb::sbb({a:#x}, {b:#x}, {bin:#x})");
    // mac: acc + a*b + carry always fits two limbs
    let m = acc as u128 + a as u128 * b as u128 + mc as u128;
    let (lo, hi) = total("Limb::mac", || Limb(acc).mac(la, lb, Limb(mc)))?;
    veq!((lo.0, hi.0), (m as u64, (m >> 64) as u64), "Limb::mac({acc:#x}, {a:#x}, {b:#x}, {mc:#x})");
    // mac with the incoming carry used as a second accumulator (carry-in of the adc kind)
    let m2 = cin as u128 + a as u128 * b as u128 + acc as u128;
    let (lo, hi) = Limb(cin).mac(la, lb, Limb(acc));
    veq!((lo.0, hi.0), (m2 as u64, (m2 >> 64) as u64), "Limb::mac({cin:#x}, {a:#x}, {b:#x}, {acc:#x})");

    veq!(la.wrapping_add(lb).0, s as u64, "Limb::wrapping_add");
    veq!(la.wrapping_sub(lb).0, d, "Limb::wrapping_sub");
    veq!(la.wrapping_neg().0, a.wrapping_neg(), "Limb::wrapping_neg");
    veq!(la.saturating_add(lb).0, if add_over { M } else { s as u64 }, "Limb::saturating_add");
    veq!(la.saturating_sub(lb).0, if sub_under { 0 } else { d }, "Limb::saturating_sub");
    let ck = Option::<Limb>::from(CheckedAdd::checked_add(&la, &lb));
    veq!(ck.map(|x| x.0), if add_over { None } else { Some(s as u64) }, "Limb::checked_add");
    let ck = Option::<Limb>::from(CheckedSub::checked_sub(&la, &lb));
    veq!(ck.map(|x| x.0), if sub_under { None } else { Some(d) }, "Limb::checked_sub");

    // operators panic exactly on overflow / underflow
    match guard(|| la + lb) {
        Ok(v) => {
            vensure!(!add_over, "Limb + Limb returned {:#x} although the sum overflows", v.0);
            veq!(v.0, s as u64, "Limb + Limb");
        }
        Err(m) => vensure!(add_over, "Limb + Limb panicked ({m}) although the sum fits"),
    }
    let subs: [(&str, Result<Limb, String>); 2] = [("Limb - Limb", guard(|| la - lb)), ("Limb - &Limb", guard(|| la - &lb))];
    for (name, r) in subs {
        match r {
            Ok(v) => {
                vensure!(!sub_under, "{name} returned {:#x} although the difference underflows", v.0);
                veq!(v.0, d, "{name}");
            }
            Err(m) => vensure!(sub_under, "{name} panicked ({m}) although the difference fits"),
        }
    }

    check_wrappers("Limb", la, lb, Limb::ZERO, |x: &Limb| x.0, &(s as u64), add_over, &d, sub_under, &a.wrapping_neg())
}
