//! C04 — addition, subtraction, negation: exact result and exact carry / overflow report.
//!
//! Oracle: `num_bigint` arithmetic over the integers; every form must return the true result reduced
//! modulo 2^W (W = precision of the returned value) and report carry / borrow / `none` / panic exactly
//! when the true result lies outside [0, 2^W).

pub mod boxed;
mod extra;
pub mod checked_forms;
pub mod fixed;
pub mod forms;
pub mod gens;
pub mod limb;
mod surface;

use vmodel::*;

pub fn spec() -> PropSpec {
    PropSpec {
        id: "C04",
        rule: "cases: (a, b, carry-in, borrow-in) with operand pairs from the shared edge shapes (constants, 2^k±1, patterned limbs, runs of ones, random bit length, uniform, zero-padded, related a±1/!a/-a) and from C04 constructions: a carry generated in a chosen limb (or by the carry-in) that ripples through a run of limbs with a[i]+b[i]=MAX up to the full width (MAX..MAX + 1), the same for borrows with a[i]=b[i] (0 - 1), alternating 0/MAX limbs, a+b in {2^W-2..2^W+2}, a-b in {0, ±1, ±2^(64j)}; carry-in in {0,1,2,MAX,random word}; borrow-in in {0,MAX} (the documented mask encoding only); boxed operands of 1..=40 limbs with equal / ±1 / unrelated precisions, Uint<N> and u8..u128 right-hand sides narrower, equal and wider than the boxed receiver. Every add / sub / neg form of the type is checked on each case against BigInt arithmetic. non-trivial: a carry (a[i]+b[i]=MAX with a carry entering) or borrow (a[i]=b[i] with a borrow entering) passes through >= 2 consecutive limbs, or negation carries through >= 2 zero limbs, or carry-in > 1, or a+b+carry or a-b-borrow reduced mod 2^W is 0 or 2^W-1, or the sum / difference wraps (lies outside [0,2^W)); distinct by the operand limbs (incl. their lengths), carry-in, borrow-in and right-hand-side type. surface/* (API-surface audit, /verif/audit/B.md): the same generators and rule at further widths (13, 15, 17, 24, 64 limbs; identity and none-propagation probes at 3, 5, 7 limbs) and through further routes (generic functions, a fold from num_traits zero() with a third summand in {0, 0..2, arbitrary}, adc_assign / sbb_assign with every AsRef<[Limb]> argument type, wrapper operands built through From<CtOption> / Default / constant-time selection / a bincode round trip); limb routes: non-trivial when a+b or a-b wraps or is 0 / MAX. Since seeding round 4: the source-literal dictionary (one pair in twelve: operand limb, limb sum or limb difference equal to a literal K of the source under test, K+1 or K-1).",
        assumptions: vec![
            "num-bigint addition / subtraction is correct (independent implementation)".into(),
            "bridging uses from_words / as_words only".into(),
            "borrow-in words other than 0 / MAX are outside the documented encoding and are not generated".into(),
            "boxed mixed-precision results may have the receiver's precision or the wider one (both documented); value, carry and is_some are checked against the precision of the returned value".into(),
        ],
        subchecks,
    }
}

macro_rules! fixed {
    ($v:ident, $q:expr; $($n:literal),*) => { $(
        $v.push(SubCheck::new(format!("fixed/U{}", 64 * $n), $q, fixed::fixed_case::<$n>).tape(24 + 5 * $n).thorough(10));
    )* };
}
macro_rules! boxed_uint {
    ($v:ident, $q:expr; $($n:literal),*) => { $(
        $v.push(SubCheck::new(format!("boxed/uint-rhs/U{}", 64 * $n), $q, boxed::boxed_uint_case::<$n>(40)).tape(240).thorough(10));
    )* };
}

// thorough = 10x the quick cases (about 12M cases; the engine keeps one fingerprint per distinct
// non-trivial case in memory, so the multiplier is kept moderate).
fn subchecks(_ctx: &Ctx) -> Vec<SubCheck> {
    let mut v = vec![];
    v.push(SubCheck::new("limb/adc+sbb+mac+forms", 400_000, limb::limb_case).tape(24).thorough(10));
    fixed!(v, 40_000; 1, 2, 3, 4);
    fixed!(v, 25_000; 5, 6, 7, 8, 9, 10, 11, 12);
    fixed!(v, 15_000; 16, 32);
    v.push(SubCheck::new("boxed/boxed-rhs/1..=40", 120_000, boxed::boxed_boxed_case(40)).tape(240).thorough(10));
    boxed_uint!(v, 25_000; 1, 2, 3, 4, 8, 16);
    v.push(SubCheck::new("boxed/prim-rhs/u8..u128", 120_000, boxed::boxed_prim_case(40)).tape(120).thorough(10));
    v.extend(extra::subchecks(_ctx));
    // API-surface audit (/verif/audit/B.md): forms, routes and widths no sub-check above reaches
    v.extend(surface::subchecks(_ctx));
    v
}
