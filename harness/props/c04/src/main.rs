fn main() {
    vmodel::cli_main(c04::spec())
}
