//! C04 extra — the additive / multiplicative identity items that no other sub-check reaches:
//!
//!  * `num_traits::Zero::{zero, is_zero, set_zero}` and `num_traits::One::{one, is_one, set_one}` of
//!    `Limb`, `Uint<N>`, `BoxedUint`, `Wrapping<Limb>`, `Wrapping<Uint<N>>`, `Wrapping<BoxedUint>`;
//!  * the crate's own `Zero::{zero, is_zero, set_zero, zero_like}` (incl. the provided `set_zero` and
//!    the `BoxedUint` override), `ConstZero::ZERO`, `Constants::ONE`, and
//!    `Integer::{one, one_like, from_limb_like, nlimbs}` of `Uint<N>` and `BoxedUint`;
//!  * `BoxedUint::default()` (a valid zero: at least one limb).
//!
//! Oracle: BigUint. `zero()` has the value 0 and `one()` the value 1; `a + zero()`, `zero() + a`,
//! `a * one()`, `one() * a` have the value of `a` (operators are the checked forms: no overflow is
//! possible here, so a panic is a failure; boxed results are compared by value only because the
//! precision of mixed-precision results belongs to C15); `is_zero` / `is_one` agree with the value;
//! `set_zero` / `set_one` leave the value 0 / 1; `zero_like` / `one_like` / `from_limb_like` have the
//! precision of their model operand (documented: "with the same precision as `other`").
//!
//! Operands: 0, 1, MAX, 0 / 1 with one further bit set in a random limb (so that `is_zero` / `is_one`
//! must inspect every limb), and the shared edge shapes. Non-trivial: the operand is 0 or 1, or
//! differs from 0 or from 1 in exactly one limb, or is MAX.

use crypto_bigint::{BoxedUint, ConstZero, Constants, Integer, Limb, Uint, Wrapping, Zero};
use num_bigint::BigUint;
use num_traits::{One as _, Zero as _};
use vmodel::gen;
use vmodel::*;

fn operand(t: &mut Tape, n: usize) -> Limbs {
    let mut v = vec![0u64; n];
    match t.weighted(&[2, 2, 4, 1, 4]) {
        0 => {}
        1 => v[0] = 1,
        2 => {
            v[0] = t.below(2);
            let i = t.index(n);
            v[i] ^= match t.weighted(&[3, 1, 1]) {
                0 => 1u64 << t.below(64),
                1 => u64::MAX,
                _ => t.u64() | 2,
            };
        }
        3 => v = vec![u64::MAX; n],
        _ => v = gen::limbs(t, n),
    }
    v
}

fn near_identity(a: &[u64]) -> bool {
    let diff = |base: u64| a.iter().enumerate().filter(|&(i, &w)| w != if i == 0 { base } else { 0 }).count();
    diff(0) <= 1 || diff(1) <= 1 || a.iter().all(|&w| w == u64::MAX)
}

/// `num_traits::Zero` + `num_traits::One`
/// `commuted_mul`: also assert `one() * a == a` — not for `Wrapping<BoxedUint>`, whose product wraps
/// "to the width of `self`", i.e. of the succinct 1-limb `one()`.
fn nt_check<T>(ty: &str, a: &T, val: &impl Fn(&T) -> BigUint, commuted_mul: bool) -> CaseResult
where
    T: num_traits::Zero + num_traits::One + Clone + PartialEq,
{
    let av = val(a);
    let z = total("num_traits::Zero::zero", || <T as num_traits::Zero>::zero())?;
    vensure!(val(&z).is_zero(), "{ty}: num_traits::Zero::zero() has the value {:#x}", val(&z));
    vensure!(num_traits::Zero::is_zero(&z), "{ty}: num_traits::Zero::is_zero(zero()) is false");
    let o = total("num_traits::One::one", || <T as num_traits::One>::one())?;
    vensure!(val(&o).is_one(), "{ty}: num_traits::One::one() has the value {:#x}", val(&o));
    vensure!(num_traits::One::is_one(&o), "{ty}: num_traits::One::is_one(one()) is false");
    vensure!(!num_traits::Zero::is_zero(&o), "{ty}: num_traits::Zero::is_zero(one()) is true");
    vensure!(!num_traits::One::is_one(&z), "{ty}: num_traits::One::is_one(zero()) is true");
    veq!(num_traits::Zero::is_zero(a), av.is_zero(), "{ty}: num_traits::Zero::is_zero(a)");
    veq!(num_traits::One::is_one(a), av.is_one(), "{ty}: num_traits::One::is_one(a)");
    let s = total("a + zero()", || a.clone() + <T as num_traits::Zero>::zero())?;
    veq!(val(&s), av, "{ty}: a + zero()");
    let s = total("zero() + a", || <T as num_traits::Zero>::zero() + a.clone())?;
    veq!(val(&s), av, "{ty}: zero() + a");
    let p = total("a * one()", || a.clone() * <T as num_traits::One>::one())?;
    veq!(val(&p), av, "{ty}: a * one()");
    if commuted_mul {
        let p = total("one() * a", || <T as num_traits::One>::one() * a.clone())?;
        veq!(val(&p), av, "{ty}: one() * a");
    }
    let mut m = a.clone();
    total("num_traits::Zero::set_zero", || num_traits::Zero::set_zero(&mut m))?;
    vensure!(val(&m).is_zero() && num_traits::Zero::is_zero(&m), "{ty}: after num_traits::Zero::set_zero the value is {:#x}", val(&m));
    let mut m = a.clone();
    total("num_traits::One::set_one", || num_traits::One::set_one(&mut m))?;
    vensure!(val(&m).is_one() && num_traits::One::is_one(&m), "{ty}: after num_traits::One::set_one the value is {:#x}", val(&m));
    Ok(())
}

/// the crate's `Zero`; `prec` = number of limbs of a value
fn cz_check<T>(ty: &str, a: &T, val: &impl Fn(&T) -> BigUint, prec: &impl Fn(&T) -> usize, like_keeps_precision: bool) -> CaseResult
where
    T: Zero + Clone,
{
    let av = val(a);
    let z = total("Zero::zero", || <T as Zero>::zero())?;
    vensure!(val(&z).is_zero(), "{ty}: Zero::zero() has the value {:#x}", val(&z));
    vensure!(prec(&z) >= 1, "{ty}: Zero::zero() has no limbs");
    vensure!(bool::from(Zero::is_zero(&z)), "{ty}: Zero::is_zero(zero()) is false");
    veq!(bool::from(Zero::is_zero(a)), av.is_zero(), "{ty}: Zero::is_zero(a)");
    let mut m = a.clone();
    total("Zero::set_zero", || Zero::set_zero(&mut m))?;
    vensure!(val(&m).is_zero() && bool::from(Zero::is_zero(&m)), "{ty}: after Zero::set_zero the value is {:#x}", val(&m));
    vensure!(prec(&m) >= 1, "{ty}: after Zero::set_zero the value has no limbs");
    let zl = total("Zero::zero_like", || <T as Zero>::zero_like(a))?;
    vensure!(val(&zl).is_zero(), "{ty}: Zero::zero_like(a) has the value {:#x}", val(&zl));
    if like_keeps_precision {
        veq!(prec(&zl), prec(a), "{ty}: Zero::zero_like(a) precision in limbs");
    }
    veq!(val(a), av, "{ty}: operand modified");
    Ok(())
}

/// `Integer::{one, one_like, from_limb_like, nlimbs}`
fn integer_check<T: Integer>(ty: &str, a: &T, n: usize, w: u64, val: &impl Fn(&T) -> BigUint) -> CaseResult {
    let o = total("Integer::one", || <T as Integer>::one())?;
    vensure!(val(&o).is_one(), "{ty}: Integer::one() has the value {:#x}", val(&o));
    veq!(Integer::nlimbs(a), n, "{ty}: Integer::nlimbs");
    let ol = total("Integer::one_like", || <T as Integer>::one_like(a))?;
    vensure!(val(&ol).is_one(), "{ty}: Integer::one_like(a) has the value {:#x}", val(&ol));
    veq!(Integer::nlimbs(&ol), n, "{ty}: Integer::one_like(a) limbs");
    let fl = total("Integer::from_limb_like", || <T as Integer>::from_limb_like(Limb(w), a))?;
    veq!(val(&fl), BigUint::from(w), "{ty}: Integer::from_limb_like({w:#x}, a)");
    veq!(Integer::nlimbs(&fl), n, "{ty}: Integer::from_limb_like(.., a) limbs");
    let p = total("a * Integer::one()", || a.clone() * <T as Integer>::one())?;
    veq!(val(&p), val(a), "{ty}: a * Integer::one()");
    Ok(())
}

fn limb_case(t: &mut Tape, c: &mut Case) -> CaseResult {
    let al = operand(t, 1);
    c.limbs("a", &al);
    c.nontrivial(near_identity(&al));
    let a = Limb(al[0]);
    let lv = |x: &Limb| BigUint::from(x.0);
    nt_check("Limb", &a, &lv, true)?;
    cz_check("Limb", &a, &lv, &|_| 1, true)?;
    veq!(<Limb as ConstZero>::ZERO.0, 0u64, "Limb: ConstZero::ZERO");
    veq!(<Limb as Constants>::ONE.0, 1u64, "Limb: Constants::ONE");
    let wv = |x: &Wrapping<Limb>| BigUint::from(x.0 .0);
    nt_check("Wrapping<Limb>", &Wrapping(a), &wv, true)?;
    cz_check("Wrapping<Limb>", &Wrapping(a), &wv, &|_| 1, true)?;
    Ok(())
}

pub(crate) fn uint_case<const N: usize>(t: &mut Tape, c: &mut Case) -> CaseResult {
    let al = operand(t, N);
    let w = gen::word(t);
    c.limbs("a", &al);
    c.num("limb", w);
    c.nontrivial(near_identity(&al));
    let a = uint::<N>(&al);
    let uv = |x: &Uint<N>| ubig(x);
    nt_check("Uint", &a, &uv, true)?;
    cz_check("Uint", &a, &uv, &|_| N, true)?;
    integer_check("Uint", &a, N, w, &uv)?;
    vensure!(is_zero(&ul(&<Uint<N> as ConstZero>::ZERO)), "Uint: ConstZero::ZERO is not zero");
    vensure!(ubig(&<Uint<N> as Constants>::ONE).is_one(), "Uint: Constants::ONE is not one");
    vensure!(is_zero(&ul(&Uint::<N>::default())), "Uint::default() is not zero");
    let wv = |x: &Wrapping<Uint<N>>| ubig(&x.0);
    nt_check("Wrapping<Uint>", &Wrapping(a), &wv, true)?;
    cz_check("Wrapping<Uint>", &Wrapping(a), &wv, &|_| N, true)?;
    Ok(())
}

fn boxed_case(t: &mut Tape, c: &mut Case) -> CaseResult {
    let n = t.usize_in(1, 8);
    let al = operand(t, n);
    let w = gen::word(t);
    c.limbs("a", &al);
    c.num("limb", w);
    c.nontrivial(near_identity(&al));
    let a = boxed(&al);
    let bv = |x: &BoxedUint| bbig(x);
    nt_check("BoxedUint", &a, &bv, true)?;
    cz_check("BoxedUint", &a, &bv, &|x: &BoxedUint| x.nlimbs(), true)?;
    integer_check("BoxedUint", &a, n, w, &bv)?;
    // the BoxedUint override of set_zero keeps the precision of the receiver (it fills the limbs)
    let mut m = a.clone();
    Zero::set_zero(&mut m);
    veq!(bl(&m), vec![0u64; n], "BoxedUint: Zero::set_zero limbs");
    let d = total("BoxedUint::default", BoxedUint::default)?;
    vensure!(d.nlimbs() >= 1, "BoxedUint::default() has no limbs");
    vensure!(is_zero(&bl(&d)) && bool::from(d.is_zero()), "BoxedUint::default() = {d:?} is not zero");
    veq!(bbig(&total("a + default()", || &a + &d)?), big(&al), "BoxedUint: a + default()");
    let wv = |x: &Wrapping<BoxedUint>| bbig(&x.0);
    nt_check("Wrapping<BoxedUint>", &Wrapping(a.clone()), &wv, false)?;
    // Wrapping<BoxedUint>::zero_like: see `wrapping_boxed_zero_like`
    cz_check("Wrapping<BoxedUint>", &Wrapping(a.clone()), &wv, &|x: &Wrapping<BoxedUint>| x.0.nlimbs(), false)?;
    Ok(())
}

/// `Zero::zero_like` is documented as "Return the value `0` with the same precision as `other`".
fn wrapping_boxed_zero_like(t: &mut Tape, c: &mut Case) -> CaseResult {
    let n = t.usize_in(1, 8);
    let al = operand(t, n);
    c.limbs("a", &al);
    c.nontrivial(n > 1);
    let a = Wrapping(boxed(&al));
    let zl = total("Zero::zero_like", || <Wrapping<BoxedUint> as Zero>::zero_like(&a))?;
    vensure!(is_zero(&bl(&zl.0)), "Wrapping<BoxedUint>: Zero::zero_like(a) = {:?} is not zero", zl.0);
    if zl.0.nlimbs() != n {
        if n > 1 && zl.0.nlimbs() == 1 {
            return Err(Fail::known(
                "F-04w",
                format!("<Wrapping<BoxedUint> as Zero>::zero_like(&a) with a of {n} limbs returned a 1-limb zero (documented: \"the value 0 with the same precision as other\")"),
            ));
        }
        vfail!("Wrapping<BoxedUint>: Zero::zero_like(a) has {} limbs, a has {n}", zl.0.nlimbs());
    }
    Ok(())
}

macro_rules! uints {
    ($v:ident, $q:expr; $($n:literal),*) => { $(
        $v.push(SubCheck::new(format!("extra/zero+one/U{}", 64 * $n), $q, uint_case::<$n>).tape(16 + 3 * $n));
    )* };
}

crate::checked_none_forms!(checked_none_limb, crypto_bigint::Limb, |l: &Vec<u64>| crypto_bigint::Limb(l[0]));
crate::checked_none_forms!(checked_none_u64, crypto_bigint::Uint<1>, |l: &Vec<u64>| vmodel::uint::<1>(l));
crate::checked_none_forms!(checked_none_u128, crypto_bigint::Uint<2>, |l: &Vec<u64>| vmodel::uint::<2>(l));
crate::checked_none_forms!(checked_none_u256, crypto_bigint::Uint<4>, |l: &Vec<u64>| vmodel::uint::<4>(l));
use crate::checked_forms::mk_limbs;

pub fn subchecks(_ctx: &Ctx) -> Vec<SubCheck> {
    let mut v = vec![];
    v.push(SubCheck::new("extra/zero+one/limb", 40_000, limb_case).tape(12));
    uints!(v, 30_000; 1, 2, 4, 8);
    v.push(SubCheck::new("extra/zero+one/boxed/1..=8", 50_000, boxed_case).tape(48));
    v.push(SubCheck::new("extra/zero-like/wrapping-boxed/1..=8", 20_000, wrapping_boxed_zero_like).tape(48));
    v.push(vmodel::SubCheck::new("extra/checked-none-all-forms/limb", 60_000, checked_none_limb).tape(24));
    v.push(vmodel::SubCheck::new("extra/checked-none-all-forms/U64", 60_000, checked_none_u64).tape(24));
    v.push(vmodel::SubCheck::new("extra/checked-none-all-forms/U128", 60_000, checked_none_u128).tape(24));
    v.push(vmodel::SubCheck::new("extra/checked-none-all-forms/U256", 40_000, checked_none_u256).tape(32));
    v
}
