//! Property-specific generators and case classification for C04.
//!
//! Besides the shared shape mixture (`vmodel::gen`) the operand pairs are *constructed* so that a
//! carry / borrow ripples through a chosen run of limbs (up to the full width: MAX + 1, 0 − 1), so that
//! the sum lands exactly on 2^W, 2^W − 1, 2^W ± 1 or the difference on 0, ±1, and so that operands
//! alternate 0 / MAX limbs.

use num_bigint::{BigInt, BigUint};
use vmodel::gen::{self, M};
use vmodel::*;

/// carry-in ∈ {0, 1, 2, MAX, edge-biased random word}
pub fn carry_in(t: &mut Tape) -> u64 {
    match t.weighted(&[3, 3, 2, 2, 2]) {
        0 => 0,
        1 => 1,
        2 => 2,
        3 => M,
        _ => gen::word(t),
    }
}

/// borrow-in ∈ {0, MAX}: the documented encoding of a borrow is the all-ones mask that `sbb` itself
/// returns; other words are unspecified and are not generated.
pub fn borrow_in(t: &mut Tape) -> u64 {
    if t.bool() {
        M
    } else {
        0
    }
}

fn background(t: &mut Tape, n: usize) -> Limbs {
    match t.weighted(&[2, 1, 3]) {
        0 => vec![0; n],
        1 => vec![M; n],
        _ => t.expand(n),
    }
}

/// (index of the generating limb, number of propagating limbs above it); `i0 + k <= n - 1`.
fn span(t: &mut Tape, n: usize) -> (usize, usize) {
    if n == 1 {
        return (0, 0);
    }
    match t.weighted(&[3, 2, 2, 2]) {
        0 => (0, n - 1),
        1 => (0, t.usize_in(0, n - 1)),
        2 => {
            let i0 = t.usize_in(0, n - 1);
            (i0, n - 1 - i0)
        }
        _ => {
            let i0 = t.usize_in(0, n - 1);
            (i0, t.usize_in(0, n - 1 - i0))
        }
    }
}

/// word used for the propagating limbs of a ripple
fn prop_words(t: &mut Tape, k: usize) -> Limbs {
    match t.weighted(&[3, 2, 2, 2]) {
        0 => vec![M; k],
        1 => vec![0; k],
        2 => (0..k).map(|i| if i % 2 == 0 { M } else { 0 }).collect(),
        _ => t.expand(k),
    }
}

/// `a + b`: a carry is generated in limb `i0` (or comes from the carry-in when limb 0 itself
/// propagates) and ripples through `k` limbs with `a[i] + b[i] == MAX`. Includes MAX..MAX + 1.
pub fn ripple_add(t: &mut Tape, n: usize) -> (Limbs, Limbs) {
    let mut a = background(t, n);
    let mut b = background(t, n);
    let (i0, k) = span(t, n);
    let from_cin = i0 == 0 && t.chance(1, 3);
    if from_cin {
        // limb 0 propagates as well: only a carry-in starts the chain (carry-in 0 gives 2^W - 1)
        let w = t.pick(&[M, 0, 0x5555_5555_5555_5555]);
        a[0] = w;
        b[0] = !w;
    } else {
        let w = match t.weighted(&[3, 2, 2]) {
            0 => M,
            1 => 1,
            _ => gen::word(t).max(1),
        };
        let d = t.below(w.min(4)); // d <= w - 1, so b[i0] does not wrap
        a[i0] = w;
        b[i0] = (!w).wrapping_add(1 + d); // a[i0] + b[i0] = 2^64 + d
    }
    let ws = prop_words(t, k);
    for (j, w) in ws.iter().enumerate() {
        a[i0 + 1 + j] = *w;
        b[i0 + 1 + j] = !*w;
    }
    (a, b)
}

/// `a - b`: a borrow is generated in limb `i0` (or comes from the borrow-in) and ripples through
/// `k` limbs with `a[i] == b[i]`. Includes 0 − 1.
pub fn ripple_sub(t: &mut Tape, n: usize) -> (Limbs, Limbs) {
    let mut a = background(t, n);
    let mut b = background(t, n);
    let (i0, k) = span(t, n);
    let from_bin = i0 == 0 && t.chance(1, 3);
    if from_bin {
        let w = t.pick(&[0, M, 0xAAAA_AAAA_AAAA_AAAA]);
        a[0] = w;
        b[0] = w;
    } else {
        let w = match t.weighted(&[3, 2, 2]) {
            0 => 0,
            1 => M - 1,
            _ => gen::word(t).min(M - 1),
        };
        let d = t.below((M - w).min(4)); // w + 1 + d <= MAX
        a[i0] = w;
        b[i0] = w + 1 + d;
    }
    let ws = prop_words(t, k);
    for (j, w) in ws.iter().enumerate() {
        a[i0 + 1 + j] = *w;
        b[i0 + 1 + j] = *w;
    }
    (a, b)
}

/// limbs alternate between two words from {0, MAX}
pub fn alternating(t: &mut Tape, n: usize) -> (Limbs, Limbs) {
    let x = t.pick(&[0u64, M]);
    let y = !x;
    let a: Limbs = (0..n).map(|i| if i % 2 == 0 { x } else { y }).collect();
    let mut b: Limbs = match t.weighted(&[3, 2, 2, 1]) {
        0 => a.iter().map(|w| !*w).collect(),
        1 => a.clone(),
        2 => {
            let mut v = vec![0; n];
            v[0] = 1;
            v
        }
        _ => vec![M; n],
    };
    match t.weighted(&[3, 1, 1]) {
        0 => {}
        1 => gen::inc(&mut b),
        _ => gen::dec(&mut b),
    }
    (a, b)
}

/// a + b ∈ {2^W − 1, 2^W (or 0), 2^W + 1, 2^W − 2}
pub fn rel_sum(t: &mut Tape, n: usize) -> (Limbs, Limbs) {
    let a = gen::limbs(t, n);
    let mut b = a.clone();
    match t.weighted(&[3, 3, 1, 1, 1]) {
        0 => gen::not(&mut b),
        1 => gen::neg(&mut b),
        2 => {
            gen::neg(&mut b);
            gen::inc(&mut b);
        }
        3 => {
            gen::not(&mut b);
            gen::dec(&mut b);
        }
        _ => {
            gen::not(&mut b);
            gen::inc(&mut b);
            gen::inc(&mut b);
            gen::inc(&mut b);
        }
    }
    (a, b)
}

/// a − b ∈ {0, ±1, ±2^(64 j)}
pub fn rel_diff(t: &mut Tape, n: usize) -> (Limbs, Limbs) {
    let a = gen::limbs(t, n);
    let mut b = a.clone();
    match t.weighted(&[3, 3, 3, 2]) {
        0 => {}
        1 => gen::inc(&mut b),
        2 => gen::dec(&mut b),
        _ => {
            let j = t.index(n);
            if t.bool() {
                gen::inc(&mut b[j..]);
            } else {
                gen::dec(&mut b[j..]);
            }
        }
    }
    (a, b)
}

/// Pair of `n`-limb operands for add / sub.
pub fn pair(t: &mut Tape, n: usize) -> (Limbs, Limbs) {
    let (a, b) = match t.weighted(&[4, 3, 3, 2, 3, 2]) {
        0 => gen::pair(t, n),
        1 => ripple_add(t, n),
        2 => ripple_sub(t, n),
        3 => alternating(t, n),
        4 => rel_sum(t, n),
        _ => rel_diff(t, n),
    };
    let (mut a, mut b) = if t.bool() { (b, a) } else { (a, b) };
    gen::dict_salt(t, &mut a, &mut b);
    (a, b)
}

/// Pair with different limb counts (l, r): built at the wider width and truncated, so the low limbs
/// keep the constructed relation; with probability 1/3 the extra limbs of the wider operand are zero
/// (a value that fits the narrower width).
pub fn pair_lr(t: &mut Tape, l: usize, r: usize) -> (Limbs, Limbs) {
    let m = l.max(r);
    let (mut a, mut b) = pair(t, m);
    a.truncate(l);
    b.truncate(r);
    if l != r && t.chance(1, 3) {
        let k = l.min(r);
        let wide = if l > r { &mut a } else { &mut b };
        for w in wide[k..].iter_mut() {
            *w = 0;
        }
    }
    (a, b)
}

/// A receiver of `l` limbs related to a given right-hand side value (for `Uint` / primitive RHS).
pub fn receiver_for(t: &mut Tape, l: usize, rhs: &BigUint) -> Limbs {
    let w = 64 * l as u64;
    let m = pow2(w);
    let r = rhs % &m;
    let one = BigUint::from(1u32);
    let v: BigUint = match t.weighted(&[3, 2, 2, 1, 2, 2, 1, 1, 2]) {
        0 => return gen::limbs(t, l),
        1 => r,
        2 => (&r + &m - &one) % &m,
        3 => (&r + &one) % &m,
        4 => (&m - &r) % &m,
        5 => (&m + &m - &one - &r) % &m,
        6 => mask(w),
        7 => BigUint::from(0u32),
        _ => {
            // ripple: low limb so that adding rhs carries / subtracting borrows, rest MAX or 0
            let hi = if t.bool() { mask(w) } else { BigUint::from(0u32) };
            let lo_mask = mask(64);
            let lo = if t.bool() { (&m - &r) & &lo_mask } else { (&r + &m - &one) & &lo_mask };
            ((hi >> 64u32) << 64u32) | lo
        }
    };
    limbs_of(&v, l)
}

pub fn ib(x: &BigUint) -> BigInt {
    BigInt::from(x.clone())
}

pub fn pad(v: &[u64], n: usize) -> Limbs {
    let mut x = v.to_vec();
    if x.len() < n {
        x.resize(n, 0);
    }
    x
}

/// longest run of limbs with `a[i] + b[i] == MAX` that a carry actually passes through
pub fn add_chain(a: &[u64], b: &[u64], cin: u64) -> usize {
    let (mut carry, mut run, mut best) = (cin as u128, 0usize, 0usize);
    for i in 0..a.len() {
        if a[i] == !b[i] && carry >= 1 {
            run += 1;
            best = best.max(run);
        } else {
            run = 0;
        }
        carry = (a[i] as u128 + b[i] as u128 + carry) >> 64;
    }
    best
}

/// longest run of limbs with `a[i] == b[i]` that a borrow actually passes through
pub fn sub_chain(a: &[u64], b: &[u64], bin: u64) -> usize {
    let (mut borrow, mut run, mut best) = ((bin >> 63) as u128, 0usize, 0usize);
    for i in 0..a.len() {
        if a[i] == b[i] && borrow == 1 {
            run += 1;
            best = best.max(run);
        } else {
            run = 0;
        }
        borrow = ((a[i] as u128) < (b[i] as u128 + borrow)) as u128;
    }
    best
}

/// Labels + the non-triviality rule of C04, for operands viewed at a common width of `n` limbs:
/// carry / borrow ripples through >= 2 limbs, or carry-in > 1, or a result is 0 / 2^W − 1 / wraps.
pub fn classify(c: &mut Case, a: &[u64], b: &[u64], cin: u64, bin: u64, n: usize) {
    let (a, b) = (pad(a, n), pad(b, n));
    let w = 64 * n as u64;
    let (ba, bb) = (big(&a), big(&b));
    let sum = &ba + &bb + BigUint::from(cin);
    let diff = ib(&ba) - ib(&bb) - BigInt::from(bin >> 63);
    let (ac, sc) = (add_chain(&a, &b, cin), sub_chain(&a, &b, bin));
    let negc = a.iter().take_while(|x| **x == 0).count().max(b.iter().take_while(|x| **x == 0).count());
    let sum_m = limbs_of(&sum, n);
    let diff_m = twos(&diff, n);
    let sum_wraps = sum.bits() > w;
    let diff_wraps = diff < BigInt::from(0);
    let edge = |v: &[u64]| v.iter().all(|&x| x == 0) || v.iter().all(|&x| x == M);
    let nt = ac >= 2 || sc >= 2 || negc >= 2 || cin > 1 || edge(&sum_m) || edge(&diff_m) || sum_wraps || diff_wraps;
    c.nontrivial(nt);

    if ac >= 2 {
        c.label("add: carry ripples through >= 2 limbs");
    }
    if n >= 2 && ac >= n - 1 {
        c.label("add: carry ripples through the full width");
    }
    if sc >= 2 {
        c.label("sub: borrow ripples through >= 2 limbs");
    }
    if n >= 2 && sc >= n - 1 {
        c.label("sub: borrow ripples through the full width");
    }
    if negc >= 2 {
        c.label("neg: carry ripples through >= 2 zero limbs");
    }
    c.label(match cin {
        0 => "carry-in 0",
        1 => "carry-in 1",
        2 => "carry-in 2",
        M => "carry-in MAX",
        _ => "carry-in other",
    });
    c.label(if bin == 0 { "borrow-in 0" } else { "borrow-in MAX" });
    if sum == pow2(w) {
        c.label("a + b + carry = 2^W exactly");
    } else if sum == mask(w) {
        c.label("a + b + carry = 2^W - 1");
    } else if sum_wraps {
        c.label("add wraps");
    }
    if n >= 2 && (&sum >> w) >= BigUint::from(2u32) {
        c.label("multi-limb carry-out = 2");
    }
    if diff == BigInt::from(0) {
        c.label("a - b - borrow = 0");
    } else if diff == BigInt::from(-1) {
        c.label("a - b - borrow = -1");
    } else if diff_wraps {
        c.label("sub wraps");
    }
    if n >= 2 && a.iter().chain(b.iter()).all(|&x| x == 0 || x == M) && a.windows(2).all(|p| p[0] != p[1]) {
        c.label("alternating 0/MAX limbs");
    }
}
