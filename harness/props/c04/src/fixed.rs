//! `Uint<N>`: adc / sbb (with carry / borrow in, chained), wrapping / checked / saturating, operators
//! (by value, by reference, assigning), negation, `Wrapping<Uint>`, `Checked<Uint>`.

use crate::forms::check_wrappers;
use crate::gens::{self, borrow_in, carry_in, ib};
use crypto_bigint::{CheckedAdd, CheckedSub, ConstChoice, Limb, Uint};
use num_bigint::{BigInt, BigUint};
use vmodel::gen::M;
use vmodel::*;

pub fn fixed_case<const N: usize>(t: &mut Tape, c: &mut Case) -> CaseResult {
    let (al, bl_) = gens::pair(t, N);
    let cin = carry_in(t);
    let bin = borrow_in(t);
    c.limbs("a", &al);
    c.limbs("b", &bl_);
    c.num("carry_in", cin);
    c.num("borrow_in", bin);
    gens::classify(c, &al, &bl_, cin, bin, N);
    let (a, b) = (uint::<N>(&al), uint::<N>(&bl_));
    let (ba, bb) = (big(&al), big(&bl_));
    let w = 64 * N as u64;
    let b01 = bin >> 63;

    // ---- oracle ----
    let sum = &ba + &bb;
    let sum_c = &sum + BigUint::from(cin);
    let want_sum = limbs_of(&sum, N);
    let add_over = sum.bits() > w;
    let diff = ib(&ba) - ib(&bb);
    let diff_b = &diff - BigInt::from(b01);
    let want_diff = twos(&diff, N);
    let sub_under = diff < BigInt::from(0);
    let ty = format!("U{}", w);

    // ---- adc / sbb with carry / borrow in ----
    let (r, k) = total("Uint::adc", || a.adc(&b, Limb(cin)))?;
    veq!(ul(&r), limbs_of(&sum_c, N), "{ty}::adc value (carry-in {cin:#x})");
    veq!(vec![k.0], limbs_of(&(&sum_c >> w), 1), "{ty}::adc carry-out (carry-in {cin:#x})");
    let (r, k) = total("Uint::sbb", || a.sbb(&b, Limb(bin)))?;
    veq!(ul(&r), twos(&diff_b, N), "{ty}::sbb value (borrow-in {bin:#x})");
    veq!(k.0, if diff_b < BigInt::from(0) { M } else { 0 }, "{ty}::sbb borrow-out (borrow-in {bin:#x})");

    // ---- the same object as both operands (pointer-identical references) ----
    {
        let two_a = &ba + &ba + BigUint::from(cin);
        let (r, k) = total("Uint::adc(&x, &x)", || a.adc(&a, Limb(cin)))?;
        veq!(ul(&r), limbs_of(&two_a, N), "{ty}::adc with the same object as both operands (carry-in {cin:#x}): value");
        veq!(vec![k.0], limbs_of(&(&two_a >> w), 1), "{ty}::adc with the same object as both operands: carry-out");
        let (r, k) = total("Uint::sbb(&x, &x)", || a.sbb(&a, Limb(bin)))?;
        veq!(ul(&r), if bin != 0 { vec![M; N] } else { vec![0; N] }, "{ty}::sbb with the same object as both operands: value");
        veq!(k.0, if bin != 0 { M } else { 0 }, "{ty}::sbb with the same object as both operands: borrow-out");
    }

    // ---- chaining: the returned carry / borrow is fed to the next (more significant) word ----
    // (a + b·2^W) + (b + a·2^W) + cin over 2N limbs
    let (r0, k0) = a.adc(&b, Limb(cin));
    let (r1, k1) = b.adc(&a, k0);
    let wide = &sum_c + (&sum << w);
    veq!([ul(&r0), ul(&r1)].concat(), limbs_of(&wide, 2 * N), "{ty}: chained adc value");
    veq!(vec![k1.0], limbs_of(&(&wide >> (2 * w)), 1), "{ty}: chained adc carry-out");
    // (a + b·2^W) - (b + a·2^W) - bin
    let (r0, k0) = a.sbb(&b, Limb(bin));
    let (r1, k1) = b.sbb(&a, k0);
    let wide = &diff_b - (&diff << w);
    veq!([ul(&r0), ul(&r1)].concat(), twos(&wide, 2 * N), "{ty}: chained sbb value");
    veq!(k1.0, if wide < BigInt::from(0) { M } else { 0 }, "{ty}: chained sbb borrow-out");

    // ---- wrapping / saturating / checked ----
    veq!(ul(&a.wrapping_add(&b)), want_sum, "{ty}::wrapping_add");
    veq!(ul(&a.wrapping_sub(&b)), want_diff, "{ty}::wrapping_sub");
    veq!(ul(&a.saturating_add(&b)), if add_over { vec![M; N] } else { want_sum.clone() }, "{ty}::saturating_add");
    veq!(ul(&a.saturating_sub(&b)), if sub_under { vec![0; N] } else { want_diff.clone() }, "{ty}::saturating_sub");
    let ck = Option::<Uint<N>>::from(CheckedAdd::checked_add(&a, &b));
    veq!(ck.map(|x| ul(&x)), if add_over { None } else { Some(want_sum.clone()) }, "{ty}::checked_add");
    let ck = Option::<Uint<N>>::from(CheckedSub::checked_sub(&a, &b));
    veq!(ck.map(|x| ul(&x)), if sub_under { None } else { Some(want_diff.clone()) }, "{ty}::checked_sub");

    // ---- operators: panic exactly when the true result is outside [0, 2^W) ----
    let adds: [(&str, Result<Uint<N>, String>); 4] = [
        ("Uint + Uint", guard(|| a + b)),
        ("Uint + &Uint", guard(|| a + &b)),
        ("Uint += Uint", guard(|| {
            let mut x = a;
            x += b;
            x
        })),
        ("Uint += &Uint", guard(|| {
            let mut x = a;
            x += &b;
            x
        })),
    ];
    for (name, r) in adds {
        match r {
            Ok(v) => {
                vensure!(!add_over, "{ty}: {name} returned {} although the sum overflows", hex(&ul(&v)));
                veq!(ul(&v), want_sum, "{ty}: {name}");
            }
            Err(m) => vensure!(add_over, "{ty}: {name} panicked ({m}) although the sum fits"),
        }
    }
    let subs: [(&str, Result<Uint<N>, String>); 4] = [
        ("Uint - Uint", guard(|| a - b)),
        ("Uint - &Uint", guard(|| a - &b)),
        ("Uint -= Uint", guard(|| {
            let mut x = a;
            x -= b;
            x
        })),
        ("Uint -= &Uint", guard(|| {
            let mut x = a;
            x -= &b;
            x
        })),
    ];
    for (name, r) in subs {
        match r {
            Ok(v) => {
                vensure!(!sub_under, "{ty}: {name} returned {} although the difference underflows", hex(&ul(&v)));
                veq!(ul(&v), want_diff, "{ty}: {name}");
            }
            Err(m) => vensure!(sub_under, "{ty}: {name} panicked ({m}) although the difference fits"),
        }
    }

    // ---- negation ----
    for (x, xl) in [(&a, &al), (&b, &bl_)] {
        let mut want = xl.clone();
        vmodel::gen::neg(&mut want);
        let (r, k) = total("Uint::carrying_neg", || x.carrying_neg())?;
        veq!(ul(&r), want, "{ty}::carrying_neg value");
        // documented: the carry is set if and only if self == 0
        veq!(bool::from(k), is_zero(xl), "{ty}::carrying_neg carry");
        veq!(ul(&x.wrapping_neg()), want, "{ty}::wrapping_neg");
        veq!(ul(&x.wrapping_neg_if(ConstChoice::TRUE)), want, "{ty}::wrapping_neg_if(TRUE)");
        veq!(ul(&x.wrapping_neg_if(ConstChoice::FALSE)), *xl, "{ty}::wrapping_neg_if(FALSE)");
    }
    let mut neg_a = al.clone();
    vmodel::gen::neg(&mut neg_a);

    // ---- wrappers ----
    check_wrappers(&ty, a, b, Uint::<N>::ZERO, |x: &Uint<N>| ul(x), &want_sum, add_over, &want_diff, sub_under, &neg_a)
}
