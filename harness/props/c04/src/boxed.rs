//! `BoxedUint`: adc / sbb / adc_assign / sbb_assign, wrapping / checked, operators and assigning forms
//! with `BoxedUint` (equal and different precision), `Uint<N>` (narrower, equal, wider) and
//! `u8..u128` right-hand sides, negation, `Wrapping<BoxedUint>`.
//!
//! Precision conventions that are asserted (DESIGN §3 C04, both documented in the crate):
//!  * `adc`, `sbb`, `wrapping_*`, `checked_*` go through `fold_limbs`, documented to widen the result
//!    to the widest input; the receiver's precision is accepted as well. Value, carry and `is_some`
//!    must be consistent with the precision W of the *returned* value.
//!  * assigning forms (`adc_assign`, `sbb_assign`, `+=`, `-=`, and the `Uint` / primitive operators,
//!    which are built on them) keep the receiver's precision. `adc_assign` / `sbb_assign` document
//!    "Panics if `rhs` has a larger precision than `self`", so for a wider right-hand side the
//!    acceptable outcomes are that panic, or the exact in-range result. A returned value that
//!    differs from the true result is a failure (signature F-04 when it is exactly the result
//!    computed from the truncated right-hand side).

use crate::gens::{self, borrow_in, carry_in, ib};
use crypto_bigint::{BoxedUint, CheckedAdd, CheckedSub, Limb, Wrapping, WrappingAdd, WrappingNeg, WrappingSub};
use num_bigint::{BigInt, BigUint};
use subtle::{Choice, ConditionallyNegatable};
use vmodel::gen::{self, M};
use vmodel::*;

const LENS_BIASED: [usize; 12] = [1, 2, 3, 4, 5, 7, 8, 9, 16, 17, 32, 40];

pub fn boxed_len(t: &mut Tape, max: usize) -> usize {
    let n = match t.weighted(&[3, 2]) {
        0 => t.pick(&LENS_BIASED),
        _ => t.usize_in(1, max),
    };
    n.min(max)
}

/// Everything the outcome checks need to know about one operation `a ∘ rhs (∘ carry)`.
pub struct Op<'a> {
    /// "add" or "sub" (for messages)
    pub what: &'a str,
    /// receiver limbs
    pub l: usize,
    /// right-hand side limbs
    pub r: usize,
    /// true result over the integers
    pub truth: BigInt,
    /// the result computed with the right-hand side truncated to the receiver's precision
    pub trunc: BigInt,
    /// rhs has non-zero limbs above the receiver's precision
    pub rhs_high: bool,
}

impl Op<'_> {
    fn wider(&self) -> bool {
        self.r > self.l
    }
    fn in_range(&self, n: usize) -> bool {
        fits_unsigned_i(&self.truth, n)
    }

    /// A checked (panicking) form that returns a value: operators, `+=`, `-=`.
    /// `width_panic`: the form is built on `adc_assign` / `sbb_assign`, whose documented panic for a
    /// wider rhs is acceptable.
    pub fn checked_form(&self, name: &str, out: Result<BoxedUint, String>, width_panic: bool) -> CaseResult {
        let (l, m) = (self.l, self.l.max(self.r));
        match out {
            Ok(v) => {
                let n = v.nlimbs();
                vensure!(n == l || n == m, "{name}: result has {n} limbs, receiver {l}, rhs {}", self.r);
                let got = ib(&bbig(&v));
                if got == self.truth {
                    return Ok(());
                }
                if self.wider() && self.rhs_high && n == l && got == self.trunc {
                    return Err(Fail::known(
                        "F-04",
                        format!(
                            "{name}: rhs ({} limbs) is wider than the receiver ({l} limbs) and has non-zero high limbs; returned {} = result for the truncated rhs, no panic (true result {:#x} is outside the receiver's range)",
                            self.r,
                            hex(&bl(&v)),
                            self.truth
                        ),
                    ));
                }
                if self.in_range(n) {
                    vfail!("{name}: got {}, want {:#x}", hex(&bl(&v)), self.truth);
                }
                vfail!("{name}: returned {} although the true result {:#x} is outside [0, 2^{})", hex(&bl(&v)), self.truth, 64 * n);
            }
            Err(p) => {
                if self.in_range(l) {
                    vensure!(width_panic && self.wider(), "{name}: panicked ({p}) although the true result {:#x} fits the receiver", self.truth);
                }
                Ok(())
            }
        }
    }

    /// A wrapping form that returns a value and must not panic unless `width_panic` applies.
    pub fn wrapping_form(&self, name: &str, out: Result<BoxedUint, String>, width_panic: bool) -> CaseResult {
        let (l, m) = (self.l, self.l.max(self.r));
        match out {
            Ok(v) => {
                let n = v.nlimbs();
                vensure!(n == l || n == m, "{name}: result has {n} limbs, receiver {l}, rhs {}", self.r);
                vensure!(!width_panic || n == l, "{name}: an assigning form changed the receiver's precision from {l} to {n} limbs");
                veq!(bl(&v), twos(&self.truth, n), "{name} ({l} {} {} limbs)", self.what, self.r);
                Ok(())
            }
            Err(p) => {
                vensure!(width_panic && self.wider(), "{name}: unexpected panic: {p}");
                Ok(())
            }
        }
    }

    /// A `CtOption` form.
    pub fn option_form(&self, name: &str, out: Option<BoxedUint>) -> CaseResult {
        let (l, m) = (self.l, self.l.max(self.r));
        match out {
            Some(v) => {
                let n = v.nlimbs();
                vensure!(n == l || n == m, "{name}: result has {n} limbs, receiver {l}, rhs {}", self.r);
                vensure!(self.in_range(n), "{name}: is_some with {} although the true result {:#x} is outside [0, 2^{})", hex(&bl(&v)), self.truth, 64 * n);
                veq!(ib(&bbig(&v)), self.truth, "{name} value");
                Ok(())
            }
            None => {
                // none is right for W = receiver's precision or W = max: either way the true result
                // must lie outside the smaller of the two ranges
                vensure!(!self.in_range(l), "{name}: none although the true result {:#x} fits {l} limbs", self.truth);
                Ok(())
            }
        }
    }

    /// `adc` / `sbb` (result, carry-or-borrow word). `borrow`: the word is a 0 / MAX mask.
    pub fn carry_form(&self, name: &str, out: (BoxedUint, Limb), borrow: bool) -> CaseResult {
        let (l, m) = (self.l, self.l.max(self.r));
        let (v, k) = out;
        let n = v.nlimbs();
        vensure!(n == l || n == m, "{name}: result has {n} limbs, receiver {l}, rhs {}", self.r);
        self.carry_eq(name, &v, k, n, borrow, &self.truth)
    }

    fn carry_eq(&self, name: &str, v: &BoxedUint, k: Limb, n: usize, borrow: bool, truth: &BigInt) -> CaseResult {
        let w = 64 * n as u64;
        if borrow {
            vensure!(k.0 == 0 || k.0 == M, "{name}: borrow-out {:#x} is neither 0 nor MAX", k.0);
            let got = ib(&bbig(v)) - (BigInt::from(k.0 >> 63) << w);
            vensure!(got == *truth, "{name}: value {} with borrow {:#x} is {:#x}, want {:#x}", hex(&bl(v)), k.0, got, truth);
        } else {
            let got = ib(&bbig(v)) + (BigInt::from(k.0) << w);
            vensure!(got == *truth, "{name}: value {} with carry {:#x} is {:#x}, want {:#x}", hex(&bl(v)), k.0, got, truth);
        }
        Ok(())
    }

    /// `adc_assign` / `sbb_assign` (in place, returns the carry / borrow word).
    pub fn assign_carry_form(&self, name: &str, out: Result<(BoxedUint, Limb), String>, borrow: bool) -> CaseResult {
        let l = self.l;
        match out {
            Ok((v, k)) => {
                veq!(v.nlimbs(), l, "{name}: receiver precision after the call");
                match self.carry_eq(name, &v, k, l, borrow, &self.truth) {
                    Ok(()) => Ok(()),
                    Err(e) => {
                        if self.wider() && self.rhs_high && self.carry_eq(name, &v, k, l, borrow, &self.trunc).is_ok() {
                            return Err(Fail::known(
                                "F-04",
                                format!(
                                    "{name}: rhs ({} limbs) is wider than the receiver ({l} limbs) and has non-zero high limbs; documented to panic, but returned the result for the truncated rhs ({}, carry/borrow {:#x})",
                                    self.r,
                                    hex(&bl(&v)),
                                    k.0
                                ),
                            ));
                        }
                        Err(e)
                    }
                }
            }
            Err(p) => {
                vensure!(self.wider(), "{name}: panicked ({p}) although rhs ({} limbs) is not wider than the receiver ({l} limbs)", self.r);
                Ok(())
            }
        }
    }
}

fn low(b: &BigUint, l: usize) -> BigUint {
    b & mask(64 * l as u64)
}

pub(crate) fn ops(l: usize, r: usize, ba: &BigUint, bb: &BigUint, cin: u64, b01: u64) -> (Op<'static>, Op<'static>, Op<'static>, Op<'static>) {
    let lo = low(bb, l);
    let rhs_high = lo != *bb;
    let add = Op { what: "+", l, r, truth: ib(ba) + ib(bb), trunc: ib(ba) + ib(&lo), rhs_high };
    let sub = Op { what: "-", l, r, truth: ib(ba) - ib(bb), trunc: ib(ba) - ib(&lo), rhs_high };
    let addc = Op { what: "+", l, r, truth: &add.truth + BigInt::from(cin), trunc: &add.trunc + BigInt::from(cin), rhs_high };
    let subb = Op { what: "-", l, r, truth: &sub.truth - BigInt::from(b01), trunc: &sub.trunc - BigInt::from(b01), rhs_high };
    (add, sub, addc, subb)
}

pub(crate) fn label_widths(c: &mut Case, l: usize, r: usize, rhs_high: bool) {
    if r > l {
        c.label("rhs wider than receiver");
        c.label(if rhs_high { "rhs wider: non-zero high limbs" } else { "rhs wider: value fits the receiver" });
    } else if r < l {
        c.label("rhs narrower than receiver");
    } else {
        c.label("equal precision");
    }
}

// ------------------------------------------------------------------------------------------------
// BoxedUint ∘ BoxedUint

pub fn boxed_boxed_case(max: usize) -> impl Fn(&mut Tape, &mut Case) -> CaseResult {
    move |t, c| {
        let l = boxed_len(t, max);
        let r = match t.weighted(&[3, 2, 2, 3]) {
            0 => l,
            1 => (l + 1).min(max),
            2 => l.saturating_sub(1).max(1),
            _ => boxed_len(t, max),
        };
        let (al, bl_) = gens::pair_lr(t, l, r);
        let cin = carry_in(t);
        let bin = borrow_in(t);
        c.limbs("a", &al);
        c.limbs("b", &bl_);
        c.num("carry_in", cin);
        c.num("borrow_in", bin);
        let m = l.max(r);
        gens::classify(c, &al, &bl_, cin, bin, m);
        let (a, b) = (boxed(&al), boxed(&bl_));
        let (ba, bb) = (big(&al), big(&bl_));
        let (add, sub, addc, subb) = ops(l, r, &ba, &bb, cin, bin >> 63);
        label_widths(c, l, r, add.rhs_high);

        // ---- fold_limbs family: widen (or keep the receiver's precision) ----
        addc.carry_form("BoxedUint::adc", total("BoxedUint::adc", || a.adc(&b, Limb(cin)))?, false)?;
        subb.carry_form("BoxedUint::sbb", total("BoxedUint::sbb", || a.sbb(&b, Limb(bin)))?, true)?;
        add.wrapping_form("BoxedUint::wrapping_add", guard(|| a.wrapping_add(&b)), false)?;
        sub.wrapping_form("BoxedUint::wrapping_sub", guard(|| a.wrapping_sub(&b)), false)?;
        add.wrapping_form("WrappingAdd for BoxedUint", guard(|| WrappingAdd::wrapping_add(&a, &b)), false)?;
        sub.wrapping_form("WrappingSub for BoxedUint", guard(|| WrappingSub::wrapping_sub(&a, &b)), false)?;
        add.option_form("BoxedUint::checked_add", total("BoxedUint::checked_add", || Option::<BoxedUint>::from(CheckedAdd::checked_add(&a, &b)))?)?;
        sub.option_form("BoxedUint::checked_sub", total("BoxedUint::checked_sub", || Option::<BoxedUint>::from(CheckedSub::checked_sub(&a, &b)))?)?;

        // ---- the SAME object as both operands (pointer-identical references, not an equal clone):
        //      x + x + carry-in, x - x - borrow-in ----
        {
            let two_a = &ba + &ba + BigUint::from(cin);
            let (v, k) = total("BoxedUint::adc(&x, &x) (same object)", || a.adc(&a, Limb(cin)))?;
            veq!(bl(&v), limbs_of(&two_a, l), "BoxedUint::adc with the same object as both operands (carry-in {cin:#x}): value");
            veq!(vec![k.0], limbs_of(&(&two_a >> (64 * l)), 1), "BoxedUint::adc with the same object as both operands (carry-in {cin:#x}): carry-out");
            let (v, k) = total("BoxedUint::sbb(&x, &x) (same object)", || a.sbb(&a, Limb(bin)))?;
            let want = if bin != 0 { vec![M; l] } else { vec![0; l] };
            veq!(bl(&v), want, "BoxedUint::sbb with the same object as both operands (borrow-in {bin:#x}): value");
            veq!(k.0, if bin != 0 { M } else { 0 }, "BoxedUint::sbb with the same object as both operands: borrow-out");
            veq!(bl(&total("wrapping_add(&x, &x)", || a.wrapping_add(&a))?), limbs_of(&(&ba + &ba), l), "BoxedUint::wrapping_add with the same object as both operands");
            veq!(bl(&total("&x + &x / &x - &x", || a.wrapping_sub(&a))?), vec![0u64; l], "BoxedUint::wrapping_sub with the same object as both operands");
            let ck = total("checked_add(&x, &x)", || Option::<BoxedUint>::from(CheckedAdd::checked_add(&a, &a)))?;
            veq!(ck.map(|v| bl(&v)), if (&ba + &ba).bits() <= 64 * l as u64 { Some(limbs_of(&(&ba + &ba), l)) } else { None }, "BoxedUint::checked_add with the same object as both operands");
        }

        // ---- in-place carry forms ----
        addc.assign_carry_form(
            "BoxedUint::adc_assign(&BoxedUint)",
            guard(|| {
                let mut x = a.clone();
                let k = x.adc_assign(&b, Limb(cin));
                (x, k)
            }),
            false,
        )?;
        subb.assign_carry_form(
            "BoxedUint::sbb_assign(&BoxedUint)",
            guard(|| {
                let mut x = a.clone();
                let k = x.sbb_assign(&b, Limb(bin));
                (x, k)
            }),
            true,
        )?;
        addc.assign_carry_form(
            "BoxedUint::adc_assign(&[Limb])",
            guard(|| {
                let mut x = a.clone();
                let k = x.adc_assign(b.as_limbs(), Limb(cin));
                (x, k)
            }),
            false,
        )?;
        subb.assign_carry_form(
            "BoxedUint::sbb_assign(&[Limb])",
            guard(|| {
                let mut x = a.clone();
                let k = x.sbb_assign(b.as_limbs(), Limb(bin));
                (x, k)
            }),
            true,
        )?;

        // ---- operators (checked: panic exactly when out of range) ----
        let adds: [(&str, Result<BoxedUint, String>, bool); 6] = [
            ("BoxedUint + BoxedUint", guard(|| a.clone() + b.clone()), false),
            ("BoxedUint + &BoxedUint", guard(|| a.clone() + &b), false),
            ("&BoxedUint + BoxedUint", guard(|| &a + b.clone()), false),
            ("&BoxedUint + &BoxedUint", guard(|| &a + &b), false),
            ("BoxedUint += BoxedUint", guard(|| {
                let mut x = a.clone();
                x += b.clone();
                x
            }), true),
            ("BoxedUint += &BoxedUint", guard(|| {
                let mut x = a.clone();
                x += &b;
                x
            }), true),
        ];
        for (name, out, wp) in adds {
            add.checked_form(name, out, wp)?;
        }
        let subs: [(&str, Result<BoxedUint, String>, bool); 6] = [
            ("BoxedUint - BoxedUint", guard(|| a.clone() - b.clone()), false),
            ("BoxedUint - &BoxedUint", guard(|| a.clone() - &b), false),
            ("&BoxedUint - BoxedUint", guard(|| &a - b.clone()), false),
            ("&BoxedUint - &BoxedUint", guard(|| &a - &b), false),
            ("BoxedUint -= BoxedUint", guard(|| {
                let mut x = a.clone();
                x -= b.clone();
                x
            }), true),
            ("BoxedUint -= &BoxedUint", guard(|| {
                let mut x = a.clone();
                x -= &b;
                x
            }), true),
        ];
        for (name, out, wp) in subs {
            sub.checked_form(name, out, wp)?;
        }

        // ---- Wrapping<BoxedUint> ----
        let (wa, wb) = (Wrapping(a.clone()), Wrapping(b.clone()));
        let wadds: [(&str, Result<BoxedUint, String>, bool); 6] = [
            ("Wrapping<BoxedUint> + Wrapping", guard(|| (wa.clone() + wb.clone()).0), false),
            ("Wrapping<BoxedUint> + &Wrapping", guard(|| (wa.clone() + &wb).0), false),
            ("&Wrapping<BoxedUint> + Wrapping", guard(|| (&wa + wb.clone()).0), false),
            ("&Wrapping<BoxedUint> + &Wrapping", guard(|| (&wa + &wb).0), false),
            ("Wrapping<BoxedUint> += Wrapping", guard(|| {
                let mut x = wa.clone();
                x += wb.clone();
                x.0
            }), true),
            ("Wrapping<BoxedUint> += &Wrapping", guard(|| {
                let mut x = wa.clone();
                x += &wb;
                x.0
            }), true),
        ];
        for (name, out, wp) in wadds {
            add.wrapping_form(name, out, wp)?;
        }
        let wsubs: [(&str, Result<BoxedUint, String>, bool); 6] = [
            ("Wrapping<BoxedUint> - Wrapping", guard(|| (wa.clone() - wb.clone()).0), false),
            ("Wrapping<BoxedUint> - &Wrapping", guard(|| (wa.clone() - &wb).0), false),
            ("&Wrapping<BoxedUint> - Wrapping", guard(|| (&wa - wb.clone()).0), false),
            ("&Wrapping<BoxedUint> - &Wrapping", guard(|| (&wa - &wb).0), false),
            ("Wrapping<BoxedUint> -= Wrapping", guard(|| {
                let mut x = wa.clone();
                x -= wb.clone();
                x.0
            }), true),
            ("Wrapping<BoxedUint> -= &Wrapping", guard(|| {
                let mut x = wa.clone();
                x -= &wb;
                x.0
            }), true),
        ];
        for (name, out, wp) in wsubs {
            sub.wrapping_form(name, out, wp)?;
        }

        // ---- negation (precision is the operand's) ----
        for (x, xl) in [(&a, &al), (&b, &bl_)] {
            let mut want = xl.clone();
            gen::neg(&mut want);
            veq!(bl(&total("BoxedUint::wrapping_neg", || x.wrapping_neg())?), want, "BoxedUint::wrapping_neg ({} limbs)", xl.len());
            veq!(bl(&WrappingNeg::wrapping_neg(x)), want, "WrappingNeg for BoxedUint");
            veq!(bl(&(-Wrapping(x.clone())).0), want, "-Wrapping<BoxedUint>");
            veq!(bl(&(-&Wrapping(x.clone())).0), want, "-&Wrapping<BoxedUint>");
            let mut y = x.clone();
            y.conditional_negate(Choice::from(1));
            veq!(bl(&y), want, "BoxedUint::conditional_negate(1)");
            let mut y = x.clone();
            y.conditional_negate(Choice::from(0));
            veq!(bl(&y), *xl, "BoxedUint::conditional_negate(0)");
        }
        Ok(())
    }
}

// ------------------------------------------------------------------------------------------------
// BoxedUint ∘ Uint<N>

pub fn boxed_uint_case<const N: usize>(max: usize) -> impl Fn(&mut Tape, &mut Case) -> CaseResult {
    move |t, c| {
        let l = match t.weighted(&[3, 2, 2, 2, 3]) {
            0 => N,
            1 => N + 1,
            2 => N.saturating_sub(1).max(1),
            3 => 1,
            _ => boxed_len(t, max),
        }
        .min(max);
        let (al, bl_) = if t.chance(2, 3) {
            gens::pair_lr(t, l, N)
        } else {
            let b = gen::limbs(t, N);
            (gens::receiver_for(t, l, &big(&b)), b)
        };
        let cin = carry_in(t);
        let bin = borrow_in(t);
        c.limbs("a", &al);
        c.limbs("b", &bl_);
        c.num("carry_in", cin);
        c.num("borrow_in", bin);
        gens::classify(c, &al, &bl_, cin, bin, l.max(N));
        let a = boxed(&al);
        let b = uint::<N>(&bl_);
        let (ba, bb) = (big(&al), big(&bl_));
        let (add, sub, addc, subb) = ops(l, N, &ba, &bb, cin, bin >> 63);
        label_widths(c, l, N, add.rhs_high);

        let adds: [(&str, Result<BoxedUint, String>); 6] = [
            ("BoxedUint + Uint", guard(|| a.clone() + b)),
            ("BoxedUint + &Uint", guard(|| a.clone() + &b)),
            ("&BoxedUint + Uint", guard(|| &a + b)),
            ("&BoxedUint + &Uint", guard(|| &a + &b)),
            ("BoxedUint += Uint", guard(|| {
                let mut x = a.clone();
                x += b;
                x
            })),
            ("BoxedUint += &Uint", guard(|| {
                let mut x = a.clone();
                x += &b;
                x
            })),
        ];
        for (name, out) in adds {
            add.checked_form(&format!("{name}<{N}>"), out, true)?;
        }
        let subs: [(&str, Result<BoxedUint, String>); 6] = [
            ("BoxedUint - Uint", guard(|| a.clone() - b)),
            ("BoxedUint - &Uint", guard(|| a.clone() - &b)),
            ("&BoxedUint - Uint", guard(|| &a - b)),
            ("&BoxedUint - &Uint", guard(|| &a - &b)),
            ("BoxedUint -= Uint", guard(|| {
                let mut x = a.clone();
                x -= b;
                x
            })),
            ("BoxedUint -= &Uint", guard(|| {
                let mut x = a.clone();
                x -= &b;
                x
            })),
        ];
        for (name, out) in subs {
            sub.checked_form(&format!("{name}<{N}>"), out, true)?;
        }
        addc.assign_carry_form(
            &format!("BoxedUint::adc_assign(Uint<{N}>::as_limbs)"),
            guard(|| {
                let mut x = a.clone();
                let k = x.adc_assign(b.as_limbs(), Limb(cin));
                (x, k)
            }),
            false,
        )?;
        subb.assign_carry_form(
            &format!("BoxedUint::sbb_assign(Uint<{N}>::as_limbs)"),
            guard(|| {
                let mut x = a.clone();
                let k = x.sbb_assign(b.as_limbs(), Limb(bin));
                (x, k)
            }),
            true,
        )?;
        addc.assign_carry_form(
            &format!("BoxedUint::adc_assign(Uint<{N}>)"),
            guard(|| {
                let mut x = a.clone();
                let k = x.adc_assign(b, Limb(cin));
                (x, k)
            }),
            false,
        )?;
        subb.assign_carry_form(
            &format!("BoxedUint::sbb_assign(&Uint<{N}>)"),
            guard(|| {
                let mut x = a.clone();
                let k = x.sbb_assign(&b, Limb(bin));
                (x, k)
            }),
            true,
        )?;
        Ok(())
    }
}

// ------------------------------------------------------------------------------------------------
// BoxedUint ∘ u8..u128

macro_rules! prim_forms {
    ($a:expr, $p:expr, $ty:literal) => {{
        let p = $p;
        let adds: [(&str, Result<BoxedUint, String>); 3] = [
            (concat!("BoxedUint + ", $ty), guard(|| $a.clone() + p)),
            (concat!("&BoxedUint + ", $ty), guard(|| &$a + p)),
            (concat!("BoxedUint += ", $ty), guard(|| {
                let mut x = $a.clone();
                x += p;
                x
            })),
        ];
        let subs: [(&str, Result<BoxedUint, String>); 3] = [
            (concat!("BoxedUint - ", $ty), guard(|| $a.clone() - p)),
            (concat!("&BoxedUint - ", $ty), guard(|| &$a - p)),
            (concat!("BoxedUint -= ", $ty), guard(|| {
                let mut x = $a.clone();
                x -= p;
                x
            })),
        ];
        (adds, subs)
    }};
}

pub fn boxed_prim_case(max: usize) -> impl Fn(&mut Tape, &mut Case) -> CaseResult {
    move |t, c| {
        let l = match t.weighted(&[4, 3, 2, 3]) {
            0 => 1,
            1 => 2,
            2 => 3,
            _ => boxed_len(t, max),
        };
        let kind = t.below(5);
        // value: edge-biased 128-bit word, truncated to the primitive's width
        let lo = gen::word(t);
        let hi = match t.weighted(&[2, 2, 1, 2]) {
            0 => 0,
            1 => gen::word(t),
            2 => 1,
            _ => M,
        };
        let v128: u128 = ((hi as u128) << 64) | lo as u128;
        let (p, tyname, r): (u128, &'static str, usize) = match kind {
            0 => (v128 as u8 as u128, "u8", 1),
            1 => (v128 as u16 as u128, "u16", 1),
            2 => (v128 as u32 as u128, "u32", 1),
            3 => (v128 as u64 as u128, "u64", 1),
            _ => (v128, "u128", 2),
        };
        let bb = BigUint::from(p);
        let al = gens::receiver_for(t, l, &bb);
        c.limbs("a", &al);
        c.limbs("rhs", &[p as u64, (p >> 64) as u64]);
        c.text("rhs type", tyname);
        c.label(format!("rhs {tyname}"));
        let b_l = limbs_of(&bb, r);
        gens::classify(c, &al, &b_l, 0, 0, l.max(r));
        let a = boxed(&al);
        let ba = big(&al);
        let (add, sub, _, _) = ops(l, r, &ba, &bb, 0, 0);
        label_widths(c, l, r, add.rhs_high);

        let (adds, subs) = match kind {
            0 => prim_forms!(a, p as u8, "u8"),
            1 => prim_forms!(a, p as u16, "u16"),
            2 => prim_forms!(a, p as u32, "u32"),
            3 => prim_forms!(a, p as u64, "u64"),
            _ => prim_forms!(a, p, "u128"),
        };
        for (name, out) in adds {
            add.checked_form(name, out, true)?;
        }
        for (name, out) in subs {
            sub.checked_form(name, out, true)?;
        }
        Ok(())
    }
}
