//! Every by-value / by-reference / assigning form of the `Wrapping<T>` and `Checked<T>` wrappers for
//! the `Copy` integer types (`Limb`, `Uint<N>`), collected so that one oracle value checks them all.

use core::ops::{AddAssign, SubAssign};
use crypto_bigint::{Checked, CheckedAdd, CheckedSub, Wrapping, WrappingAdd, WrappingNeg, WrappingSub};
use subtle::{Choice, ConditionallySelectable, CtOption};
use vmodel::*;

pub fn wrapping_add_forms<T>(a: T, b: T) -> [(&'static str, T); 6]
where
    T: Copy + WrappingAdd,
    Wrapping<T>: AddAssign + for<'x> AddAssign<&'x Wrapping<T>>,
{
    let (wa, wb) = (Wrapping(a), Wrapping(b));
    let mut x = wa;
    x += wb;
    let mut y = wa;
    y += &wb;
    [
        ("Wrapping + Wrapping", (wa + wb).0),
        ("Wrapping + &Wrapping", (wa + &wb).0),
        ("&Wrapping + Wrapping", (&wa + wb).0),
        ("&Wrapping + &Wrapping", (&wa + &wb).0),
        ("Wrapping += Wrapping", x.0),
        ("Wrapping += &Wrapping", y.0),
    ]
}

pub fn wrapping_sub_forms<T>(a: T, b: T) -> [(&'static str, T); 6]
where
    T: Copy + WrappingSub,
    Wrapping<T>: SubAssign + for<'x> SubAssign<&'x Wrapping<T>>,
{
    let (wa, wb) = (Wrapping(a), Wrapping(b));
    let mut x = wa;
    x -= wb;
    let mut y = wa;
    y -= &wb;
    [
        ("Wrapping - Wrapping", (wa - wb).0),
        ("Wrapping - &Wrapping", (wa - &wb).0),
        ("&Wrapping - Wrapping", (&wa - wb).0),
        ("&Wrapping - &Wrapping", (&wa - &wb).0),
        ("Wrapping -= Wrapping", x.0),
        ("Wrapping -= &Wrapping", y.0),
    ]
}

pub fn wrapping_neg_forms<T>(a: T) -> [(&'static str, T); 3]
where
    T: Copy + WrappingNeg,
{
    let wa = Wrapping(a);
    [("-Wrapping", (-wa).0), ("-&Wrapping", (-&wa).0), ("WrappingNeg::wrapping_neg", WrappingNeg::wrapping_neg(&a))]
}

pub fn checked_add_forms<T>(a: Checked<T>, b: Checked<T>) -> [(&'static str, Checked<T>); 6]
where
    T: Copy + CheckedAdd + ConditionallySelectable + Default,
    Checked<T>: AddAssign + for<'x> AddAssign<&'x Checked<T>>,
{
    let mut x = a;
    x += b;
    let mut y = a;
    y += &b;
    [
        ("Checked + Checked", a + b),
        ("Checked + &Checked", a + &b),
        ("&Checked + Checked", &a + b),
        ("&Checked + &Checked", &a + &b),
        ("Checked += Checked", x),
        ("Checked += &Checked", y),
    ]
}

pub fn checked_sub_forms<T>(a: Checked<T>, b: Checked<T>) -> [(&'static str, Checked<T>); 6]
where
    T: Copy + CheckedSub + ConditionallySelectable + Default,
    Checked<T>: SubAssign + for<'x> SubAssign<&'x Checked<T>>,
{
    let mut x = a;
    x -= b;
    let mut y = a;
    y -= &b;
    [
        ("Checked - Checked", a - b),
        ("Checked - &Checked", a - &b),
        ("&Checked - Checked", &a - b),
        ("&Checked - &Checked", &a - &b),
        ("Checked -= Checked", x),
        ("Checked -= &Checked", y),
    ]
}

pub fn opt<T>(c: Checked<T>) -> Option<T> {
    Option::<T>::from(c.0)
}

/// a `none` wrapper whose inner value is `inner`
pub fn none_of<T>(inner: T) -> Checked<T> {
    Checked(CtOption::new(inner, Choice::from(0)))
}

/// All `Wrapping<T>` / `Checked<T>` add, sub, neg forms against the expected wrapped values
/// (`sum`, `diff`, `neg_a`) and overflow flags. `key` maps a value to something comparable.
#[allow(clippy::too_many_arguments)]
pub fn check_wrappers<T, K>(
    ty: &str,
    a: T,
    b: T,
    zero: T,
    key: impl Fn(&T) -> K,
    sum: &K,
    sum_overflows: bool,
    diff: &K,
    diff_underflows: bool,
    neg_a: &K,
) -> CaseResult
where
    K: PartialEq + core::fmt::Debug,
    T: Copy + WrappingAdd + WrappingSub + WrappingNeg + CheckedAdd + CheckedSub + ConditionallySelectable + Default,
    Wrapping<T>: AddAssign + for<'x> AddAssign<&'x Wrapping<T>> + SubAssign + for<'x> SubAssign<&'x Wrapping<T>>,
    Checked<T>: AddAssign + for<'x> AddAssign<&'x Checked<T>> + SubAssign + for<'x> SubAssign<&'x Checked<T>>,
{
    for (name, v) in total("Wrapping add forms", || wrapping_add_forms(a, b))? {
        veq!(key(&v), *sum, "{ty}: {name}");
    }
    for (name, v) in total("Wrapping sub forms", || wrapping_sub_forms(a, b))? {
        veq!(key(&v), *diff, "{ty}: {name}");
    }
    for (name, v) in total("Wrapping neg forms", || wrapping_neg_forms(a))? {
        veq!(key(&v), *neg_a, "{ty}: {name}");
    }
    veq!(key(&WrappingAdd::wrapping_add(&a, &b)), *sum, "{ty}: WrappingAdd::wrapping_add");
    veq!(key(&WrappingSub::wrapping_sub(&a, &b)), *diff, "{ty}: WrappingSub::wrapping_sub");

    let (ca, cb) = (Checked::new(a), Checked::new(b));
    for (name, v) in total("Checked add forms", || checked_add_forms(ca, cb))? {
        let o = opt(v);
        veq!(o.is_some(), !sum_overflows, "{ty}: {name} is_some");
        if let Some(x) = o {
            veq!(key(&x), *sum, "{ty}: {name} value");
        }
    }
    for (name, v) in total("Checked sub forms", || checked_sub_forms(ca, cb))? {
        let o = opt(v);
        veq!(o.is_some(), !diff_underflows, "{ty}: {name} is_some");
        if let Some(x) = o {
            veq!(key(&x), *diff, "{ty}: {name} value");
        }
    }
    // `none` is sticky: an operation with a `none` operand is `none` even when the inner values
    // would not overflow (x + 0, x - 0, 0 + x).
    let stick = total("Checked sticky forms", || {
        let mut v: Vec<(&'static str, &'static str, Checked<T>)> = vec![];
        for (name, r) in checked_add_forms(none_of(a), Checked::new(zero)) {
            v.push(("none(a) + some(0)", name, r));
        }
        for (name, r) in checked_add_forms(Checked::new(a), none_of(zero)) {
            v.push(("some(a) + none(0)", name, r));
        }
        for (name, r) in checked_sub_forms(none_of(a), Checked::new(zero)) {
            v.push(("none(a) - some(0)", name, r));
        }
        for (name, r) in checked_sub_forms(Checked::new(a), none_of(zero)) {
            v.push(("some(a) - none(0)", name, r));
        }
        v
    })?;
    for (what, name, r) in stick {
        vensure!(opt(r).is_none(), "{ty}: {what} via {name} must stay none");
    }
    // chain: (a + b) - b is some(a) iff a + b did not overflow; (a - b) + b likewise
    let chain = opt((ca + cb) - cb);
    veq!(chain.is_some(), !sum_overflows, "{ty}: Checked (a + b) - b is_some");
    if let Some(x) = chain {
        veq!(key(&x), key(&a), "{ty}: Checked (a + b) - b value");
    }
    let chain = opt((ca - cb) + cb);
    veq!(chain.is_some(), !diff_underflows, "{ty}: Checked (a - b) + b is_some");
    if let Some(x) = chain {
        veq!(key(&x), key(&a), "{ty}: Checked (a - b) + b value");
    }
    Ok(())
}
