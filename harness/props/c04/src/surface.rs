//! C04 surface — forms, routes and instantiations of the add / sub / neg API that the other modules
//! do not call (API-surface audit, table in /verif/audit/B.md).
//!
//! Everything asserted is the C04 statement itself ("return the mathematical result reduced modulo
//! 2^BITS of the receiver, and the reported carry, borrow, overflow flag, `none` or panic occurs
//! exactly when the true result lies outside [0, 2^BITS)") or the item documentation quoted at the
//! check; for boxed operands of different precision the conventions of `boxed.rs` are reused
//! unchanged (`Op::{checked_form, wrapping_form, option_form, assign_carry_form}`).
//!
//!  * generic-function routes: `fn f<T: Integer>` (`+`, `+ &`, `+=`, `+= &`, `-`, `- &`, `-=`, `-= &`),
//!    `fn f<T: CheckedAdd / CheckedSub / WrappingAdd / WrappingSub / WrappingNeg>`, and a fold over
//!    `num_traits::Zero::zero()` + `Add` (the only caller of `num_traits::Zero for Wrapping<T>` as the
//!    start of a sum) for `T` in {`Uint<N>`, `BoxedUint`} and their `Wrapping<_>` wrappers, `Limb`.
//!  * `BoxedUint::{adc_assign, sbb_assign}(rhs: impl AsRef<[Limb]>)` with the remaining `AsRef<[Limb]>`
//!    argument types: `Vec<Limb>`, `&Vec<Limb>`, `Box<[Limb]>`, `[Limb; 2]`, `BoxedUint` by value,
//!    `&Uint<2>` for `adc_assign` and `Uint<2>` by value for `sbb_assign` (the other two were covered).
//!  * wrappers whose operands were *constructed through another route* before use: `From<CtOption>`,
//!    `Default`, `conditional_select`, `ConstantTimeSelect::{ct_select, ct_assign, ct_swap}`, bincode
//!    round trip (`Deserialize for Checked<T>` / `Wrapping<T>`), for `T` in {`Limb`, `Uint<3>`, `Uint<5>`}.
//!  * widths: limb counts outside the listed 1..12,16,32 (13, 15, 17, 24, 64); the identity-value
//!    checks and the `Checked` none-through-all-forms probe at 3, 5, 7 limbs (only 1, 2, 4, 8 before).
//!
//! Non-trivial: the crate's rule (`gens::classify`).

use crate::boxed::{self, boxed_len};
use crate::forms::{checked_add_forms, checked_sub_forms, none_of, opt, wrapping_add_forms, wrapping_neg_forms, wrapping_sub_forms};
use crate::gens::{self, borrow_in, carry_in, ib};
use core::ops::{AddAssign, SubAssign};
use crypto_bigint::{
    Checked, CheckedAdd, CheckedSub, ConstantTimeSelect, Encoding, Integer, Limb, Uint, Wrapping, WrappingAdd, WrappingNeg,
    WrappingSub,
};
use num_bigint::BigInt;
use subtle::{Choice, ConditionallySelectable, CtOption};
use vmodel::gen::{self, M};
use vmodel::*;

// ------------------------------------------------------------------------------------------------
// generic-function routes

type Forms<T> = [(&'static str, Result<T, String>, bool); 4];

/// `fn f<T: Integer>`: the operator forms the `Integer` bound provides. The flag marks the assigning
/// forms (for `BoxedUint` they are built on `adc_assign`: a wider rhs may panic).
fn g_integer_add<T: Integer>(a: &T, b: &T) -> Forms<T> {
    [
        ("fn<T: Integer> a + b", guard(|| a.clone() + b.clone()), false),
        ("fn<T: Integer> a + &b", guard(|| a.clone() + b), false),
        ("fn<T: Integer> a += b", guard(|| {
            let mut x = a.clone();
            x += b.clone();
            x
        }), true),
        ("fn<T: Integer> a += &b", guard(|| {
            let mut x = a.clone();
            x += b;
            x
        }), true),
    ]
}

fn g_integer_sub<T: Integer>(a: &T, b: &T) -> Forms<T> {
    [
        ("fn<T: Integer> a - b", guard(|| a.clone() - b.clone()), false),
        ("fn<T: Integer> a - &b", guard(|| a.clone() - b), false),
        ("fn<T: Integer> a -= b", guard(|| {
            let mut x = a.clone();
            x -= b.clone();
            x
        }), true),
        ("fn<T: Integer> a -= &b", guard(|| {
            let mut x = a.clone();
            x -= b;
            x
        }), true),
    ]
}

fn g_checked_add<T: CheckedAdd>(a: &T, b: &T) -> Option<T> {
    a.checked_add(b).into()
}
fn g_checked_sub<T: CheckedSub>(a: &T, b: &T) -> Option<T> {
    a.checked_sub(b).into()
}
fn g_wrapping_add<T: WrappingAdd>(a: &T, b: &T) -> T {
    a.wrapping_add(b)
}
fn g_wrapping_sub<T: WrappingSub>(a: &T, b: &T) -> T {
    a.wrapping_sub(b)
}
fn g_wrapping_neg<T: WrappingNeg>(a: &T) -> T {
    a.wrapping_neg()
}
/// a sum the way generic numeric code writes it: fold from `num_traits::Zero::zero()`
fn g_sum<T: num_traits::Zero + Clone>(xs: &[T]) -> T {
    xs.iter().fold(T::zero(), |acc, x| acc + x.clone())
}

fn fixed_generic<const N: usize>(t: &mut Tape, c: &mut Case) -> CaseResult {
    let (al, bl_) = gens::pair(t, N);
    // third summand for the fold: 0, small, or arbitrary
    let xl = match t.weighted(&[2, 2, 3]) {
        0 => vec![0; N],
        1 => {
            let mut v = vec![0; N];
            v[0] = t.below(3);
            v
        }
        _ => gen::limbs(t, N),
    };
    c.limbs("a", &al);
    c.limbs("b", &bl_);
    c.limbs("x", &xl);
    gens::classify(c, &al, &bl_, 0, 0, N);
    let (a, b, x) = (uint::<N>(&al), uint::<N>(&bl_), uint::<N>(&xl));
    let (ba, bb) = (big(&al), big(&bl_));
    let w = 64 * N as u64;
    let sum = &ba + &bb;
    let want_sum = limbs_of(&sum, N);
    let add_over = sum.bits() > w;
    let diff = ib(&ba) - ib(&bb);
    let want_diff = twos(&diff, N);
    let sub_under = diff < BigInt::from(0);
    let ty = format!("Uint<{N}>");

    // operators panic exactly when the true result is outside [0, 2^W)
    for (name, r, _) in g_integer_add(&a, &b) {
        match r {
            Ok(v) => {
                vensure!(!add_over, "{ty}: {name} returned {} although the sum overflows", hex(&ul(&v)));
                veq!(ul(&v), want_sum, "{ty}: {name}");
            }
            Err(m) => vensure!(add_over, "{ty}: {name} panicked ({m}) although the sum fits"),
        }
    }
    for (name, r, _) in g_integer_sub(&a, &b) {
        match r {
            Ok(v) => {
                vensure!(!sub_under, "{ty}: {name} returned {} although the difference underflows", hex(&ul(&v)));
                veq!(ul(&v), want_diff, "{ty}: {name}");
            }
            Err(m) => vensure!(sub_under, "{ty}: {name} panicked ({m}) although the difference fits"),
        }
    }
    veq!(g_checked_add(&a, &b).map(|v| ul(&v)), if add_over { None } else { Some(want_sum.clone()) }, "{ty}: fn<T: CheckedAdd>");
    veq!(g_checked_sub(&a, &b).map(|v| ul(&v)), if sub_under { None } else { Some(want_diff.clone()) }, "{ty}: fn<T: CheckedSub>");
    veq!(ul(&g_wrapping_add(&a, &b)), want_sum, "{ty}: fn<T: WrappingAdd>");
    veq!(ul(&g_wrapping_sub(&a, &b)), want_diff, "{ty}: fn<T: WrappingSub>");
    let mut neg_a = al.clone();
    gen::neg(&mut neg_a);
    veq!(ul(&g_wrapping_neg(&a)), neg_a, "{ty}: fn<T: WrappingNeg>");

    // fold from zero(): partial sums are monotone, so a panic occurs iff the total overflows
    let total3 = &sum + big(&xl);
    if total3.bits() > w {
        c.label("fold: a + b + x overflows");
    }
    veq!(ul(&total("fold over Wrapping<Uint>", || g_sum(&[Wrapping(a), Wrapping(b), Wrapping(x)]))?.0), limbs_of(&total3, N), "{ty}: fold(zero(), +) over Wrapping");
    match guard(|| g_sum(&[a, b, x])) {
        Ok(v) => {
            vensure!(total3.bits() <= w, "{ty}: fold(zero(), +) returned {} although the sum overflows", hex(&ul(&v)));
            veq!(ul(&v), limbs_of(&total3, N), "{ty}: fold(zero(), +)");
        }
        Err(m) => vensure!(total3.bits() > w, "{ty}: fold(zero(), +) panicked ({m}) although the sum fits"),
    }
    Ok(())
}

fn boxed_generic(max: usize) -> impl Fn(&mut Tape, &mut Case) -> CaseResult {
    move |t, c| {
        let l = boxed_len(t, max);
        let r = match t.weighted(&[3, 2, 2, 3]) {
            0 => l,
            1 => (l + 1).min(max),
            2 => l.saturating_sub(1).max(1),
            _ => boxed_len(t, max),
        };
        let (al, bl_) = gens::pair_lr(t, l, r);
        c.limbs("a", &al);
        c.limbs("b", &bl_);
        let m = l.max(r);
        gens::classify(c, &al, &bl_, 0, 0, m);
        let (a, b) = (boxed(&al), boxed(&bl_));
        let (ba, bb) = (big(&al), big(&bl_));
        let (add, sub, _, _) = boxed::ops(l, r, &ba, &bb, 0, 0);
        boxed::label_widths(c, l, r, add.rhs_high);

        for (name, out, assigning) in g_integer_add(&a, &b) {
            add.checked_form(name, out, assigning)?;
        }
        for (name, out, assigning) in g_integer_sub(&a, &b) {
            sub.checked_form(name, out, assigning)?;
        }
        add.option_form("fn<T: CheckedAdd>(BoxedUint)", total("fn<T: CheckedAdd>", || g_checked_add(&a, &b))?)?;
        sub.option_form("fn<T: CheckedSub>(BoxedUint)", total("fn<T: CheckedSub>", || g_checked_sub(&a, &b))?)?;
        add.wrapping_form("fn<T: WrappingAdd>(BoxedUint)", guard(|| g_wrapping_add(&a, &b)), false)?;
        sub.wrapping_form("fn<T: WrappingSub>(BoxedUint)", guard(|| g_wrapping_sub(&a, &b)), false)?;
        let mut neg_a = al.clone();
        gen::neg(&mut neg_a);
        veq!(bl(&total("fn<T: WrappingNeg>", || g_wrapping_neg(&a))?), neg_a, "fn<T: WrappingNeg>(BoxedUint, {l} limbs)");

        // fold from `Wrapping::<BoxedUint>::zero()` (a succinct zero): the precision of the result is
        // not documented, so only the value is asserted: the result is a + b modulo 2^(its own width)
        let s = total("fold over Wrapping<BoxedUint>", || g_sum(&[Wrapping(a.clone()), Wrapping(b.clone())]))?.0;
        let n = s.nlimbs();
        c.label(if n == m { "fold: result has max(l, r) limbs" } else { "fold: result has another precision" });
        veq!(bl(&s), twos(&add.truth, n), "fold(zero(), +) over Wrapping<BoxedUint> ({l} + {r} limbs, result {n} limbs)");
        Ok(())
    }
}

// ------------------------------------------------------------------------------------------------
// adc_assign / sbb_assign with the remaining `AsRef<[Limb]>` argument types
//
// documented: "Computes `a + b + carry` in-place, returning the new carry. Panics if `rhs` has a
// larger precision than `self`." (and the same for `sbb_assign` with `a - (b + borrow)`)

fn boxed_asref(max: usize) -> impl Fn(&mut Tape, &mut Case) -> CaseResult {
    move |t, c| {
        let l = boxed_len(t, max);
        let r = match t.weighted(&[3, 2, 2, 3]) {
            0 => l,
            1 => (l + 1).min(max),
            2 => l.saturating_sub(1).max(1),
            _ => boxed_len(t, max),
        };
        let (al, bl_) = gens::pair_lr(t, l, r);
        let cin = carry_in(t);
        let bin = borrow_in(t);
        c.limbs("a", &al);
        c.limbs("b", &bl_);
        c.num("carry_in", cin);
        c.num("borrow_in", bin);
        gens::classify(c, &al, &bl_, cin, bin, l.max(r));
        let a = boxed(&al);
        let ba = big(&al);
        let (add, _, addc, subb) = boxed::ops(l, r, &ba, &big(&bl_), cin, bin >> 63);
        boxed::label_widths(c, l, r, add.rhs_high);
        let rhs_vec: Vec<Limb> = bl_.iter().map(|&w| Limb(w)).collect();

        macro_rules! both {
            ($tyname:literal, $mk:expr) => {{
                addc.assign_carry_form(
                    concat!("BoxedUint::adc_assign(", $tyname, ")"),
                    guard(|| {
                        let mut x = a.clone();
                        let k = x.adc_assign($mk, Limb(cin));
                        (x, k)
                    }),
                    false,
                )?;
                subb.assign_carry_form(
                    concat!("BoxedUint::sbb_assign(", $tyname, ")"),
                    guard(|| {
                        let mut x = a.clone();
                        let k = x.sbb_assign($mk, Limb(bin));
                        (x, k)
                    }),
                    true,
                )?;
            }};
        }
        both!("Vec<Limb>", rhs_vec.clone());
        both!("&Vec<Limb>", &rhs_vec);
        both!("Box<[Limb]>", rhs_vec.clone().into_boxed_slice());
        both!("BoxedUint by value", boxed(&bl_));
        both!("&&BoxedUint", &&boxed(&bl_));

        // two-limb right-hand sides of fixed type
        let b2: Limbs = gens::pad(&bl_, 2)[..2].to_vec();
        let (_, _, addc2, subb2) = boxed::ops(l, 2, &ba, &big(&b2), cin, bin >> 63);
        let arr = [Limb(b2[0]), Limb(b2[1])];
        let u2 = uint::<2>(&b2);
        addc2.assign_carry_form(
            "BoxedUint::adc_assign([Limb; 2])",
            guard(|| {
                let mut x = a.clone();
                let k = x.adc_assign(arr, Limb(cin));
                (x, k)
            }),
            false,
        )?;
        subb2.assign_carry_form(
            "BoxedUint::sbb_assign([Limb; 2])",
            guard(|| {
                let mut x = a.clone();
                let k = x.sbb_assign(arr, Limb(bin));
                (x, k)
            }),
            true,
        )?;
        addc2.assign_carry_form(
            "BoxedUint::adc_assign(&Uint<2>)",
            guard(|| {
                let mut x = a.clone();
                let k = x.adc_assign(&u2, Limb(cin));
                (x, k)
            }),
            false,
        )?;
        subb2.assign_carry_form(
            "BoxedUint::sbb_assign(Uint<2>)",
            guard(|| {
                let mut x = a.clone();
                let k = x.sbb_assign(u2, Limb(bin));
                (x, k)
            }),
            true,
        )?;
        Ok(())
    }
}

// ------------------------------------------------------------------------------------------------
// wrapper operands constructed through another route

/// `Checked<T>` / `Wrapping<T>` operands that went through `From<CtOption>`, `Default`, constant-time
/// selection (subtle: "Select `a` or `b` according to `choice`: `a` if `choice == Choice(0)`; `b` if
/// `choice == Choice(1)`") or a bincode round trip, then through every add / sub / neg form.
#[allow(clippy::too_many_arguments)]
fn routes_copy<T>(
    ty: &str,
    a: T,
    b: T,
    decoy: T,
    key: &dyn Fn(&T) -> Limbs,
    sum: &Limbs,
    sum_overflows: bool,
    diff: &Limbs,
    diff_underflows: bool,
    neg_a: &Limbs,
) -> CaseResult
where
    T: Copy + CheckedAdd + CheckedSub + WrappingAdd + WrappingSub + WrappingNeg + ConditionallySelectable + Default + serde::Serialize + serde::de::DeserializeOwned,
    Checked<T>: AddAssign + for<'x> AddAssign<&'x Checked<T>> + SubAssign + for<'x> SubAssign<&'x Checked<T>>,
    Wrapping<T>: AddAssign + for<'x> AddAssign<&'x Wrapping<T>> + SubAssign + for<'x> SubAssign<&'x Wrapping<T>>,
{
    let (ca, cb) = (Checked::new(a), Checked::new(b));
    let (cd, nd) = (Checked::new(decoy), none_of(decoy));
    let ser = |what: &str, x: &Checked<T>| -> Result<Checked<T>, Fail> {
        let bytes = bincode::serialize(x).map_err(|e| Fail::new(format!("{ty}: bincode serialize {what}: {e}")))?;
        bincode::deserialize(&bytes).map_err(|e| Fail::new(format!("{ty}: bincode deserialize {what}: {e}")))
    };
    // (route, lhs, rhs, a none operand is involved)
    let mut routes: Vec<(&'static str, Checked<T>, Checked<T>, bool)> = vec![
        ("From<CtOption>(some)", Checked::from(CtOption::new(a, Choice::from(1))), Checked::from(CtOption::new(b, Choice::from(1))), false),
        ("From<CtOption>(none) lhs", Checked::from(CtOption::new(a, Choice::from(0))), cb, true),
        ("From<CtOption>(none) rhs", ca, Checked::from(CtOption::new(b, Choice::from(0))), true),
        ("conditional_select(decoy, x, 1)", Checked::conditional_select(&cd, &ca, Choice::from(1)), Checked::conditional_select(&nd, &cb, Choice::from(1)), false),
        ("conditional_select(x, decoy, 0)", Checked::conditional_select(&ca, &nd, Choice::from(0)), Checked::conditional_select(&cb, &cd, Choice::from(0)), false),
        ("conditional_select(x, none, 1) rhs", ca, Checked::conditional_select(&cb, &none_of(b), Choice::from(1)), true),
        ("conditional_select(none, x, 0) lhs", Checked::conditional_select(&none_of(a), &ca, Choice::from(0)), cb, true),
        ("ct_select(decoy, x, 1)", ConstantTimeSelect::ct_select(&nd, &ca, Choice::from(1)), ConstantTimeSelect::ct_select(&cd, &cb, Choice::from(1)), false),
        ("bincode round trip (some)", ser("Checked(some)", &ca)?, ser("Checked(some)", &cb)?, false),
        ("bincode round trip (none) rhs", ca, ser("Checked(none)", &none_of(b))?, true),
        ("bincode round trip (none) lhs", ser("Checked(none)", &none_of(a))?, cb, true),
    ];
    {
        let (mut x, mut y) = (nd, cb);
        x.ct_assign(&ca, Choice::from(1));
        y.ct_assign(&nd, Choice::from(0));
        routes.push(("ct_assign", x, y, false));
        let (mut x, mut y) = (cb, ca);
        ConstantTimeSelect::ct_swap(&mut x, &mut y, Choice::from(1));
        routes.push(("ct_swap(1)", x, y, false));
        let (mut x, mut y) = (ca, none_of(b));
        ConstantTimeSelect::ct_swap(&mut x, &mut y, Choice::from(0));
        routes.push(("ct_swap(0) with none rhs", x, y, true));
    }
    for (route, x, y, none) in routes {
        for (name, v) in total("Checked add forms", || checked_add_forms(x, y))? {
            let got = opt(v).map(|r| key(&r));
            if none {
                vensure!(got.is_none(), "Checked<{ty}> via {route}, {name}: a none operand must stay none");
            } else {
                veq!(got, if sum_overflows { None } else { Some(sum.clone()) }, "Checked<{ty}> via {route}, {name}");
            }
        }
        for (name, v) in total("Checked sub forms", || checked_sub_forms(x, y))? {
            let got = opt(v).map(|r| key(&r));
            if none {
                vensure!(got.is_none(), "Checked<{ty}> via {route}, {name}: a none operand must stay none");
            } else {
                veq!(got, if diff_underflows { None } else { Some(diff.clone()) }, "Checked<{ty}> via {route}, {name}");
            }
        }
    }
    // `Checked::default()` is `Checked::new(T::default())` (src/checked.rs) and T::default() is zero:
    // default() + a = a, a - default() = a (no overflow possible)
    let d = Checked::<T>::default();
    for (name, v) in checked_add_forms(d, ca) {
        veq!(opt(v).map(|r| key(&r)), Some(key(&a)), "Checked<{ty}>: default() + a via {name}");
    }
    for (name, v) in checked_sub_forms(ca, d) {
        veq!(opt(v).map(|r| key(&r)), Some(key(&a)), "Checked<{ty}>: a - default() via {name}");
    }

    let (wa, wb, wd) = (Wrapping(a), Wrapping(b), Wrapping(decoy));
    let wser = |x: &Wrapping<T>| -> Result<Wrapping<T>, Fail> {
        let bytes = bincode::serialize(x).map_err(|e| Fail::new(format!("{ty}: bincode serialize Wrapping: {e}")))?;
        bincode::deserialize(&bytes).map_err(|e| Fail::new(format!("{ty}: bincode deserialize Wrapping: {e}")))
    };
    let mut wroutes: Vec<(&str, Wrapping<T>, Wrapping<T>)> = vec![
        ("conditional_select(decoy, x, 1)", Wrapping::conditional_select(&wd, &wa, Choice::from(1)), Wrapping::conditional_select(&wd, &wb, Choice::from(1))),
        ("conditional_select(x, decoy, 0)", Wrapping::conditional_select(&wa, &wd, Choice::from(0)), Wrapping::conditional_select(&wb, &wd, Choice::from(0))),
        ("ct_select(decoy, x, 1)", ConstantTimeSelect::ct_select(&wd, &wa, Choice::from(1)), ConstantTimeSelect::ct_select(&wd, &wb, Choice::from(1))),
        ("bincode round trip", wser(&wa)?, wser(&wb)?),
    ];
    {
        let (mut x, mut y) = (wb, wa);
        ConstantTimeSelect::ct_swap(&mut x, &mut y, Choice::from(1));
        wroutes.push(("ct_swap(1)", x, y));
    }
    for (route, x, y) in wroutes {
        for (name, v) in wrapping_add_forms(x.0, y.0) {
            veq!(key(&v), *sum, "Wrapping<{ty}> via {route}, {name}");
        }
        for (name, v) in wrapping_sub_forms(x.0, y.0) {
            veq!(key(&v), *diff, "Wrapping<{ty}> via {route}, {name}");
        }
        for (name, v) in wrapping_neg_forms(x.0) {
            veq!(key(&v), *neg_a, "Wrapping<{ty}> via {route}, {name}");
        }
    }
    Ok(())
}

fn limb_routes(t: &mut Tape, c: &mut Case) -> CaseResult {
    let a = gen::word(t);
    let b = match t.weighted(&[4, 2, 2, 1, 1]) {
        0 => gen::word(t),
        1 => !a,
        2 => a.wrapping_neg(),
        3 => a,
        _ => a.wrapping_add(1),
    };
    let x = match t.weighted(&[1, 1, 2]) {
        0 => 0,
        1 => 1,
        _ => gen::word(t),
    };
    let decoy = gen::word(t);
    c.num("a", a);
    c.num("b", b);
    c.num("x", x);
    c.num("decoy", decoy);
    let s = a as u128 + b as u128;
    let (add_over, sub_under, d) = (s >> 64 != 0, a < b, a.wrapping_sub(b));
    c.nontrivial(add_over || sub_under || s as u64 == 0 || s as u64 == M || d == 0 || d == M);
    if add_over {
        c.label("add wraps");
    }
    if sub_under {
        c.label("sub wraps");
    }
    let (la, lb, lx) = (Limb(a), Limb(b), Limb(x));
    // fold from zero()
    let s3 = s + x as u128;
    veq!(total("fold over Wrapping<Limb>", || g_sum(&[Wrapping(la), Wrapping(lb), Wrapping(lx)]))?.0 .0, s3 as u64, "fold(zero(), +) over Wrapping<Limb>");
    match guard(|| g_sum(&[la, lb, lx])) {
        Ok(v) => {
            vensure!(s3 >> 64 == 0, "fold(zero(), +) over Limb returned {:#x} although the sum overflows", v.0);
            veq!(v.0, s3 as u64, "fold(zero(), +) over Limb");
        }
        Err(m) => vensure!(s3 >> 64 != 0, "fold(zero(), +) over Limb panicked ({m}) although the sum fits"),
    }
    routes_copy("Limb", la, lb, Limb(decoy), &|v: &Limb| vec![v.0], &vec![s as u64], add_over, &vec![d], sub_under, &vec![a.wrapping_neg()])
}

fn fixed_routes<const N: usize>(t: &mut Tape, c: &mut Case) -> CaseResult
where
    Uint<N>: Encoding,
{
    let (al, bl_) = gens::pair(t, N);
    let dl = gen::limbs(t, N);
    c.limbs("a", &al);
    c.limbs("b", &bl_);
    c.limbs("decoy", &dl);
    gens::classify(c, &al, &bl_, 0, 0, N);
    let (ba, bb) = (big(&al), big(&bl_));
    let sum = &ba + &bb;
    let diff = ib(&ba) - ib(&bb);
    let mut neg_a = al.clone();
    gen::neg(&mut neg_a);
    routes_copy(
        &format!("Uint<{N}>"),
        uint::<N>(&al),
        uint::<N>(&bl_),
        uint::<N>(&dl),
        &|v: &Uint<N>| ul(v),
        &limbs_of(&sum, N),
        sum.bits() > 64 * N as u64,
        &twos(&diff, N),
        diff < BigInt::from(0),
        &neg_a,
    )
}

// ------------------------------------------------------------------------------------------------

crate::checked_none_forms!(checked_none_u192, crypto_bigint::Uint<3>, |l: &Vec<u64>| vmodel::uint::<3>(l));
crate::checked_none_forms!(checked_none_u320, crypto_bigint::Uint<5>, |l: &Vec<u64>| vmodel::uint::<5>(l));
crate::checked_none_forms!(checked_none_u448, crypto_bigint::Uint<7>, |l: &Vec<u64>| vmodel::uint::<7>(l));
use crate::checked_forms::mk_limbs;

macro_rules! surf_generic {
    ($v:ident, $q:expr; $($n:literal),*) => { $(
        $v.push(SubCheck::new(format!("surface/fixed/generic-routes/U{}", 64 * $n), $q, fixed_generic::<$n>).tape(32 + 6 * $n).thorough(10));
    )* };
}
macro_rules! surf_width {
    ($v:ident, $q:expr; $($n:literal),*) => { $(
        $v.push(SubCheck::new(format!("surface/fixed/U{}", 64 * $n), $q, crate::fixed::fixed_case::<$n>).tape(24 + 5 * $n).thorough(10));
    )* };
}
macro_rules! surf_routes {
    ($v:ident, $q:expr; $($n:literal),*) => { $(
        $v.push(SubCheck::new(format!("surface/wrappers/constructed-routes/U{}", 64 * $n), $q, fixed_routes::<$n>).tape(32 + 6 * $n).thorough(10));
    )* };
}
macro_rules! surf_identity {
    ($v:ident, $q:expr; $($n:literal),*) => { $(
        $v.push(SubCheck::new(format!("surface/extra/zero+one/U{}", 64 * $n), $q, crate::extra::uint_case::<$n>).tape(16 + 3 * $n).thorough(10));
    )* };
}

pub fn subchecks(_ctx: &Ctx) -> Vec<SubCheck> {
    let mut v = vec![];
    surf_generic!(v, 20_000; 1, 3, 5, 7, 13);
    v.push(SubCheck::new("surface/boxed/generic-routes/1..=40", 40_000, boxed_generic(40)).tape(240).thorough(10));
    v.push(SubCheck::new("surface/boxed/assign-asref-types/1..=12", 40_000, boxed_asref(12)).tape(120).thorough(10));
    v.push(SubCheck::new("surface/wrappers/constructed-routes/limb", 40_000, limb_routes).tape(24).thorough(10));
    surf_routes!(v, 15_000; 3, 5);
    // limb counts outside the listed widths (generic code: nothing may depend on the list)
    surf_width!(v, 12_000; 13, 15, 17, 24);
    surf_width!(v, 4_000; 64);
    surf_identity!(v, 15_000; 3, 5, 7);
    v.push(SubCheck::new("surface/extra/checked-none-all-forms/U192", 30_000, checked_none_u192).tape(24).thorough(10));
    v.push(SubCheck::new("surface/extra/checked-none-all-forms/U320", 30_000, checked_none_u320).tape(32).thorough(10));
    v.push(SubCheck::new("surface/extra/checked-none-all-forms/U448", 20_000, checked_none_u448).tape(40).thorough(10));
    v
}
