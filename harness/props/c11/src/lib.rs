//! C11 — totality: panics, overflow traps and assertion failures only where documented, in the
//! optimized and in the checked (debug assertions + overflow checks) build alike.
//!
//! Three layers (DESIGN.md §3 C11), all run in both profiles by `bin/check C11`:
//!  1. inherited: the sub-checks of every other functional property, re-run with panic accounting as
//!     the only oracle (a failure of theirs that is not about a panic belongs to that property);
//!  2. the never-panic table: option / result / flag returning APIs fed arbitrary argument values;
//!  3. the expected-panic table: panicking convenience forms panic exactly in the documented case.

use crypto_bigint::modular::{MontyForm, MontyParams};
use crypto_bigint::{
    BitOps, BoxedUint, CheckedAdd, CheckedDiv, CheckedMul, CheckedSub, Gcd, Int, Integer, InvMod, Limb, NonZero, Odd, RandomBits, Uint, WrappingShl, WrappingShr, Zero, U128, U256, U64,
};
use vmodel::engine::Fail;
use vmodel::gen;
use vmodel::*;

mod extra;
mod rng;
use rng::TapeRng;

pub fn spec() -> PropSpec {
    PropSpec {
        id: "C11",
        rule: "three layers, each run in the optimized and in the checked profile: (1) inherited — every sub-check of C02-C10 and C12-C20 re-run at reduced case count; only panic-related failures count here (unexpected panic inside a documented domain, missing documented panic, unguarded panic); a case is non-trivial by the rule of the property it comes from. (2) never-panic table — option/result/flag-returning operations of Uint, Int, Limb, BoxedUint, decoders and random-bits APIs called with arbitrary argument values (zero moduli and divisors, shift / bit / k arguments up to u32::MAX, precision 0, empty / oversized / garbage encodings, the numeral \"0\"); non-trivial: an argument sits on a boundary of a documented condition (divisor or modulus 0, shift or k >= BITS, value 0 / MAX, empty input, precision not a multiple of 64). (3) expected-panic table — panicking convenience forms must panic exactly in their documented case (zero divisor, even modulus, radix outside 2..=36, widen/shorten in the wrong direction, random_bits longer than the type, new_unwrap of zero); non-trivial: the argument is on the documented boundary. distinct by the generated arguments.",
        assumptions: vec![
            "a hang is reported by the watchdog as inconclusive (exit 2), never as a violation".into(),
            "profile agreement is established by asserting the same documented panic condition independently in both profiles".into(),
            "the inherited layer trusts the panic predicates (guard / total / must_panic) written in the other property crates".into(),
        ],
        subchecks,
    }
}

// ------------------------------------------------------------------------------------------------
// layer 1: inherited

fn panic_related(msg: &str) -> bool {
    msg.contains("panic") || msg.contains("assert")
}

fn inherit(v: &mut Vec<SubCheck>, id: &'static str, subs: Vec<SubCheck>) {
    // finding signatures that concern totality are the ones whose entry in known_findings.json
    // lists C11; signatures of other properties' value-level findings are not C11's business
    let c11_sigs: std::sync::Arc<Vec<String>> = std::sync::Arc::new(
        vmodel::engine::load_known().into_iter().filter(|k| k.properties.iter().any(|p| p == "C11")).map(|k| k.id).collect(),
    );
    for sc in subs {
        let f = sc.f.clone();
        let sigs = c11_sigs.clone();
        let wrapped = move |t: &mut Tape, c: &mut Case| -> CaseResult {
            match f(t, c) {
                Ok(()) => Ok(()),
                Err(Fail { known: Some(sig), msg }) => {
                    if sigs.iter().any(|s| s == sig) {
                        Err(Fail { known: Some(sig), msg })
                    } else {
                        Ok(())
                    }
                }
                // value-level failures belong to the other property
                Err(Fail { msg, .. }) if !panic_related(&msg) => Ok(()),
                Err(e) => Err(e),
            }
        };
        let mut n = SubCheck::new(format!("inherit/{id}/{}", sc.name), (sc.cases / 25).max(40).min(sc.cases.max(1)), wrapped);
        n.tape_len = sc.tape_len;
        n.shrink_iters = sc.shrink_iters.min(1000);
        n.case_timeout_s = sc.case_timeout_s;
        n.thorough_mult = 25;
        v.push(n);
    }
}

// ------------------------------------------------------------------------------------------------
// layer 2: never-panic table

/// an arbitrary u32 argument (shift, bit index, k, bit length, precision)
fn any_u32(t: &mut Tape, bits: u32) -> u32 {
    match t.weighted(&[3, 4, 2, 2, 2]) {
        0 => t.below(4) as u32,
        1 => t.edgy(2 * bits as u64 + 1) as u32,
        2 => t.pick(&[bits - 1, bits, bits + 1, 2 * bits, 2 * bits + 1]),
        3 => t.pick(&[u32::MAX, u32::MAX - 1, 1 << 31, (1 << 31) - 1, 1 << 16]),
        _ => t.u64() as u32,
    }
}

fn boundary_u32(k: u32, bits: u32) -> bool {
    k == 0 || k >= bits - 1 || k % 64 == 0
}

macro_rules! uint_total {
    ($fname:ident, $n:literal) => {
        fn $fname(t: &mut Tape, c: &mut Case) -> CaseResult {
            const N: usize = $n;
            const BITS: u32 = 64 * N as u32;
            let al = gen::limbs(t, N);
            let bl_ = match t.weighted(&[2, 3, 4]) {
                0 => vec![0u64; N],
                1 => gen::related(t, &al),
                _ => gen::limbs(t, N),
            };
            let k = any_u32(t, BITS);
            c.limbs("a", &al);
            c.limbs("b", &bl_);
            c.num("k", k as u64);
            c.nontrivial(is_zero(&bl_) || is_zero(&al) || boundary_u32(k, BITS) || al.iter().all(|&w| w == u64::MAX));
            if is_zero(&bl_) {
                c.label("b = 0");
            }
            if k >= BITS {
                c.label("k >= BITS");
            }
            let (a, b) = (uint::<N>(&al), uint::<N>(&bl_));
            total("checked_add", || a.checked_add(&b))?;
            total("checked_sub", || a.checked_sub(&b))?;
            total("checked_mul", || CheckedMul::checked_mul(&a, &b))?;
            total("checked_div", || a.checked_div(&b))?;
            total("CheckedDiv::checked_div", || CheckedDiv::checked_div(&a, &b))?;
            total("checked_rem", || a.checked_rem(&b))?;
            total("saturating_add/sub/mul", || (a.saturating_add(&b), a.saturating_sub(&b), a.saturating_mul(&b)))?;
            total("wrapping_add/sub/mul/neg", || (a.wrapping_add(&b), a.wrapping_sub(&b), a.wrapping_mul(&b), a.wrapping_neg()))?;
            total("checked_square/saturating_square", || (a.checked_square(), a.saturating_square(), a.wrapping_square()))?;
            total("overflowing_shl", || a.overflowing_shl(k))?;
            total("overflowing_shr", || a.overflowing_shr(k))?;
            total("overflowing_shl_vartime", || a.overflowing_shl_vartime(k))?;
            total("overflowing_shr_vartime", || a.overflowing_shr_vartime(k))?;
            total("wrapping_shl/shr", || (a.wrapping_shl(k), a.wrapping_shr(k)))?;
            total("wrapping_shl/shr_vartime", || (a.wrapping_shl_vartime(k), a.wrapping_shr_vartime(k)))?;
            total("overflowing_shl_vartime_wide", || Uint::overflowing_shl_vartime_wide((a, b), k))?;
            total("overflowing_shr_vartime_wide", || Uint::overflowing_shr_vartime_wide((a, b), k))?;
            total("WrappingShl/WrappingShr", || (WrappingShl::wrapping_shl(&a, k), WrappingShr::wrapping_shr(&a, k)))?;
            total("bit", || a.bit(k))?;
            total("bit_vartime", || a.bit_vartime(k))?;
            total("BitOps::bit/bit_vartime", || (BitOps::bit(&a, k), BitOps::bit_vartime(&a, k)))?;
            total("bits/zeros/ones", || (a.bits(), a.bits_vartime(), a.leading_zeros(), a.leading_zeros_vartime(), a.trailing_zeros(), a.trailing_zeros_vartime(), a.trailing_ones(), a.trailing_ones_vartime()))?;
            total("inv_mod2k", || a.inv_mod2k(k))?;
            total("inv_mod2k_vartime", || a.inv_mod2k_vartime(k))?;
            total("rem2k_vartime", || a.rem2k_vartime(k))?;
            total("sqrt", || (a.sqrt(), a.sqrt_vartime(), a.checked_sqrt(), a.checked_sqrt_vartime(), a.wrapping_sqrt()))?;
            total("to_nz/to_odd/NonZero::new/Odd::new", || (a.to_nz().is_some(), a.to_odd().is_some(), NonZero::new(a).is_some(), Odd::new(a).is_some()))?;
            total("inv_mod (any modulus incl. 0 and even)", || a.inv_mod(&b))?;
            total("InvMod::inv_mod", || InvMod::inv_mod(&a, &b))?;
            total("gcd", || (a.gcd(&b), Gcd::gcd(&a, &b)))?;
            if let Some(m) = Option::<Odd<Uint<N>>>::from(b.to_odd()) {
                total("inv_odd_mod", || a.inv_odd_mod(&m))?;
            }
            total("is_zero/is_odd/cmp", || (a.is_zero(), Integer::is_odd(&a), a.cmp_vartime(&b), a == b, a < b))?;
            // signed views
            let (ia, ib) = (int::<N>(&al), int::<N>(&bl_));
            total("Int::checked_add/sub/neg", || (ia.checked_add(&ib), CheckedSub::checked_sub(&ia, &ib), ia.checked_neg()))?;
            total("Int::checked_mul/square", || (CheckedMul::checked_mul(&ia, &ib), ia.checked_square(), ia.saturating_square()))?;
            total("Int::checked_div", || ia.checked_div(&ib))?;
            total("Int::checked_div_floor", || ia.checked_div_floor(&ib))?;
            total("Int::CheckedDiv", || CheckedDiv::checked_div(&ia, &ib))?;
            total("Int::overflowing_shl/shr", || (ia.overflowing_shl(k), ia.overflowing_shr(k), ia.overflowing_shl_vartime(k), ia.overflowing_shr_vartime(k)))?;
            total("Int::wrapping_shl/shr", || (ia.wrapping_shl(k), ia.wrapping_shr(k), ia.wrapping_shl_vartime(k), ia.wrapping_shr_vartime(k)))?;
            total("Int::abs_sign/new_from_abs_sign", || (ia.abs_sign(), Int::new_from_abs_sign(a, subtle_to_const(k & 1 == 1))))?;
            total("Int::to_nz/to_odd", || (ia.to_nz().is_some(), ia.to_odd().is_some()))?;
            Ok(())
        }
    };
}

fn subtle_to_const(b: bool) -> crypto_bigint::ConstChoice {
    crypto_bigint::ConstChoice::from(subtle::Choice::from(b as u8))
}

uint_total!(uint_total_1, 1);
uint_total!(uint_total_2, 2);
uint_total!(uint_total_3, 3);
uint_total!(uint_total_4, 4);
uint_total!(uint_total_8, 8);

fn limb_total(t: &mut Tape, c: &mut Case) -> CaseResult {
    let (a, b) = (gen::word(t), if t.chance(1, 4) { 0 } else { gen::word(t) });
    c.num("a", a);
    c.num("b", b);
    c.nontrivial(a == 0 || b == 0 || a == u64::MAX || b == u64::MAX);
    let (la, lb) = (Limb(a), Limb(b));
    total("Limb checked", || (la.checked_add(&lb), la.checked_sub(&lb), la.checked_mul(&lb)))?;
    total("Limb saturating/wrapping", || (la.saturating_add(lb), la.saturating_sub(lb), la.saturating_mul(lb), la.wrapping_add(lb), la.wrapping_sub(lb), la.wrapping_mul(lb), la.wrapping_neg()))?;
    total("Limb adc/sbb/mac", || (la.adc(lb, la), la.sbb(lb, Limb(0u64.wrapping_sub(a & 1))), la.mac(lb, la, lb)))?;
    total("Limb bits", || (la.bits(), la.leading_zeros(), la.trailing_zeros(), la.trailing_ones()))?;
    total("NonZero<Limb>::new", || NonZero::new(la).is_some())?;
    Ok(())
}

fn boxed_total(t: &mut Tape, c: &mut Case) -> CaseResult {
    let la = t.usize_in(1, 6);
    let mixed = t.chance(1, 3);
    let lb = if mixed { t.usize_in(1, 6) } else { la };
    let al = gen::limbs(t, la);
    let bl_ = match t.weighted(&[2, 2, 4]) {
        0 => vec![0u64; lb],
        1 if la == lb => gen::related(t, &al),
        _ => gen::limbs(t, lb),
    };
    let bits = 64 * la as u32;
    let k = any_u32(t, bits);
    c.limbs("a", &al);
    c.limbs("b", &bl_);
    c.num("k", k as u64);
    c.nontrivial(is_zero(&bl_) || is_zero(&al) || boundary_u32(k, bits) || la != lb);
    if la != lb {
        c.label("mixed precision");
    }
    let (a, b) = (boxed(&al), boxed(&bl_));
    total("boxed checked_add/sub/mul", || (a.checked_add(&b).is_some(), a.checked_sub(&b).is_some(), a.checked_mul(&b).is_some()))?;
    total("boxed wrapping_add/sub/mul/neg", || (a.wrapping_add(&b), a.wrapping_sub(&b), a.wrapping_mul(&b), a.wrapping_neg()))?;
    total("boxed adc/sbb/mul/square", || (a.adc(&b, Limb::ONE), a.sbb(&b, Limb::ZERO), a.mul(&b), a.square()))?;
    total("boxed overflowing_shl/shr", || (a.overflowing_shl(k), a.overflowing_shr(k)))?;
    total("boxed shl_vartime/shr_vartime (Option)", || (a.shl_vartime(k), a.shr_vartime(k)))?;
    total("boxed wrapping_shl/shr", || (a.wrapping_shl(k), a.wrapping_shr(k), a.wrapping_shl_vartime(k), a.wrapping_shr_vartime(k)))?;
    total("boxed bit/bits", || (a.bit(k), a.bits(), a.bits_vartime(), a.leading_zeros(), a.trailing_zeros(), a.trailing_ones(), a.trailing_zeros_vartime(), a.trailing_ones_vartime()))?;
    total("boxed inv_mod2k", || a.inv_mod2k(k))?;
    // documented variable-time in k (it loops k times): an absurd k is slow, not a totality question
    total("boxed inv_mod2k_vartime", || a.inv_mod2k_vartime(k.min(2 * bits + 1)))?;
    total("boxed sqrt", || (a.sqrt(), a.sqrt_vartime(), a.checked_sqrt().is_some(), a.checked_sqrt_vartime().is_some()))?;
    total("boxed cmp/eq", || (a == b, a < b, a.cmp_vartime(&b), a.is_zero(), Integer::is_odd(&a)))?;
    total("boxed to_odd/NonZero::new", || (a.to_odd().is_some(), NonZero::new(a.clone()).is_some()))?;
    if la == lb {
        total("boxed checked_div (equal precision, any divisor incl. 0)", || a.checked_div(&b).is_some())?;
        total("boxed CheckedDiv", || CheckedDiv::checked_div(&a, &b).is_some())?;
        total("boxed inv_mod (any modulus incl. 0 and even)", || a.inv_mod(&b).is_some())?;
        total("boxed gcd", || a.gcd(&b))?;
        if let Some(m) = Option::<Odd<BoxedUint>>::from(b.to_odd()) {
            total("boxed inv_odd_mod", || a.inv_odd_mod(&m).is_some())?;
        }
    }
    Ok(())
}

fn decode_total(t: &mut Tape, c: &mut Case) -> CaseResult {
    let prec = match t.weighted(&[2, 3, 3]) {
        0 => t.pick(&[0u32, 1, 7, 8, 63, 64, 65, 128]),
        1 => t.edgy(520) as u32,
        _ => t.u32_in(0, 520),
    };
    let len = match t.weighted(&[1, 3, 2]) {
        0 => 0,
        1 => ((prec as usize + 7) / 8 + t.usize_in(0, 9)).saturating_sub(t.usize_in(0, 4)),
        _ => t.usize_in(0, 80),
    };
    let bytes = gen::bytes(t, len);
    c.bytes("bytes", &bytes);
    c.num("precision", prec as u64);
    c.nontrivial(len == 0 || prec % 64 != 0 || prec == 0);
    let r = total("BoxedUint::from_be_slice", || BoxedUint::from_be_slice(&bytes, prec))?;
    if let Ok(v) = &r {
        vensure!(v.nlimbs() >= 1, "BoxedUint::from_be_slice returned a value with zero limbs");
    }
    let r = total("BoxedUint::from_le_slice", || BoxedUint::from_le_slice(&bytes, prec))?;
    if let Ok(v) = &r {
        vensure!(v.nlimbs() >= 1, "BoxedUint::from_le_slice returned a value with zero limbs");
    }
    // DER / RLP / serde decoders on arbitrary bytes
    use der::Decode;
    total("U64::from_der", || U64::from_der(&bytes).is_ok())?;
    total("U256::from_der", || U256::from_der(&bytes).is_ok())?;
    total("rlp::decode::<U64>", || rlp::decode::<U64>(&bytes).is_ok())?;
    total("rlp::decode::<U256>", || rlp::decode::<U256>(&bytes).is_ok())?;
    total("bincode U128", || bincode::deserialize::<U128>(&bytes).is_ok())?;
    total("bincode NonZero<U128>", || bincode::deserialize::<NonZero<U128>>(&bytes).is_ok())?;
    total("bincode Odd<U128>", || bincode::deserialize::<Odd<U128>>(&bytes).is_ok())?;
    total("bincode Limb", || bincode::deserialize::<Limb>(&bytes).is_ok())?;
    if let Ok(s) = std::str::from_utf8(&bytes) {
        let q = format!("\"{}\"", s.replace(['"', '\\'], ""));
        total("serde_json U64", || serde_json::from_str::<U64>(&q).is_ok())?;
        total("serde_json Odd<U128>", || serde_json::from_str::<Odd<U128>>(&q).is_ok())?;
    }
    Ok(())
}

const STR_ALPHABET: &[u8] = b"0123456789abcdefghijklmnopqrstuvwxyzABCDEFGHIJKLMNOPQRSTUVWXYZ_+-/:@[`{ \x00\x7f";

fn radix_total(t: &mut Tape, c: &mut Case) -> CaseResult {
    let radix = t.u32_in(2, 36);
    let len = match t.weighted(&[2, 4, 2]) {
        0 => t.usize_in(0, 2),
        1 => t.usize_in(0, 40),
        _ => t.usize_in(0, 400),
    };
    let mut s = String::new();
    let zeros_only = t.chance(1, 8);
    for _ in 0..len {
        let ch = if zeros_only {
            b'0'
        } else if t.chance(1, 16) {
            // non-ASCII
            s.push(t.pick(&['é', 'ß', '٣', '𝟙']));
            continue;
        } else {
            let lim = if t.chance(3, 4) { (radix as usize).min(36) } else { STR_ALPHABET.len() };
            STR_ALPHABET[t.index(lim.max(1))]
        };
        s.push(ch as char);
    }
    let prec = t.pick(&[0u32, 1, 63, 64, 65, 128, 256, 4096]);
    c.text("s", &s);
    c.num("radix", radix as u64);
    c.num("precision", prec as u64);
    c.nontrivial(s.is_empty() || zeros_only || s.starts_with('+') || s.contains('_') || prec < 64);
    total("Uint<1>::from_str_radix_vartime", || Uint::<1>::from_str_radix_vartime(&s, radix).is_ok())?;
    total("Uint<4>::from_str_radix_vartime", || Uint::<4>::from_str_radix_vartime(&s, radix).is_ok())?;
    let r = total("BoxedUint::from_str_radix_vartime", || BoxedUint::from_str_radix_vartime(&s, radix))?;
    if let Ok(v) = &r {
        vensure!(v.nlimbs() >= 1, "BoxedUint::from_str_radix_vartime({s:?}) returned a value with zero limbs");
        // everything that was parsed must be usable
        total("to_string_radix_vartime of a parsed value", || v.to_string_radix_vartime(radix))?;
        total("bits of a parsed value", || (v.bits(), v.bits_vartime(), v.is_zero()))?;
    }
    let r = total("BoxedUint::from_str_radix_with_precision_vartime", || BoxedUint::from_str_radix_with_precision_vartime(&s, radix, prec))?;
    if let Ok(v) = &r {
        vensure!(v.nlimbs() >= 1 || prec == 0, "from_str_radix_with_precision_vartime({s:?}, {prec}) returned a value with zero limbs");
        if v.nlimbs() >= 1 {
            total("to_string_radix_vartime of a parsed value (precision form)", || v.to_string_radix_vartime(radix))?;
        }
    }
    Ok(())
}

fn random_total(t: &mut Tape, c: &mut Case) -> CaseResult {
    let bit_length = any_u32(t, 256);
    let prec = match t.weighted(&[2, 2, 2]) {
        0 => t.pick(&[0u32, 1, 63, 64, 65, 128, 255, 256, 257]),
        1 => any_u32(t, 256),
        _ => 256,
    };
    let script_len = t.usize_in(0, 12);
    let script: Vec<u64> = (0..script_len).map(|_| gen::word(t)).collect();
    let fail_after = t.chance(1, 3);
    c.num("bit_length", bit_length as u64);
    c.num("precision", prec as u64);
    c.limbs("script", &script);
    c.num("rng_fails_after_script", fail_after as u64);
    c.nontrivial(bit_length == 0 || bit_length >= 255 || prec != 256 || bit_length % 32 != 0);
    // allocation size is public: keep absurd precisions out of the boxed allocating calls
    let small = |p: u32| p <= 1 << 16;
    let mk = || TapeRng::new(script.clone(), fail_after);
    total("U256::try_random_bits", || U256::try_random_bits(&mut mk(), bit_length).is_ok())?;
    total("U256::try_random_bits_with_precision", || U256::try_random_bits_with_precision(&mut mk(), bit_length, prec).is_ok())?;
    total("Int<4>::try_random_bits", || Int::<4>::try_random_bits(&mut mk(), bit_length).is_ok())?;
    if small(bit_length) {
        total("BoxedUint::try_random_bits", || BoxedUint::try_random_bits(&mut mk(), bit_length).is_ok())?;
    }
    if small(prec) {
        total("BoxedUint::try_random_bits_with_precision", || BoxedUint::try_random_bits_with_precision(&mut mk(), bit_length, prec).is_ok())?;
    }
    Ok(())
}

// ------------------------------------------------------------------------------------------------
// layer 3: expected-panic table

fn expected_panics(t: &mut Tape, c: &mut Case) -> CaseResult {
    let al = gen::limbs(t, 2);
    let bl_ = if t.chance(1, 3) { vec![0u64; 2] } else { gen::limbs(t, 2) };
    c.limbs("a", &al);
    c.limbs("b", &bl_);
    let (a, b) = (uint::<2>(&al), uint::<2>(&bl_));
    let bz = is_zero(&bl_);
    c.nontrivial(bz || bl_[0] & 1 == 0);
    // plain `Uint / Uint`, `Uint % Uint`: a non-zero divisor is inside the domain and must not panic
    if !bz {
        total("Uint / Uint (non-zero divisor)", || (a / b, a % b))?;
        total("wrapping_rem_vartime (non-zero divisor)", || a.wrapping_rem_vartime(&b))?;
    } else {
        must_panic("wrapping_rem_vartime(0) [documented: panics if rhs == 0]", || a.wrapping_rem_vartime(&b))?;
    }
    // new_unwrap: panics iff zero
    if bz {
        must_panic("NonZero::<Uint>::new_unwrap(0)", || NonZero::<Uint<2>>::new_unwrap(b))?;
        must_panic("NonZero::<Limb>::new_unwrap(0)", || NonZero::<Limb>::new_unwrap(Limb(0)))?;
    } else {
        total("NonZero::<Uint>::new_unwrap(non-zero)", || NonZero::<Uint<2>>::new_unwrap(b))?;
    }
    // mul_mod: panics iff p is even (p non-zero)
    if !bz {
        let p = NonZero::new(b).unwrap();
        let (x, y) = (a.rem_vartime(&p), a.wrapping_add(&Uint::ONE).rem_vartime(&p));
        if bl_[0] & 1 == 1 {
            total("Uint::mul_mod (odd p)", || x.mul_mod(&y, &p))?;
            let bp = NonZero::new(boxed(&bl_)).unwrap();
            total("BoxedUint::mul_mod (odd p)", || boxed(&ul(&x)).mul_mod(&boxed(&ul(&y)), &bp))?;
        } else {
            must_panic("Uint::mul_mod (even p) [documented panic]", || x.mul_mod(&y, &p))?;
            let bp = NonZero::new(boxed(&bl_)).unwrap();
            must_panic("BoxedUint::mul_mod (even p) [documented panic]", || boxed(&ul(&x)).mul_mod(&boxed(&ul(&y)), &bp))?;
        }
    }
    // radix outside 2..=36: documented panic; inside: none
    let radix = t.pick(&[0u32, 1, 2, 10, 16, 36, 37, 64, u32::MAX]);
    c.num("radix", radix as u64);
    let ok = (2..=36).contains(&radix);
    let ba = boxed(&al);
    if ok {
        total("to_string_radix_vartime (supported radix)", || (a.to_string_radix_vartime(radix), ba.to_string_radix_vartime(radix)))?;
        total("from_str_radix_vartime (supported radix)", || (Uint::<2>::from_str_radix_vartime("10", radix).is_ok(), BoxedUint::from_str_radix_vartime("10", radix).is_ok()))?;
    } else {
        must_panic("Uint::to_string_radix_vartime (unsupported radix)", || a.to_string_radix_vartime(radix))?;
        must_panic("BoxedUint::to_string_radix_vartime (unsupported radix)", || ba.to_string_radix_vartime(radix))?;
        must_panic("Uint::from_str_radix_vartime (unsupported radix)", || Uint::<2>::from_str_radix_vartime("10", radix))?;
        must_panic("BoxedUint::from_str_radix_vartime (unsupported radix)", || BoxedUint::from_str_radix_vartime("10", radix))?;
    }
    // widen / shorten: documented panics in the wrong direction
    let p = t.pick(&[0u32, 1, 64, 127, 128, 129, 192, 256]);
    c.num("precision", p as u64);
    if p >= 128 {
        total("BoxedUint::widen (>= current precision)", || ba.widen(p))?;
    } else {
        must_panic("BoxedUint::widen (smaller precision) [documented panic]", || ba.widen(p))?;
    }
    if p <= 128 {
        let r = total("BoxedUint::shorten (<= current precision)", || ba.shorten(p))?;
        vensure!(r.nlimbs() >= 1 || p == 0, "shorten({p}) returned a value with zero limbs");
    } else {
        must_panic("BoxedUint::shorten (larger precision) [documented panic]", || ba.shorten(p))?;
    }
    // random_bits panics on error, i.e. iff bit_length > BITS
    let bl = t.pick(&[0u32, 1, 64, 127, 128, 129, 256, u32::MAX]);
    c.num("bit_length", bl as u64);
    let mk = || TapeRng::new(vec![1, 2, 3, 4], false);
    if bl <= 128 {
        total("U128::random_bits (bit_length <= BITS)", || U128::random_bits(&mut mk(), bl))?;
    } else {
        must_panic("U128::random_bits (bit_length > BITS) [documented: panics on error]", || U128::random_bits(&mut mk(), bl))?;
    }
    // MontyParams / MontyForm construction with any odd modulus incl. 1 never panics
    if let Some(m) = Option::<Odd<Uint<2>>>::from(b.to_odd()) {
        total("MontyParams::new / new_vartime / MontyForm::new / retrieve", || {
            let p1 = MontyParams::new(m);
            let p2 = MontyParams::new_vartime(m);
            (MontyForm::new(&a, p1).retrieve(), MontyForm::new(&a, p2).retrieve(), MontyForm::one(p1).retrieve(), MontyForm::zero(p2).retrieve())
        })?;
    }
    // mismatched boxed precisions where the documentation requires a relation between them
    // (drawn last, so that earlier tapes keep their meaning)
    let (ln, rn) = (t.usize_in(1, 5), t.usize_in(1, 5));
    let (xa, xb) = (boxed(&gen::limbs(t, ln)), boxed(&gen::limbs(t, rn)));
    c.num("lhs limbs", ln as u64);
    c.num("rhs limbs", rn as u64);
    if ln != rn {
        // "`self` and `modulus` must have the same number of limbs, or the function will panic" (F-11d)
        must_panic("BoxedUint::inv_mod (different limb counts) [documented panic]", || xa.inv_mod(&xb).is_some())?;
    } else {
        total("BoxedUint::inv_mod (equal limb counts, any modulus incl. 0 and even)", || xa.inv_mod(&xb).is_some())?;
    }
    if rn > ln {
        // "Panics if `rhs` has a larger precision than `self`."
        must_panic("BoxedUint::adc_assign (rhs wider) [documented panic]", || xa.clone().adc_assign(&xb, Limb::ZERO))?;
        must_panic("BoxedUint::sbb_assign (rhs wider) [documented panic]", || xa.clone().sbb_assign(&xb, Limb::ZERO))?;
    } else {
        total("BoxedUint::adc_assign / sbb_assign (rhs not wider)", || (xa.clone().adc_assign(&xb, Limb::ZERO), xa.clone().sbb_assign(&xb, Limb::ZERO)))?;
    }
    if ln != rn {
        c.nontrivial(true);
    }
    Ok(())
}

// ------------------------------------------------------------------------------------------------

fn subchecks(ctx: &Ctx) -> Vec<SubCheck> {
    let mut v = vec![];
    v.push(SubCheck::new("never-panic/limb", 60_000, limb_total).tape(16));
    v.push(SubCheck::new("never-panic/uint+int/U64", 30_000, uint_total_1).tape(32));
    v.push(SubCheck::new("never-panic/uint+int/U128", 30_000, uint_total_2).tape(32));
    v.push(SubCheck::new("never-panic/uint+int/U192", 20_000, uint_total_3).tape(40));
    v.push(SubCheck::new("never-panic/uint+int/U256", 20_000, uint_total_4).tape(40));
    v.push(SubCheck::new("never-panic/uint+int/U512", 8_000, uint_total_8).tape(64));
    v.push(SubCheck::new("never-panic/boxed/1..=6-limbs", 40_000, boxed_total).tape(64));
    v.push(SubCheck::new("never-panic/decoders(bytes,der,rlp,serde)", 80_000, decode_total).tape(48));
    v.push(SubCheck::new("never-panic/radix-strings", 60_000, radix_total).tape(440));
    v.push(SubCheck::new("never-panic/random-bits", 60_000, random_total).tape(48));
    v.push(SubCheck::new("expected-panic/table", 40_000, expected_panics).tape(64));
    v.extend(extra::subchecks(ctx));
    inherit(&mut v, "C02", (c02::spec().subchecks)(ctx));
    inherit(&mut v, "C03", (c03::spec().subchecks)(ctx));
    inherit(&mut v, "C04", (c04::spec().subchecks)(ctx));
    inherit(&mut v, "C05", (c05::spec().subchecks)(ctx));
    inherit(&mut v, "C06", (c06::spec().subchecks)(ctx));
    inherit(&mut v, "C07", (c07::spec().subchecks)(ctx));
    inherit(&mut v, "C08", (c08::spec().subchecks)(ctx));
    inherit(&mut v, "C09", (c09::spec().subchecks)(ctx));
    inherit(&mut v, "C10", (c10::spec().subchecks)(ctx));
    inherit(&mut v, "C12", (c12::spec().subchecks)(ctx));
    inherit(&mut v, "C13", (c13::spec().subchecks)(ctx));
    inherit(&mut v, "C14", (c14::spec().subchecks)(ctx));
    inherit(&mut v, "C15", (c15::spec().subchecks)(ctx));
    inherit(&mut v, "C16", (c16::spec().subchecks)(ctx));
    inherit(&mut v, "C17", (c17::spec().subchecks)(ctx));
    inherit(&mut v, "C18", (c18::spec().subchecks)(ctx));
    inherit(&mut v, "C19", (c19::spec().subchecks)(ctx));
    inherit(&mut v, "C20", (c20::spec().subchecks)(ctx));
    v
}
