//! A scripted RNG: plays words from the tape, then either fails or continues with a fixed LCG tail.
use rand_core::{TryRngCore};

pub struct TapeRng {
    script: Vec<u64>,
    pos: usize,
    fail_after: bool,
    tail: u64,
    draws: usize,
}

#[derive(Debug)]
pub struct ScriptExhausted;
impl core::fmt::Display for ScriptExhausted {
    fn fmt(&self, f: &mut core::fmt::Formatter<'_>) -> core::fmt::Result {
        write!(f, "scripted rng exhausted")
    }
}
impl std::error::Error for ScriptExhausted {}

impl TapeRng {
    pub fn new(script: Vec<u64>, fail_after: bool) -> Self {
        TapeRng { script, pos: 0, fail_after, tail: 0x1234_5678_9abc_def0, draws: 0 }
    }
    fn next(&mut self) -> Result<u64, ScriptExhausted> {
        self.draws += 1;
        assert!(self.draws < 1 << 16, "harness: sampler drew more than 65536 words (non-terminating?)");
        if self.pos < self.script.len() {
            self.pos += 1;
            return Ok(self.script[self.pos - 1]);
        }
        if self.fail_after {
            return Err(ScriptExhausted);
        }
        self.tail = self.tail.wrapping_mul(6364136223846793005).wrapping_add(1442695040888963407);
        Ok(self.tail ^ (self.tail >> 29))
    }
}

impl TryRngCore for TapeRng {
    type Error = ScriptExhausted;
    fn try_next_u32(&mut self) -> Result<u32, Self::Error> {
        Ok(self.next()? as u32)
    }
    fn try_next_u64(&mut self) -> Result<u64, Self::Error> {
        self.next()
    }
    fn try_fill_bytes(&mut self, dst: &mut [u8]) -> Result<(), Self::Error> {
        for chunk in dst.chunks_mut(8) {
            let w = self.next()?.to_le_bytes();
            chunk.copy_from_slice(&w[..chunk.len()]);
        }
        Ok(())
    }
}
