//! C11 extra — two totality items no other sub-check reaches:
//!
//!  * `Reciprocal::default()` (the inherent const fn and the `Default` impl). Its doc: "It is a
//!    self-consistent `Reciprocal` that will not cause panics in functions that take it. NOTE: intended
//!    for using it as a placeholder [...], don't rely on the contents." So every public function that
//!    takes a `&Reciprocal` (`Uint` / `BoxedUint::{div_rem_limb_with_reciprocal,
//!    rem_limb_with_reciprocal}`, `shift`, the selection forms) must return for arbitrary values, in
//!    both profiles; the results are not inspected, except that quotient and remainder forms of one
//!    call pair agree with each other (same object, same input) and the two `default`s are equal.
//!  * `ConstCtOption<(Uint, Uint)>::expect` ("Panics if the value is none with a custom panic message
//!    provided by `msg`"); such options come from `Uint::overflowing_sh{l,r}_vartime_wide`. On a
//!    some-value `expect` returns the contained pair (the one `Option::from` yields), on a none-value
//!    it panics and the panic message carries `msg`. Whether the option is some is asserted only
//!    where all documents agree (shift < BITS: some; shift >= 2·BITS: none — see C05).
//!    `ConstCtOption<SafeGcdInverter<..>>::expect` cannot be reached: no public item returns or
//!    constructs such an option (`ConstCtOption::{new, some, none}` are `pub(crate)`).
//!
//! Non-trivial (rule of the never-panic table: an argument on a documented boundary): reciprocal —
//! the value is 0 or has a limb equal to MAX (the placeholder divisor); expect — shift is 0 or
//! >= BITS - 1.

use crypto_bigint::{ConstantTimeSelect, Limb, NonZero, Reciprocal, Uint};
use subtle::{Choice, ConditionallySelectable};
use vmodel::gen;
use vmodel::*;

fn reciprocal_default<const N: usize>(t: &mut Tape, c: &mut Case) -> CaseResult {
    let xl = match t.weighted(&[3, 1, 1]) {
        0 => gen::limbs(t, N),
        1 => vec![u64::MAX; N],
        _ => {
            let mut v = gen::limbs(t, N);
            v[N - 1] = t.pick(&[u64::MAX, u64::MAX - 1, 1 << 63, 0]);
            v
        }
    };
    let bn = t.usize_in(1, 6);
    let bxl = gen::limbs(t, bn);
    let d = gen::word(t).max(1);
    c.limbs("x", &xl);
    c.limbs("boxed x", &bxl);
    c.num("other divisor", d);
    c.nontrivial(is_zero(&xl) || xl.iter().any(|&w| w == u64::MAX) || bxl.iter().any(|&w| w == u64::MAX));
    let r1 = total("Reciprocal::default (inherent)", Reciprocal::default)?;
    let r2 = total("<Reciprocal as Default>::default", <Reciprocal as Default>::default)?;
    vensure!(r1 == r2, "Reciprocal::default() != <Reciprocal as Default>::default(): {r1:?} vs {r2:?}");
    let x = uint::<N>(&xl);
    let bx = boxed(&bxl);
    for (name, r) in [("inherent default", &r1), ("Default::default", &r2)] {
        let sh = total("Reciprocal::shift", || r.shift())?;
        vensure!(sh < Limb::BITS, "{name}: shift() = {sh} is not a limb shift");
        let (_, rem) = total("Uint::div_rem_limb_with_reciprocal(&Reciprocal::default())", || x.div_rem_limb_with_reciprocal(r))?;
        let rem2 = total("Uint::rem_limb_with_reciprocal(&Reciprocal::default())", || x.rem_limb_with_reciprocal(r))?;
        veq!(rem.0, rem2.0, "{name}: Uint div_rem / rem with the same reciprocal disagree on the remainder");
        let (q, rem) = total("BoxedUint::div_rem_limb_with_reciprocal(&Reciprocal::default())", || bx.div_rem_limb_with_reciprocal(r))?;
        veq!(q.nlimbs(), bn, "{name}: BoxedUint quotient precision");
        let rem2 = total("BoxedUint::rem_limb_with_reciprocal(&Reciprocal::default())", || bx.rem_limb_with_reciprocal(r))?;
        veq!(rem.0, rem2.0, "{name}: BoxedUint div_rem / rem with the same reciprocal disagree on the remainder");
    }
    // the placeholder may be mixed with real reciprocals by the selection forms
    let real = Reciprocal::new(Option::<NonZero<Limb>>::from(NonZero::new(Limb(d))).expect("harness: non-zero"));
    for ch in 0..=1u8 {
        let choice = Choice::from(ch);
        let s = total("Reciprocal::conditional_select(default, real)", || Reciprocal::conditional_select(&r1, &real, choice))?;
        vensure!(s == if ch == 0 { r1 } else { real }, "conditional_select(default, new({d:#x}), {ch}) is not the chosen operand");
        let s2 = total("Reciprocal::ct_select(real, default)", || <Reciprocal as ConstantTimeSelect>::ct_select(&real, &r2, choice))?;
        total("div_rem_limb_with_reciprocal(selected)", || (x.div_rem_limb_with_reciprocal(&s), x.rem_limb_with_reciprocal(&s2), bx.div_rem_limb_with_reciprocal(&s2)))?;
    }
    Ok(())
}

fn wide_expect<const N: usize>(t: &mut Tape, c: &mut Case) -> CaseResult {
    let bits = 64 * N as u32;
    let (lo, hi) = (gen::limbs(t, N), gen::limbs(t, N));
    let s = match t.weighted(&[4, 3, 2, 1]) {
        0 => t.edgy(2 * bits as u64 + 1) as u32,
        1 => t.pick(&[0, bits - 1, bits, bits + 1, 2 * bits - 1, 2 * bits, 2 * bits + 1]),
        2 => t.below(bits as u64) as u32,
        _ => t.pick(&[u32::MAX, u32::MAX - 1, 1 << 31, 4 * bits]),
    };
    let left = t.bool();
    let msg = t.pick(&["shift too large", "x", "wide shift: out of range (extra/expect)"]);
    c.limbs("lo", &lo);
    c.limbs("hi", &hi);
    c.num("shift", s as u64);
    c.num("left", left as u64);
    c.text("msg", msg);
    c.nontrivial(s == 0 || s >= bits - 1);
    let (l, h) = (uint::<N>(&lo), uint::<N>(&hi));
    let name = if left { "Uint::overflowing_shl_vartime_wide" } else { "Uint::overflowing_shr_vartime_wide" };
    let mk = || if left { Uint::overflowing_shl_vartime_wide((l, h), s) } else { Uint::overflowing_shr_vartime_wide((l, h), s) };
    let o = total(name, mk)?;
    let some = bool::from(o.is_some());
    veq!(bool::from(o.is_none()), !some, "{name}: is_none != !is_some");
    if s < bits {
        vensure!(some, "{name}(_, {s}) is none although shift < BITS");
    }
    if s >= 2 * bits {
        vensure!(!some, "{name}(_, {s}) is some although shift >= 2*BITS");
    }
    c.label(if some { "expect on some" } else { "expect on none" });
    let as_option: Option<(Uint<N>, Uint<N>)> = o.clone().into();
    veq!(as_option.is_some(), some, "{name}: Option::from disagrees with is_some");
    if some {
        let (a, b) = total("ConstCtOption<(Uint, Uint)>::expect on some", || o.clone().expect(msg))?;
        let (wa, wb) = as_option.expect("checked above");
        veq!((ul(&a), ul(&b)), (ul(&wa), ul(&wb)), "ConstCtOption<(Uint, Uint)>::expect returned a different pair than Option::from");
        if s == 0 {
            veq!((ul(&a), ul(&b)), (lo.clone(), hi.clone()), "{name}(_, 0).expect(..)");
        }
        let (a, b) = total("ConstCtOption<(Uint, Uint)>::unwrap on some", || o.clone().unwrap())?;
        veq!((ul(&a), ul(&b)), (ul(&wa), ul(&wb)), "ConstCtOption<(Uint, Uint)>::unwrap returned a different pair than Option::from");
    } else {
        let m = must_panic("ConstCtOption<(Uint, Uint)>::expect on none", || o.clone().expect(msg))?;
        vensure!(m.contains(msg), "ConstCtOption<(Uint, Uint)>::expect({msg:?}) on none panicked with {m:?}, which does not carry the message");
        must_panic("ConstCtOption<(Uint, Uint)>::unwrap on none", || o.clone().unwrap())?;
    }
    Ok(())
}

macro_rules! widths {
    ($v:ident, $q1:expr, $q2:expr; $($n:literal),*) => { $(
        $v.push(SubCheck::new(format!("extra/reciprocal-default/U{}+boxed", 64 * $n), $q1, reciprocal_default::<$n>).tape(32 + 3 * $n));
        $v.push(SubCheck::new(format!("extra/wide-option-expect/U{}", 64 * $n), $q2, wide_expect::<$n>).tape(24 + 6 * $n));
    )* };
}

pub fn subchecks(_ctx: &Ctx) -> Vec<SubCheck> {
    let mut v = vec![];
    widths!(v, 30_000, 30_000; 1, 2, 4);
    v
}
