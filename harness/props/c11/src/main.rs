fn main() {
    vmodel::cli_main(c11::spec())
}
