//! API-surface audit (see /verif/audit/A.md): every `impl` block / instantiation family of the
//! division and remainder code that the first versions of this crate reached only through an
//! equivalent sibling. Each sub-check states, next to the assertion, which documentation it rests on.
//!
//! * `surface/checked-wrapper/*` — `Checked<Uint<L>>` `/` in all four receiver / operand forms with
//!   every operand state (some, none, some(0)); src/checked.rs:204-262.
//! * `surface/generic-routes/*` — the trait impls reached through generic functions (`fn f<T: Trait>`):
//!   `num_traits::Num` (`Div<Self>` / `Rem<Self>`), `DivVartime`, `CheckedDiv`, `DivRemLimb`, `RemLimb`,
//!   `RemMixed`, and the `DivRemLimb` / `RemLimb` supertraits of `Integer`; `Uint` and `BoxedUint`.
//! * `surface/boxed/ops-mixed-precision/*` — every `BoxedUint` / `Wrapping<BoxedUint>` operator and
//!   assigning form that the mixed-precision check did not call (it called one form per family).
//! * `surface/divisor-routes/*` — divisors that reached the division through another constructor or a
//!   constant-time selection (`NonZero::conditional_select`, `to_nz`, `new_unwrap`, `from_u64`,
//!   `Odd::as_nz_ref`, `AsRef<NonZero<_>>`).
//! * `surface/reciprocal-default/*` — `Reciprocal::default()` through every function that takes one.
//! * `surface/width/*` (registered in `subchecks`) — the existing all-forms case functions at 5 and 7
//!   limbs (and mixed pairs with them), which no sub-check instantiated for the constant-time code.

use crate::boxed::{boxed_len, nz_boxed, PRECISION_MSG};
use crate::fixed::{self, nz_limb, nz_uint};
use crate::gens::*;
use crate::sim::sig_limbs;
use crypto_bigint::subtle::{Choice, ConditionallySelectable, CtOption};
use crypto_bigint::{
    BoxedUint, Checked, CheckedDiv, DivRemLimb, DivVartime, Integer, Limb, NonZero, Odd, Reciprocal, RemLimb, RemMixed, Uint, Wrapping,
};
use num_bigint::BigUint;
use vmodel::gen;
use vmodel::*;

// ------------------------------------------------------------------------------------------------
// Checked<Uint<L>>: four forms x operand states

/// Expectation. Property statement: "The checked forms return none exactly when d = 0"; `CheckedDiv`
/// (src/traits.rs:511): "returning a CtOption which is_some only if the divisor is non-zero";
/// `Checked` (src/checked.rs:10): "Provides intentionally-checked arithmetic on T … leverages CtOption
/// … in order to handle overflows": a none operand (the state an earlier failed checked operation
/// leaves behind) stays none, as the existing `none / Checked` assertion of `fixed_div` already states.
/// So: some(floor(n/d)) iff both operands are some and d != 0, otherwise none; never a panic.
pub fn checked_wrapper<const L: usize>(t: &mut Tape, c: &mut Case) -> CaseResult {
    let d_zero = t.chance(1, 6);
    let (nl, dl) = if d_zero { (gen::limbs(t, L), vec![0u64; L]) } else { pair(t, L, L) };
    let lhs_none = t.chance(1, 4);
    let rhs_none = t.chance(1, 4);
    c.limbs("n", &nl);
    c.limbs("d", &dl);
    c.num("lhs_none", lhs_none as u64);
    c.num("rhs_none", rhs_none as u64);
    let (n, d) = (uint::<L>(&nl), uint::<L>(&dl));
    let want: Option<Vec<u64>> = if d_zero || lhs_none || rhs_none {
        c.label(match (d_zero, lhs_none, rhs_none) {
            (true, false, false) => "checked wrapper: some / some(0)",
            (_, true, false) => "checked wrapper: none / some",
            (_, false, true) => "checked wrapper: some / none",
            _ => "checked wrapper: none / none",
        });
        None
    } else {
        let (nb, db) = (big(&nl), big(&dl));
        let (qb, rb) = oracle(&nb, &db);
        classify(c, &nl, &dl, &qb, &rb);
        c.label("checked wrapper: some / some(d != 0)");
        Some(limbs_exact(&qb, L))
    };
    let mk = |x: Uint<L>, none: bool| if none { Checked::<Uint<L>>(CtOption::new(x, 0.into())) } else { Checked::new(x) };
    let (cn, cd) = (mk(n, lhs_none), mk(d, rhs_none));
    let forms: [(&str, Box<dyn Fn() -> Checked<Uint<L>>>); 4] = [
        ("Checked<Uint> / Checked<Uint>", Box::new(move || cn / cd)),
        ("Checked<Uint> / &Checked<Uint>", Box::new(move || cn / &cd)),
        ("&Checked<Uint> / Checked<Uint>", Box::new(move || &cn / cd)),
        ("&Checked<Uint> / &Checked<Uint>", Box::new(move || &cn / &cd)),
    ];
    for (name, f) in forms.iter() {
        let got: Option<Uint<L>> = total(name, || f())?.0.into();
        match (&got, &want) {
            (Some(g), Some(w)) => veq!(ul(g), *w, "{name} value (U{})", 64 * L),
            (None, None) => {}
            (Some(g), None) => vfail!("{name}: is some({}) although an operand is none or d = 0 (lhs_none={lhs_none}, rhs_none={rhs_none}, d_zero={d_zero})", hex(&ul(g))),
            (None, Some(_)) => vfail!("{name}: is none although both operands are some and d != 0"),
        }
    }
    Ok(())
}

// ------------------------------------------------------------------------------------------------
// generic-function routes

fn g_num_div<T: num_traits::Num>(a: T, b: T) -> T {
    a / b
}
fn g_num_rem<T: num_traits::Num>(a: T, b: T) -> T {
    a % b
}
fn g_div_vartime<T: DivVartime>(a: &T, b: &NonZero<T>) -> T {
    a.div_vartime(b)
}
fn g_checked_div<T: CheckedDiv>(a: &T, b: &T) -> CtOption<T> {
    a.checked_div(b)
}
fn g_div_rem_limb<T: DivRemLimb>(a: &T, d: NonZero<Limb>, r: &Reciprocal) -> [(T, Limb); 2] {
    [a.div_rem_limb(d), a.div_rem_limb_with_reciprocal(r)]
}
fn g_rem_limb<T: RemLimb>(a: &T, d: NonZero<Limb>, r: &Reciprocal) -> [Limb; 2] {
    [a.rem_limb(d), a.rem_limb_with_reciprocal(r)]
}
fn g_rem_mixed<T: RemMixed<U>, U>(a: &T, b: &NonZero<U>) -> U {
    a.rem_mixed(b)
}
/// `Integer` has `DivRemLimb + RemLimb` as supertraits: the limb forms through an `Integer` bound only.
fn g_integer_limb<T: Integer>(a: &T, d: NonZero<Limb>, r: &Reciprocal) -> ([(T, Limb); 2], [Limb; 2]) {
    ([a.div_rem_limb(d), a.div_rem_limb_with_reciprocal(r)], [a.rem_limb(d), a.rem_limb_with_reciprocal(r)])
}

/// The eight operator / assigning forms the `Integer` bound provides, one function each so that every
/// form can be guarded on its own (mixed boxed precisions stop at an assertion).
type IntegerForm<T> = (&'static str, bool, fn(&T, &NonZero<T>) -> T);
fn integer_forms<T: Integer>() -> Vec<IntegerForm<T>> {
    vec![
        ("Integer: T / NonZero<T>", true, |n, d| n.clone() / d.clone()),
        ("Integer: T / &NonZero<T>", true, |n, d| n.clone() / d),
        ("Integer: T /= NonZero<T>", true, |n, d| {
            let mut x = n.clone();
            x /= d.clone();
            x
        }),
        ("Integer: T /= &NonZero<T>", true, |n, d| {
            let mut x = n.clone();
            x /= d;
            x
        }),
        ("Integer: T % NonZero<T>", false, |n, d| n.clone() % d.clone()),
        ("Integer: T % &NonZero<T>", false, |n, d| n.clone() % d),
        ("Integer: T %= NonZero<T>", false, |n, d| {
            let mut x = n.clone();
            x %= d.clone();
            x
        }),
        ("Integer: T %= &NonZero<T>", false, |n, d| {
            let mut x = n.clone();
            x %= d;
            x
        }),
    ]
}

/// Oracle: BigUint floor division (property statement: q = floor(n/d), r = n - q d, "in the documented
/// result width" = `Self` for all of these signatures; `RemMixed::rem_mixed`: "Calculate the remainder
/// of self by the reductor", result type `Reductor`).
pub fn generic_routes<const L: usize, const S: usize>(t: &mut Tape, c: &mut Case) -> CaseResult
where
    Uint<L>: RemMixed<Uint<S>>,
{
    let (nl, dl) = pair(t, L, L);
    c.limbs("n", &nl);
    c.limbs("d", &dl);
    let (nb, db) = (big(&nl), big(&dl));
    let (qb, rb) = oracle(&nb, &db);
    classify(c, &nl, &dl, &qb, &rb);
    let (wq, wr) = (limbs_exact(&qb, L), limbs_exact(&rb, L));
    let (n, d) = (uint::<L>(&nl), uint::<L>(&dl));
    let nz = nz_uint(d)?;
    veq!(ul(&total("fn<T: Num>: a / b", || g_num_div(n, d))?), wq, "generic fn<T: num_traits::Num> a / b (U{})", 64 * L);
    veq!(ul(&total("fn<T: Num>: a % b", || g_num_rem(n, d))?), wr, "generic fn<T: num_traits::Num> a % b (U{})", 64 * L);
    veq!(ul(&total("fn<T: DivVartime>", || g_div_vartime(&n, &nz))?), wq, "generic fn<T: DivVartime> (U{})", 64 * L);
    let ck: Option<Uint<L>> = total("fn<T: CheckedDiv>", || g_checked_div(&n, &d))?.into();
    match ck {
        Some(v) => veq!(ul(&v), wq, "generic fn<T: CheckedDiv> value (U{})", 64 * L),
        None => vfail!("generic fn<T: CheckedDiv>: none although d != 0"),
    }
    let z: Option<Uint<L>> = total("fn<T: CheckedDiv>(0)", || g_checked_div(&n, &Uint::<L>::ZERO))?.into();
    vensure!(z.is_none(), "generic fn<T: CheckedDiv>(n, 0) is some");

    // mixed-width remainder through a generic bound
    let sl = divisor(t, S);
    c.limbs("d_mixed", &sl);
    let snz = nz_uint(uint::<S>(&sl))?;
    let r = total("fn<T: RemMixed<U>>", || g_rem_mixed(&n, &snz))?;
    veq!(ul(&r), limbs_exact(&(&nb % big(&sl)), S), "generic fn<T: RemMixed<U>> (U{} mod U{})", 64 * L, 64 * S);

    // limb divisor through DivRemLimb / RemLimb / Integer bounds
    let dw = divisor_word(t);
    c.num("d_limb", dw);
    let nzl = nz_limb(dw)?;
    let rec = Reciprocal::new(nzl);
    let (lq, lr) = (limbs_exact(&(&nb / BigUint::from(dw)), L), limbs_exact(&(&nb % BigUint::from(dw)), 1)[0]);
    for (i, (q, r)) in total("fn<T: DivRemLimb>", || g_div_rem_limb(&n, nzl, &rec))?.iter().enumerate() {
        veq!(ul(q), lq, "generic fn<T: DivRemLimb> form {i} quotient (U{})", 64 * L);
        veq!(r.0, lr, "generic fn<T: DivRemLimb> form {i} remainder (U{})", 64 * L);
    }
    for (i, r) in total("fn<T: RemLimb>", || g_rem_limb(&n, nzl, &rec))?.iter().enumerate() {
        veq!(r.0, lr, "generic fn<T: RemLimb> form {i} (U{})", 64 * L);
    }
    let (qs, rs) = total("fn<T: Integer> limb forms", || g_integer_limb(&n, nzl, &rec))?;
    for (i, (q, r)) in qs.iter().enumerate() {
        veq!(ul(q), lq, "generic fn<T: Integer> div_rem_limb form {i} quotient (U{})", 64 * L);
        veq!(r.0, lr, "generic fn<T: Integer> div_rem_limb form {i} remainder (U{})", 64 * L);
    }
    for (i, r) in rs.iter().enumerate() {
        veq!(r.0, lr, "generic fn<T: Integer> rem_limb form {i} (U{})", 64 * L);
    }
    Ok(())
}

pub fn generic_routes_boxed(max: usize) -> impl Fn(&mut Tape, &mut Case) -> CaseResult {
    move |t, c| {
        let w = boxed_len(t, max);
        let (nl, dl) = pair(t, w, w);
        c.limbs("n", &nl);
        c.limbs("d", &dl);
        let (nb, db) = (big(&nl), big(&dl));
        let (qb, rb) = oracle(&nb, &db);
        classify(c, &nl, &dl, &qb, &rb);
        let (wq, wr) = (limbs_exact(&qb, w), limbs_exact(&rb, w));
        let (n, d) = (boxed(&nl), boxed(&dl));
        let nz = nz_boxed(&d)?;
        veq!(bl(&total("fn<T: DivVartime> (BoxedUint)", || g_div_vartime(&n, &nz))?), wq, "generic fn<T: DivVartime> (BoxedUint, {w} limbs)");
        let ck: Option<BoxedUint> = total("fn<T: CheckedDiv> (BoxedUint)", || g_checked_div(&n, &d))?.into();
        match ck {
            Some(v) => veq!(bl(&v), wq, "generic fn<T: CheckedDiv> value (BoxedUint, {w} limbs)"),
            None => vfail!("generic fn<T: CheckedDiv> (BoxedUint): none although d != 0"),
        }
        let zero = boxed(&vec![0u64; w]);
        let z: Option<BoxedUint> = total("fn<T: CheckedDiv>(0) (BoxedUint)", || g_checked_div(&n, &zero))?.into();
        vensure!(z.is_none(), "generic fn<T: CheckedDiv>(n, 0) (BoxedUint) is some");
        veq!(bl(&total("fn<T: RemMixed<U>> (BoxedUint)", || g_rem_mixed(&n, &nz))?), wr, "generic fn<T: RemMixed<U>> (BoxedUint, {w} limbs)");

        let dw = divisor_word(t);
        c.num("d_limb", dw);
        let nzl = nz_limb(dw)?;
        let rec = Reciprocal::new(nzl);
        let (lq, lr) = (limbs_exact(&(&nb / BigUint::from(dw)), w), limbs_exact(&(&nb % BigUint::from(dw)), 1)[0]);
        for (i, (q, r)) in total("fn<T: DivRemLimb> (BoxedUint)", || g_div_rem_limb(&n, nzl, &rec))?.iter().enumerate() {
            veq!(bl(q), lq, "generic fn<T: DivRemLimb> form {i} quotient (BoxedUint, {w} limbs)");
            veq!(r.0, lr, "generic fn<T: DivRemLimb> form {i} remainder (BoxedUint, {w} limbs)");
        }
        for (i, r) in total("fn<T: RemLimb> (BoxedUint)", || g_rem_limb(&n, nzl, &rec))?.iter().enumerate() {
            veq!(r.0, lr, "generic fn<T: RemLimb> form {i} (BoxedUint, {w} limbs)");
        }
        let (qs, rs) = total("fn<T: Integer> limb forms (BoxedUint)", || g_integer_limb(&n, nzl, &rec))?;
        for (i, (q, r)) in qs.iter().enumerate() {
            veq!(bl(q), lq, "generic fn<T: Integer> div_rem_limb form {i} quotient (BoxedUint, {w} limbs)");
            veq!(r.0, lr, "generic fn<T: Integer> div_rem_limb form {i} remainder (BoxedUint, {w} limbs)");
        }
        for (i, r) in rs.iter().enumerate() {
            veq!(r.0, lr, "generic fn<T: Integer> rem_limb form {i} (BoxedUint, {w} limbs)");
        }
        Ok(())
    }
}

// ------------------------------------------------------------------------------------------------
// BoxedUint operator / assigning forms at different precisions

/// The precision of a mixed-precision boxed result is not documented, so only the VALUE is asserted.
/// The constant-time forms carry the explicit assertion "the precision of the divisor must match the
/// dividend" (a stated precondition, see `boxed_div_mixed`): for every form either that panic or the
/// exact value floor(n/d) / n mod d is accepted — anything else (another panic, a value computed from
/// a truncated or padded operand) is a failure. `boxed_div_mixed` calls `&a / &nz`, `a /= &nz`,
/// `Wrapping(a) / &nz`, `&a % &nz`, `a %= &nz` only; these are all the remaining `impl` blocks.
pub fn boxed_ops_mixed(max: usize) -> impl Fn(&mut Tape, &mut Case) -> CaseResult {
    move |t, c| {
        let nw = boxed_len(t, max);
        let mut dw = match t.weighted(&[3, 3]) {
            0 => {
                let delta = t.usize_in(1, 3);
                if t.bool() { nw + delta } else { nw.saturating_sub(delta).max(1) }
            }
            _ => boxed_len(t, max),
        }
        .min(max);
        if dw == nw {
            dw = if nw < max { nw + 1 } else { nw - 1 };
        }
        c.label(if dw > nw { "boxed mixed: divisor precision > dividend precision" } else { "boxed mixed: divisor precision < dividend precision" });
        if t.chance(1, 20) {
            // d = 0 at another precision: "is_some only if the rhs != 0" — none, or the precision assertion
            let nl = gen::limbs(t, nw);
            c.limbs("n", &nl);
            c.num("zero divisor limbs", dw as u64);
            c.label("d = 0: checked forms must be none");
            let (n, z) = (boxed(&nl), boxed(&vec![0u64; dw]));
            let forms: [(&str, Box<dyn Fn() -> Option<BoxedUint> + '_>); 3] = [
                ("BoxedUint::checked_div(0, other precision)", Box::new(|| n.checked_div(&z).into())),
                ("CheckedDiv for BoxedUint (0, other precision)", Box::new(|| CheckedDiv::checked_div(&n, &z).into())),
                ("fn<T: CheckedDiv> (BoxedUint, 0, other precision)", Box::new(|| g_checked_div(&n, &z).into())),
            ];
            for (name, f) in forms.iter() {
                match guard(|| f()) {
                    Ok(None) => {}
                    Ok(Some(v)) => vfail!("{name} ({nw}/{dw} limbs) is some({}) for a zero divisor", hex(&bl(&v))),
                    Err(m) => vensure!(m.contains(PRECISION_MSG), "{name} ({nw}/{dw} limbs): panic other than the precision assertion: {m}"),
                }
            }
            return Ok(());
        }
        let (nl, dl) = pair(t, nw, dw);
        c.limbs("n", &nl);
        c.limbs("d", &dl);
        let (nb, db) = (big(&nl), big(&dl));
        let (qb, rb) = oracle(&nb, &db);
        classify(c, &nl, &dl, &qb, &rb);
        let (n, d) = (boxed(&nl), boxed(&dl));
        let nz = nz_boxed(&d)?;

        type BF<'a> = (&'static str, Box<dyn Fn() -> BoxedUint + 'a>);
        fn bx<'a>(f: impl Fn() -> BoxedUint + 'a) -> Box<dyn Fn() -> BoxedUint + 'a> {
            Box::new(f)
        }
        let mut q: Vec<BF> = vec![
            ("BoxedUint / NonZero", bx(|| n.clone() / nz.clone())),
            ("BoxedUint / &NonZero", bx(|| n.clone() / &nz)),
            ("&BoxedUint / NonZero", bx(|| &n / nz.clone())),
            ("BoxedUint /= NonZero", bx(|| { let mut x = n.clone(); x /= nz.clone(); x })),
            ("Wrapping<BoxedUint> / NonZero", bx(|| (Wrapping(n.clone()) / nz.clone()).0)),
            ("&Wrapping<BoxedUint> / NonZero", bx(|| (&Wrapping(n.clone()) / nz.clone()).0)),
            ("&Wrapping<BoxedUint> / &NonZero", bx(|| (&Wrapping(n.clone()) / &nz).0)),
            ("Wrapping<BoxedUint> /= NonZero", bx(|| { let mut x = Wrapping(n.clone()); x /= nz.clone(); x.0 })),
            ("Wrapping<BoxedUint> /= &NonZero", bx(|| { let mut x = Wrapping(n.clone()); x /= &nz; x.0 })),
            ("fn<T: DivVartime> (BoxedUint)", bx(|| g_div_vartime(&n, &nz))),
        ];
        let mut r: Vec<BF> = vec![
            ("BoxedUint % NonZero", bx(|| n.clone() % nz.clone())),
            ("BoxedUint % &NonZero", bx(|| n.clone() % &nz)),
            ("&BoxedUint % NonZero", bx(|| &n % nz.clone())),
            ("BoxedUint %= NonZero", bx(|| { let mut x = n.clone(); x %= nz.clone(); x })),
            ("fn<T: RemMixed<U>> (BoxedUint)", bx(|| g_rem_mixed(&n, &nz))),
        ];
        for (name, is_q, f) in integer_forms::<BoxedUint>() {
            let (n, nz) = (&n, &nz);
            let b: BF = (name, bx(move || f(n, nz)));
            if is_q { q.push(b) } else { r.push(b) }
        }
        let (mut asserted, mut returned) = (false, false);
        for (forms, want) in [(&q, &qb), (&r, &rb)] {
            for (name, f) in forms.iter() {
                match guard(|| f()) {
                    Ok(v) => {
                        vensure!(bbig(&v) == *want, "{name} ({nw}/{dw} limbs) returned {} instead of {:x}", hex(&bl(&v)), want);
                        returned = true;
                    }
                    Err(m) => {
                        // the `_vartime` / `RemMixed` routes are documented for differently sized operands: no panic at all
                        vensure!(!name.starts_with("fn<T:"), "{name} ({nw}/{dw} limbs): unexpected panic: {m}");
                        vensure!(m.contains(PRECISION_MSG), "{name} ({nw}/{dw} limbs): panic other than the precision assertion: {m}");
                        asserted = true;
                    }
                }
            }
        }
        if asserted {
            c.label("boxed mixed: constant-time forms stop at the precision assertion");
        }
        if returned {
            c.label("boxed mixed: a form returned (exact) value");
        }
        Ok(())
    }
}

// ------------------------------------------------------------------------------------------------
// divisors that arrived through another route

/// All routes produce a `NonZero` / `Odd` holding the SAME value d (each constructor's documentation:
/// `conditional_select` "Select a or b according to choice" (subtle); `to_nz` "Convert to a NonZero<_>.
/// Returns some if the original value is non-zero"; `new_unwrap` "Creates a new non-zero …, panics if
/// the value is zero"; `from_u64` "Create a NonZero<_> from a NonZeroU64"; `Odd::as_nz_ref` "All odd
/// integers are definitionally non-zero, so we can also obtain a reference to the equivalent NonZero").
/// The division by it must therefore be exact for d. The decoy differs from d in bit length, so a
/// selection mixing the two candidates is visible.
pub fn divisor_routes<const L: usize>(t: &mut Tape, c: &mut Case) -> CaseResult {
    let (nl, dl) = pair(t, L, L);
    let decoy = divisor(t, L);
    c.limbs("n", &nl);
    c.limbs("d", &dl);
    c.limbs("decoy", &decoy);
    let (nb, db) = (big(&nl), big(&dl));
    let (qb, rb) = oracle(&nb, &db);
    classify(c, &nl, &dl, &qb, &rb);
    if bit_len(&decoy) != bit_len(&dl) {
        c.label("divisor routes: decoy of another bit length");
    }
    let (wq, wr) = (limbs_exact(&qb, L), limbs_exact(&rb, L));
    let (n, d) = (uint::<L>(&nl), uint::<L>(&dl));
    let (nz, dz) = (nz_uint(d)?, nz_uint(uint::<L>(&decoy))?);
    let mut routes: Vec<(&'static str, NonZero<Uint<L>>)> = vec![
        ("NonZero::conditional_select(decoy, d, 1)", NonZero::conditional_select(&dz, &nz, Choice::from(1))),
        ("NonZero::conditional_select(d, decoy, 0)", NonZero::conditional_select(&nz, &dz, Choice::from(0))),
        ("conditional_assign(d, 1)", { let mut x = dz; x.conditional_assign(&nz, Choice::from(1)); x }),
        ("conditional_assign(decoy, 0)", { let mut x = nz; x.conditional_assign(&dz, Choice::from(0)); x }),
        ("conditional_swap(1).0", { let (mut x, mut y) = (dz, nz); NonZero::conditional_swap(&mut x, &mut y, Choice::from(1)); x }),
        ("CtOption::new(d, 1).unwrap_or(decoy)", CtOption::new(nz, Choice::from(1)).unwrap_or(dz)),
        ("CtOption::new(decoy, 0).unwrap_or(d)", CtOption::new(dz, Choice::from(0)).unwrap_or(nz)),
        ("Uint::to_nz().unwrap()", total("Uint::to_nz", || d.to_nz().expect("to_nz of a non-zero value"))?),
        ("NonZero::<Uint>::new_unwrap", total("NonZero::new_unwrap", || NonZero::<Uint<L>>::new_unwrap(d))?),
    ];
    if dl[0] & 1 == 1 {
        c.label("divisor routes: odd divisor (Odd::as_nz_ref)");
        let odd: Odd<Uint<L>> = match Option::from(Odd::new(d)) {
            Some(o) => o,
            None => vfail!("Odd::new(d) is none although d is odd"),
        };
        routes.push(("Odd::as_nz_ref", *odd.as_nz_ref()));
        routes.push(("AsRef<NonZero<Uint>> for Odd", *AsRef::<NonZero<Uint<L>>>::as_ref(&odd)));
    }
    if sig_limbs(&dl) == 1 {
        c.label("divisor routes: single-limb divisor (from_u64)");
        let p = core::num::NonZeroU64::new(dl[0]).expect("harness: non-zero word");
        routes.push(("NonZero::<Uint>::from_u64", NonZero::<Uint<L>>::from_u64(p)));
        routes.push(("From<NonZeroU64> for NonZero<Uint>", NonZero::<Uint<L>>::from(p)));
        let lrs: [(&str, NonZero<Limb>); 4] = [
            ("NonZero::<Limb>::from_u64", NonZero::<Limb>::from_u64(p)),
            ("From<NonZeroU64> for NonZero<Limb>", NonZero::<Limb>::from(p)),
            ("Limb::to_nz().unwrap()", Limb(dl[0]).to_nz().expect("to_nz of a non-zero limb")),
            ("NonZero::<Limb>::new_unwrap", NonZero::<Limb>::new_unwrap(Limb(dl[0]))),
        ];
        for (name, nzl) in lrs {
            let (q, r) = total(name, || n.div_rem_limb(nzl))?;
            veq!(ul(&q), wq, "div_rem_limb by {name} quotient (U{})", 64 * L);
            veq!(r.0, wr[0], "div_rem_limb by {name} remainder (U{})", 64 * L);
            veq!(total(name, || n % nzl)?.0, wr[0], "Uint % {name} (U{})", 64 * L);
        }
    }
    for (name, dv) in routes.iter() {
        let (q, r) = total(name, || n.div_rem(dv))?;
        veq!(ul(&q), wq, "div_rem by {name} quotient (U{})", 64 * L);
        veq!(ul(&r), wr, "div_rem by {name} remainder (U{})", 64 * L);
        let (q, r) = total(name, || n.div_rem_vartime(dv))?;
        veq!(ul(&q), wq, "div_rem_vartime by {name} quotient (U{})", 64 * L);
        veq!(ul(&r), wr, "div_rem_vartime by {name} remainder (U{})", 64 * L);
        veq!(ul(&total(name, || n / dv)?), wq, "Uint / &{name} (U{})", 64 * L);
        veq!(ul(&total(name, || n % dv)?), wr, "Uint % &{name} (U{})", 64 * L);
    }
    Ok(())
}

// ------------------------------------------------------------------------------------------------
// Reciprocal::default()

/// `Reciprocal::default` (src/uint/div_limb.rs:216): "a self-consistent Reciprocal that will not cause
/// panics in functions that take it. NOTE: … don't rely on the contents." Only the absence of a panic
/// is asserted, for every public function that takes a `&Reciprocal` (inherent and trait forms, fixed
/// and boxed), for the inherent constructor and for `<Reciprocal as Default>::default()`.
pub fn reciprocal_default(t: &mut Tape, c: &mut Case) -> CaseResult {
    let w = t.usize_in(1, 9);
    let nl = gen::limbs(t, w);
    c.limbs("n", &nl);
    c.label("Reciprocal::default(): totality only");
    let recs: [(&str, Reciprocal); 3] = [
        ("Reciprocal::default()", Reciprocal::default()),
        ("<Reciprocal as Default>::default()", <Reciprocal as Default>::default()),
        ("CtOption::new(new(d), 0).unwrap_or(default)", {
            let r = Reciprocal::new(nz_limb(gen::word(t).max(1))?);
            CtOption::new(r, Choice::from(0)).unwrap_or(Reciprocal::default())
        }),
    ];
    let nb = boxed(&nl);
    let mut pad = nl.clone();
    pad.resize(9, 0);
    let (u1, u3, u9) = (uint::<1>(&nl[..1]), uint::<3>(&pad[..3]), uint::<9>(&pad));
    for (name, r) in recs.iter() {
        total(name, || {
            let _ = r.shift();
            let _ = u1.div_rem_limb_with_reciprocal(r);
            let _ = u1.rem_limb_with_reciprocal(r);
            let _ = u3.div_rem_limb_with_reciprocal(r);
            let _ = u3.rem_limb_with_reciprocal(r);
            let _ = u9.div_rem_limb_with_reciprocal(r);
            let _ = u9.rem_limb_with_reciprocal(r);
            let _ = DivRemLimb::div_rem_limb_with_reciprocal(&u3, r);
            let _ = RemLimb::rem_limb_with_reciprocal(&u3, r);
            let _ = nb.div_rem_limb_with_reciprocal(r);
            let _ = nb.rem_limb_with_reciprocal(r);
            let _ = DivRemLimb::div_rem_limb_with_reciprocal(&nb, r);
            let _ = RemLimb::rem_limb_with_reciprocal(&nb, r);
        })?;
    }
    Ok(())
}

// ------------------------------------------------------------------------------------------------

macro_rules! width {
    ($v:ident, $fam:literal, $f:ident, $q:expr, $tape:expr, $th:expr; $($n:literal),*) => { $(
        $v.push(SubCheck::new(format!("surface/width/{}/U{}", $fam, 64 * $n), $q, fixed::$f::<$n>).tape($tape + 8 * $n).thorough($th));
    )* };
}
macro_rules! width_mixed {
    ($v:ident, $q:expr; $(($l:literal, $r:literal)),*) => { $(
        $v.push(SubCheck::new(format!("surface/width/div_rem_vartime-mixed/U{}-by-U{}", 64 * $l, 64 * $r), $q, fixed::fixed_mixed::<$l, $r>).tape(48 + 8 * ($l + $r)).thorough(60));
    )* };
}

pub fn subchecks(ctx: &Ctx) -> Vec<SubCheck> {
    let mut v = vec![];
    v.push(SubCheck::new("surface/checked-wrapper/U64", 20_000, checked_wrapper::<1>).tape(64).thorough(60));
    v.push(SubCheck::new("surface/checked-wrapper/U192", 20_000, checked_wrapper::<3>).tape(80).thorough(60));
    v.push(SubCheck::new("surface/checked-wrapper/U320", 15_000, checked_wrapper::<5>).tape(96).thorough(60));
    v.push(SubCheck::new("surface/checked-wrapper/U512", 10_000, checked_wrapper::<8>).tape(120).thorough(60));

    v.push(SubCheck::new("surface/generic-routes/U192", 12_000, generic_routes::<3, 2>).tape(96).thorough(60));
    v.push(SubCheck::new("surface/generic-routes/U256", 12_000, generic_routes::<4, 1>).tape(104).thorough(60));
    v.push(SubCheck::new("surface/generic-routes/U448", 8_000, generic_routes::<7, 4>).tape(150).thorough(60));
    v.push(SubCheck::new("surface/generic-routes/boxed/1..=24", 10_000, generic_routes_boxed(24)).tape(48 + 8 * 48).thorough(60));

    v.push(SubCheck::new("surface/boxed/ops-mixed-precision/1..=24", 10_000, boxed_ops_mixed(24)).tape(48 + 8 * 48).thorough(60));
    if ctx.thorough() {
        v.push(SubCheck::new("surface/boxed/ops-mixed-precision/1..=70", 2_000, boxed_ops_mixed(70)).tape(48 + 8 * 140));
    }

    v.push(SubCheck::new("surface/divisor-routes/U64", 10_000, divisor_routes::<1>).tape(64).thorough(60));
    v.push(SubCheck::new("surface/divisor-routes/U192", 10_000, divisor_routes::<3>).tape(96).thorough(60));
    v.push(SubCheck::new("surface/divisor-routes/U320", 8_000, divisor_routes::<5>).tape(128).thorough(60));

    v.push(SubCheck::new("surface/reciprocal-default/no-panic", 20_000, reciprocal_default).tape(32).thorough(30));

    // limb counts that no sub-check instantiated for the constant-time / limb / wide / 2^k code
    width!(v, "div", fixed_div, 6_000, 48, 60; 5, 7);
    width!(v, "limb", fixed_limb, 8_000, 32, 60; 5, 7);
    width!(v, "rem_wide", fixed_rem_wide, 8_000, 64, 60; 5, 7);
    width!(v, "rem2k", fixed_rem2k, 8_000, 16, 60; 5, 7);
    width_mixed!(v, 5_000; (5, 3), (3, 5), (7, 5), (5, 7), (7, 2), (2, 7));
    if ctx.thorough() {
        width!(v, "div", fixed_div, 2_000, 48, 30; 9, 10, 11, 12, 13, 24);
        width!(v, "limb", fixed_limb, 2_000, 32, 30; 9, 11, 12, 13, 24);
        width!(v, "rem_wide", fixed_rem_wide, 2_000, 64, 30; 9, 11, 12, 13, 24);
        width!(v, "rem2k", fixed_rem2k, 2_000, 16, 30; 9, 11, 12, 13, 24);
        width_mixed!(v, 1_000; (9, 5), (5, 9), (11, 7), (13, 12), (12, 13));
    }
    v
}
