//! (dividend, divisor) generators for C02 and the case classifier.

use crate::sim::*;
use num_bigint::BigUint;
use num_traits::{One, Zero};
use vmodel::gen;
use vmodel::*;

pub const M: u64 = u64::MAX;
pub const TOP: u64 = 1 << 63;

/// BigUint quotient and remainder, with the defining identity re-checked (a wrong-but-consistent
/// oracle use is impossible: `/` and `%` are computed separately and must satisfy n = q d + r, r < d).
pub fn oracle(n: &BigUint, d: &BigUint) -> (BigUint, BigUint) {
    assert!(!d.is_zero(), "harness: oracle called with d = 0");
    let q = n / d;
    let r = n % d;
    assert!(&q * d + &r == *n && r < *d, "harness: BigUint oracle inconsistent");
    (q, r)
}

/// A normalised (bit 63 set) top limb.
pub fn top_word(t: &mut Tape) -> u64 {
    match t.weighted(&[2, 3, 1, 1, 1, 3]) {
        0 => TOP,
        1 => M,
        2 => TOP + 1,
        3 => M - 1,
        4 => TOP | (1 << 32),
        _ => t.u64() | TOP,
    }
}

/// Non-zero single-word divisor: 1, MAX, 2^63, 2, 3, 2^k, MAX - small, edge-biased word.
pub fn divisor_word(t: &mut Tape) -> u64 {
    let w = match t.weighted(&[2, 3, 3, 1, 1, 2, 2, 2, 5]) {
        0 => 1,
        1 => M,
        2 => TOP,
        3 => 2,
        4 => 3,
        5 => 1u64 << t.below(64),
        6 => M - t.below(66),
        7 => TOP + t.below(66),
        _ => gen::word(t),
    };
    w.max(1)
}

/// 1..=max biased to 1, 2, max.
fn pick_len(t: &mut Tape, max: usize) -> usize {
    match t.weighted(&[1, 1, 2, 2]) {
        0 => 1,
        1 => 2.min(max),
        2 => max,
        _ => t.usize_in(1, max),
    }
}

fn small_shift(t: &mut Tape) -> u32 {
    match t.weighted(&[3, 1, 1, 3]) {
        0 => 0,
        1 => 1,
        2 => 63,
        _ => t.u32_in(1, 63),
    }
}

/// Non-zero divisor in `w` limbs: mixture of all shapes, bit length a multiple of 64, normalised top
/// limb MAX with second limb 0 / MAX / random, single limb inside the width, 2^k, 1.
pub fn divisor(t: &mut Tape, w: usize) -> Limbs {
    let mut v: Limbs = match t.weighted(&[5, 3, 3, 3, 2, 1]) {
        0 => gen::nonzero(t, w),
        1 => {
            let yc = pick_len(t, w);
            let mut v = gen::limbs(t, yc);
            v[yc - 1] = top_word(t);
            v.resize(w, 0);
            v
        }
        2 => {
            let s = small_shift(t);
            if w == 1 {
                vec![M >> s]
            } else {
                let yc = pick_len(t, w).max(2);
                let mut v = if yc > 2 { gen::limbs(t, yc - 2) } else { vec![] };
                v.push(match t.weighted(&[2, 2, 1]) {
                    0 => 0,
                    1 => M,
                    _ => t.u64(),
                });
                v.push(M);
                limbs_of(&(big(&v) >> s), w)
            }
        }
        3 => {
            let mut v = vec![0; w];
            v[0] = divisor_word(t);
            v
        }
        4 => {
            let k = t.edgy(64 * w as u64 - 1);
            limbs_of(&pow2(k), w)
        }
        _ => {
            let mut v = vec![0; w];
            v[0] = 1;
            v
        }
    };
    if is_zero(&v) {
        v[0] = 1;
    }
    v
}

/// Dividend in `nw` limbs for the divisor `d`: independent mixture, n = q d + r (r in {0, 1, d-1,
/// random}) optionally ± 1, n < d, or a value related to d (d, d ± 1, !d, -d, d >> 1, 2 d).
pub fn dividend(t: &mut Tape, nw: usize, d: &[u64]) -> Limbs {
    let dbig = big(d);
    let maxn = mask(64 * nw as u64);
    match t.weighted(&[4, 5, 2, 2]) {
        0 => gen::limbs(t, nw),
        1 => {
            let yc = sig_limbs(d);
            let full = if nw >= yc { nw - yc + 1 } else { 1 };
            let qw = match t.weighted(&[3, 1]) {
                0 => full,
                _ => t.usize_in(1, full),
            };
            let mut q = big(&gen::limbs(t, qw));
            let maxq = &maxn / &dbig;
            if q > maxq {
                q = if t.bool() { maxq.clone() } else { q % (&maxq + 1u32) };
            }
            let dm1 = &dbig - 1u32;
            let r = match t.weighted(&[2, 2, 3, 3]) {
                0 => BigUint::zero(),
                1 => BigUint::one().min(dm1.clone()),
                2 => dm1.clone(),
                _ => gen::below_big(t, &dbig),
            };
            let mut n = &q * &dbig + r;
            if n > maxn {
                n = &q * &dbig;
            }
            match t.weighted(&[4, 1, 1]) {
                0 => {}
                1 => {
                    if !n.is_zero() {
                        n -= 1u32
                    }
                }
                _ => {
                    if n < maxn {
                        n += 1u32
                    }
                }
            }
            limbs_exact(&n, nw)
        }
        2 => {
            let x = match t.weighted(&[2, 1, 2]) {
                0 => &dbig - 1u32,
                1 => &dbig >> 1u32,
                _ => gen::below_big(t, &dbig),
            };
            limbs_of(&x, nw)
        }
        _ => {
            let mut base = d.to_vec();
            base.resize(nw, 0);
            gen::related(t, &base)
        }
    }
}

/// Knuth-overestimate construction (normalised domain, then un-shifted by `s` bits):
/// divisor v' = [rest | v0 | v1] with v1 normalised and `rest` (yc-2 limbs) all MAX / high;
/// one window W = (q̂·(v1,v0) + rr)·B^(yc-2) + low, so the 3-by-2 estimate of that digit is exactly q̂
/// while the true digit is q̂ - 1 whenever rr <= q̂ - 2 (rr = q̂ - 1, q̂ probe the boundary);
/// the window is placed `m` limbs above the bottom (random lower limbs) and below an exact multiple
/// Q_hi·v'·B^(m+1) (so the higher quotient digits are those of Q_hi and leave remainder 0).
/// When the divisor has as many limbs as the dividend (`full`), the only quotient digit comes from
/// the bits shifted out of the top limb, so q̂ < 2^s - 1 and s >= 2.
pub fn knuth_pair(t: &mut Tape, nw: usize, dw: usize) -> Option<(Limbs, Limbs)> {
    let ycmax = nw.min(dw);
    if ycmax < 3 {
        return None;
    }
    let yc = match t.weighted(&[2, 2, 3]) {
        0 => 3,
        1 => ycmax,
        _ => t.usize_in(3, ycmax),
    };
    let full = yc == nw;
    let mut s = small_shift(t);
    if full && s < 2 {
        s = t.u32_in(2, 63);
    }
    let v1 = top_word(t);
    let v0 = match t.weighted(&[2, 3, 1, 1, 3]) {
        0 => 0,
        1 => M,
        2 => 1,
        3 => v1,
        _ => t.u64(),
    };
    let mut vp: Limbs = match t.weighted(&[4, 2, 1]) {
        0 => vec![M; yc - 2],
        1 => {
            let mut x = gen::limbs(t, yc - 2);
            x[yc - 3] = M;
            x
        }
        _ => gen::limbs(t, yc - 2),
    };
    vp.push(v0);
    vp.push(v1);
    if s > 0 {
        vp[0] &= !((1u64 << s) - 1);
    }
    let v = big(&vp);
    let v2 = (BigUint::from(v1) << 64u32) | BigUint::from(v0);
    let qmax: u64 = if full { (1u64 << s) - 2 } else { M };
    let qh: u64 = match t.weighted(&[3, 1, 1, 1, 4]) {
        0 => qmax,
        1 => 2,
        2 => 3.min(qmax),
        3 => TOP.min(qmax),
        _ => t.range(2, qmax),
    };
    let rr: u64 = match t.weighted(&[3, 2, 2, 1, 1, 2]) {
        0 => 0,
        1 => 1.min(qh - 2),
        2 => qh - 2,
        3 => qh - 1,
        4 => qh,
        _ => t.below(qh - 1),
    };
    let u3 = BigUint::from(qh) * &v2 + BigUint::from(rr);
    let low: Limbs = match t.weighted(&[2, 2, 3]) {
        0 => vec![0; yc - 2],
        1 => vec![M; yc - 2],
        _ => gen::limbs(t, yc - 2),
    };
    let w = (u3 << (64 * (yc as u64 - 2))) | big(&low);
    let (m, h) = if full {
        (0usize, 0usize)
    } else {
        let room = nw - 1 - yc;
        let m = match t.weighted(&[2, 2, 2]) {
            0 => 0,
            1 => room,
            _ => t.usize_in(0, room),
        };
        (m, room - m)
    };
    let qhi = if h == 0 || t.chance(1, 3) { BigUint::zero() } else { big(&gen::limbs(t, h)) };
    let lowl = if m == 0 { BigUint::zero() } else { big(&gen::limbs(t, m)) };
    let up = ((((qhi * &v) << 64u32) + w) << (64 * m as u64)) | lowl;
    let u = up >> s;
    let d = &v >> s;
    Some((limbs_exact(&u, nw), limbs_exact(&d, dw)))
}

/// (n, d) with n in `nw` limbs and d != 0 in `dw` limbs.
pub fn pair(t: &mut Tape, nw: usize, dw: usize) -> (Limbs, Limbs) {
    if nw.min(dw) >= 3 && t.chance(3, 10) {
        if let Some(p) = knuth_pair(t, nw, dw) {
            return p;
        }
    }
    let d = divisor(t, dw);
    let n = dividend(t, nw, &d);
    let (mut n, mut d) = (n, d);
    // a limb tied to an integer literal of the source under test (fuzzer-style dictionary)
    gen::dict_salt(t, &mut n, &mut d);
    if is_zero(&d) {
        d[0] = 1;
    }
    (n, d)
}

/// Dividend for single-limb division by `d`: mixture, q d + r, or limbs from {d-1, d, d+1, MAX, 0,
/// MAX - small, random} (partial remainders next to d, low limbs next to MAX: the inputs that drive
/// the 2-by-1 correction steps).
pub fn limb_dividend(t: &mut Tape, nw: usize, d: u64) -> Limbs {
    match t.weighted(&[3, 3, 4]) {
        0 => gen::limbs(t, nw),
        1 => {
            let dv = vec![d];
            dividend(t, nw, &dv)
        }
        _ => (0..nw)
            .map(|_| match t.weighted(&[2, 1, 1, 2, 1, 2, 2]) {
                0 => d - 1,
                1 => d,
                2 => d.wrapping_add(1),
                3 => M,
                4 => 0,
                5 => M - t.below(130),
                _ => t.u64(),
            })
            .collect(),
    }
}

/// Labels + the non-triviality rule of `PropSpec::rule` for a (n, d != 0) division case.
pub fn classify(c: &mut Case, n: &[u64], d: &[u64], q: &BigUint, r: &BigUint) {
    let yc = sig_limbs(d);
    let dbits = bit_len(d);
    let qd = nonzero_digits(q);
    let mut nt = qd >= 2;
    if qd >= 2 {
        c.label("quotient: >= 2 non-zero digits");
    }
    if dbits % 64 == 0 {
        nt = true;
        c.label("d: bit length = 0 mod 64");
    }
    let db = big(d);
    if db.is_one() {
        c.label("d = 1");
    } else if db.count_ones() == 1 {
        c.label("d = 2^k");
    }
    if yc == 1 {
        c.label(if n.len() > 1 || d.len() > 1 { "d: single limb inside a multi-limb width" } else { "d: single limb, single-limb width" });
        let s = limb_sim(n, d[0]);
        if s.first + s.second > 0 {
            nt = true;
        }
        if s.second > 0 {
            c.label("div2by1 model: case with second correction (r >= d)");
        }
        if d[0] == M {
            c.label("d: limb = MAX (reciprocal corner)");
        }
    } else {
        let s = d[yc - 1].leading_zeros();
        let top2 = limbs_of(&((&db << s) >> (64 * (yc as u64 - 2))), 2);
        if top2[1] == M {
            c.label("d: normalised top limb = MAX");
        }
        if top2[0] == 0 {
            c.label("d: normalised second limb = 0");
        } else if top2[0] == M {
            c.label("d: normalised second limb = MAX");
        }
        if yc > n.len() {
            c.label("d: more significant limbs than the dividend has limbs");
        } else if yc == n.len() {
            c.label("d: as many significant limbs as the dividend has limbs");
        }
        if let Some(s) = knuth_sim(n, d) {
            if s.addbacks > 0 {
                nt = true;
                c.label("knuth: case with >= 1 add-back");
                for _ in 0..s.addbacks {
                    c.label("knuth: add-back steps (total)");
                }
            }
            if s.caps > 0 {
                nt = true;
                c.label("knuth: case with q-hat capped at B-1 (u2 == v1)");
            }
            if s.decrements > 0 {
                c.label("knuth: case with 3-by-2 decrement step");
            }
            if s.decrements >= 2 {
                c.label("knuth: case with >= 2 3-by-2 decrement steps");
            }
        }
    }
    let nb = big(n);
    if nb < db {
        c.label("n < d");
    } else if r.is_zero() {
        c.label("n = q*d (r = 0)");
    } else if r + 1u32 == db {
        c.label("n = q*d - 1 (r = d - 1)");
    } else if r.is_one() {
        c.label("n = q*d + 1 (r = 1)");
    }
    c.nontrivial(nt);
}
