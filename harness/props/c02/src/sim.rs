//! Oracle-side reference models used only to *classify* cases (labels, non-triviality):
//!
//! * a Knuth algorithm-D simulation (schoolbook base-2^64 long division on the normalised operands,
//!   done with BigUint) that reports, per quotient digit, whether the 3-by-2 estimate q̂ is one above
//!   the true digit (=> the implementation must take its add-back branch), whether the estimate was
//!   capped at B-1 (u2 == v1), and how many decrement steps the 3-by-2 refinement needs;
//! * a Möller–Granlund 2-by-1 model (reciprocal from its definition, u128 arithmetic) reporting which
//!   of the two correction steps a single-limb division takes.
//!
//! Neither model is used for the verdict: verdicts compare against BigUint `/` and `%` only.

use num_bigint::BigUint;
use num_traits::{ToPrimitive, Zero};
use vmodel::*;

pub fn sig_limbs(v: &[u64]) -> usize {
    ((bit_len(v) + 63) / 64) as usize
}

#[derive(Default, Debug, Clone, Copy)]
pub struct KnuthSim {
    pub digits: u32,
    /// digits whose estimate q̂ = min(B-1, floor(u3/v2)) exceeds the true digit (add-back taken)
    pub addbacks: u32,
    /// digits with u2 == v1 (estimate capped at B-1)
    pub caps: u32,
    /// total decrement steps from min(B-1, floor((u2,u1)/v1)) down to q̂
    pub decrements: u32,
}

/// `n`: dividend limbs (any length >= 1), `d`: divisor limbs. `None` when the divisor has fewer than
/// two significant limbs or more significant limbs than the dividend has limbs (no Knuth loop runs).
pub fn knuth_sim(n: &[u64], d: &[u64]) -> Option<KnuthSim> {
    let yc = sig_limbs(d);
    let nn = n.len();
    if yc < 2 || nn < yc {
        return None;
    }
    let s = d[yc - 1].leading_zeros();
    let v = big(&d[..yc]) << s;
    let u = limbs_of(&(big(n) << s), nn + 1);
    let v2 = &v >> (64 * (yc as u64 - 2));
    let v1 = &v2 >> 64u32;
    let bmax = BigUint::from(u64::MAX);
    let mut r = big(&u[nn - yc + 1..]);
    let mut out = KnuthSim::default();
    for j in (0..=nn - yc).rev() {
        let w = (&r << 64u32) | BigUint::from(u[j]);
        let u3 = &w >> (64 * (yc as u64 - 2));
        let top2 = &u3 >> 64u32;
        let u2 = &top2 >> 64u32;
        if u2 == v1 {
            out.caps += 1;
        }
        let q0 = (&top2 / &v1).min(bmax.clone());
        let qh = (&u3 / &v2).min(bmax.clone());
        let q = &w / &v;
        out.digits += 1;
        out.decrements += (&q0 - &qh).to_u32().unwrap_or(u32::MAX);
        if qh > q {
            out.addbacks += 1;
        }
        r = w - &q * &v;
    }
    Some(out)
}

#[derive(Default, Debug, Clone, Copy)]
pub struct LimbSim {
    /// 2-by-1 steps taking the first correction (r > q0: q -= 1, r += d)
    pub first: u32,
    /// 2-by-1 steps taking the second correction (r >= d: q += 1, r -= d)
    pub second: u32,
}

/// reciprocal by definition: floor((B^2 - 1) / d) - B for a normalised d
fn recip_def(d: u64) -> u64 {
    debug_assert!(d >> 63 == 1);
    (u128::MAX / d as u128 - (1u128 << 64)) as u64
}

/// One Möller–Granlund 2-by-1 step (Algorithm 4 of "Improved division by invariant integers").
fn mg_step(u1: u64, u0: u64, d: u64, v: u64) -> (u64, bool, bool) {
    let p = (v as u128) * (u1 as u128) + (((u1 as u128) << 64) | u0 as u128);
    let q0 = p as u64;
    let q1 = ((p >> 64) as u64).wrapping_add(1);
    let mut r = u0.wrapping_sub(q1.wrapping_mul(d));
    let first = r > q0;
    if first {
        r = r.wrapping_add(d);
    }
    let second = r >= d;
    if second {
        r -= d;
    }
    (r, first, second)
}

/// Division of the limbs `n` by the single word `d != 0`, as the implementation organises it:
/// normalise by `s = lz(d)`, then one 2-by-1 step per limb from the top.
pub fn limb_sim(n: &[u64], d: u64) -> LimbSim {
    let s = d.leading_zeros();
    let dn = d << s;
    let v = recip_def(dn);
    let u = limbs_of(&(big(n) << s), n.len() + 1);
    let mut r = u[n.len()];
    let mut out = LimbSim::default();
    for j in (0..n.len()).rev() {
        let (r2, f, sec) = mg_step(r, u[j], dn, v);
        // self-check of the model against plain u128 division (labels only; never a verdict)
        let want = ((((r as u128) << 64) | u[j] as u128) % dn as u128) as u64;
        r = want;
        if r2 == want {
            out.first += f as u32;
            out.second += sec as u32;
        }
    }
    out
}

/// Number of non-zero base-2^64 digits of `q`.
pub fn nonzero_digits(q: &BigUint) -> usize {
    if q.is_zero() {
        0
    } else {
        q.to_u64_digits().iter().filter(|&&w| w != 0).count()
    }
}
