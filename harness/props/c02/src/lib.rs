//! C02 — unsigned division and remainder are exact for every dividend and divisor.
//!
//! Oracle: `num_bigint::BigUint` `/` and `%` (with the identity n = q d + r, r < d re-checked on the
//! oracle values and on the returned values), results compared in the documented result width.

mod boxed;
mod fixed;
mod gens;
mod recip;
mod recsel;
mod sim;
mod surface;

use vmodel::*;

pub fn spec() -> PropSpec {
    PropSpec {
        id: "C02",
        rule: "cases: (n, d != 0) pairs. Divisors: mixture of edge shapes (constants, 2^k(+-1), patterned limbs 0/MAX/.., runs of ones, random bit length, uniform, zero-padded), bit length a multiple of 64, normalised top limb MAX with second limb 0/MAX, a single limb (1, 2, 3, 2^k, 2^63, MAX, MAX-small) inside the width, 2^k, 1. Dividends: independent mixture, n = q*d + r with r in {0, 1, d-1, random} and optionally +-1, n < d, values related to d, and the Knuth-overestimate construction (normalised divisor [MAX.. | v0 | v1], one dividend window = (qh*(v1,v0) + rr)*B^(yc-2) + low so that the 3-by-2 estimate is qh and the true digit qh-1; placed above random lower limbs and below an exact multiple of the divisor; both un-shifted by s bits). Every division / remainder form of the type is checked on each pair against BigUint. non-trivial (division cases): the quotient has >= 2 non-zero base-2^64 digits, OR a reference Knuth-D simulation on the normalised operands reports >= 1 digit whose 3-by-2 estimate exceeds the true digit (add-back) or >= 1 digit with the estimate capped at B-1 (u2 == v1), OR (single-limb divisors) a Moeller-Granlund 2-by-1 model reports >= 1 reciprocal correction step, OR the divisor's bit length is = 0 mod 64. non-trivial (rem2k_vartime cases): the reduction removes at least one set bit and keeps at least one, or k >= BITS with n != 0. non-trivial (Limb mul_rem cases): a*b >= 2^64-c and the product needs two limbs or the 2-by-1 model reports a correction. d = 0 cases (checked forms are none) are counted as trivial. surface/* sub-checks repeat the division rule on the same generators for forms, generic routes, limb counts (5, 7, ...) and boxed precisions not reached otherwise; their none-operand (Checked) and Reciprocal::default() totality cases are counted as trivial. distinct by the operand limbs (+ widths, k). Since seeding round 4: one pair in twelve has a limb tied to an integer literal harvested from the source under test (operand limb, limb sum or limb difference equal to K, K+1, K-1).",
        assumptions: vec![
            "num-bigint division is correct (independent implementation); q and r are computed separately and the identity n = q*d + r, r < d is re-checked".into(),
            "bridging uses from_words/as_words only".into(),
            "BoxedUint constant-time forms with unequal precisions: the explicit assertion 'the precision of the divisor must match the dividend' is treated as a stated precondition (panic accepted, a returned value must be exact)".into(),
            "BoxedUint results with unequal precisions are compared by value (their width is not documented)".into(),
        ],
        subchecks,
    }
}

macro_rules! per_width {
    ($v:ident, $fam:literal, $f:ident, $q:expr, $tape:expr; $($n:literal),*) => { $(
        $v.push(SubCheck::new(format!("fixed/{}/U{}", $fam, 64 * $n), $q, fixed::$f::<$n>).tape($tape + 8 * $n));
    )* };
}
macro_rules! mixed {
    ($v:ident, $q:expr; $(($l:literal, $r:literal)),*) => { $(
        $v.push(SubCheck::new(format!("fixed/div_rem_vartime-mixed/U{}-by-U{}", 64 * $l, 64 * $r), $q, fixed::fixed_mixed::<$l, $r>).tape(48 + 8 * ($l + $r)));
    )* };
}

fn subchecks(ctx: &Ctx) -> Vec<SubCheck> {
    let mut v = vec![];
    v.push(SubCheck::new("limb/mul_rem-via-mul_mod_special", 200_000, fixed::limb_mul_rem).tape(16));

    per_width!(v, "div", fixed_div, 20_000, 48; 1, 2, 3, 4);
    per_width!(v, "div", fixed_div, 10_000, 48; 6, 8);
    per_width!(v, "div", fixed_div, 5_000, 48; 16);
    per_width!(v, "div", fixed_div, 1_500, 48; 32);
    per_width!(v, "div", fixed_div, 500, 48; 64);

    per_width!(v, "limb", fixed_limb, 30_000, 32; 1, 2, 3, 4);
    per_width!(v, "limb", fixed_limb, 15_000, 32; 6, 8, 16);
    per_width!(v, "limb", fixed_limb, 4_000, 32; 32, 64);

    per_width!(v, "rem_wide", fixed_rem_wide, 30_000, 64; 1, 2, 3, 4);
    per_width!(v, "rem_wide", fixed_rem_wide, 15_000, 64; 6, 8, 16);
    per_width!(v, "rem_wide", fixed_rem_wide, 3_000, 64; 32);
    per_width!(v, "rem_wide", fixed_rem_wide, 1_000, 64; 64);

    per_width!(v, "rem2k", fixed_rem2k, 30_000, 16; 1, 2, 3, 4, 8);
    per_width!(v, "rem2k", fixed_rem2k, 10_000, 16; 6, 16, 32, 64);

    mixed!(v, 15_000; (1, 2), (2, 1), (2, 4), (4, 2), (3, 4), (4, 3), (3, 6), (6, 3), (4, 8), (8, 4), (8, 3), (3, 8));
    mixed!(v, 6_000; (16, 4), (4, 16), (16, 8), (8, 16), (16, 15), (32, 16), (16, 32));
    if ctx.thorough() {
        mixed!(v, 300; (64, 32), (32, 64), (64, 1), (1, 64), (64, 63));
    }
    v.push(SubCheck::new("fixed/rem_mixed/all-112-combinations", 120_000, fixed::fixed_rem_mixed_all).tape(48 + 8 * 32));

    v.push(SubCheck::new("boxed/div/1..=70", 12_000, boxed::boxed_div(70)).tape(48 + 8 * 140));
    v.push(SubCheck::new("boxed/div-mixed-precision/1..=70", 20_000, boxed::boxed_div_mixed(70, false)).tape(48 + 8 * 140));
    v.push(SubCheck::new("boxed/checked_div-mixed-precision/1..=70", 4_000, boxed::boxed_div_mixed(70, true)).tape(48 + 8 * 140));
    v.push(SubCheck::new("boxed/limb/1..=70", 30_000, boxed::boxed_limb(70)).tape(48 + 4 * 70));
    v.extend(recsel::subchecks());
    // API-surface audit (/verif/audit/A.md): forms, routes and widths reached only through a sibling before
    v.extend(surface::subchecks(ctx));
    // every slim-margin prefix of the reciprocal's Newton refinement (see recip.rs)
    v.push(SubCheck::new("limb/reciprocal-newton-margins", 6_000, recip::newton_margins).tape(16).thorough(4));
    // exact multiples with a quotient close to 2^64: the second div2by1 correction with r == d (see recip.rs)
    v.push(SubCheck::new("limb/exact-multiples-second-correction", 6_000, recip::exact_multiples).tape(400).thorough(8));
    v
}
