//! Division by a limb with a precomputed `Reciprocal` that reached the caller through a
//! constant-time SELECTION (`conditional_select`, `conditional_assign`, `CtOption::unwrap_or` /
//! `map`, which select against `Reciprocal::default()`): the selected object must divide exactly like
//! a freshly built one. Added after the round-2 seeded change C02-D (the selected reciprocal carried
//! the other candidate's normalisation shift) was missed by C02 — the first version only used
//! `Reciprocal::new` directly.
//!
//! Oracle: BigUint `div_rem` by the chosen limb. Non-trivial: the two candidates have different
//! normalisation shifts (different leading-zero counts).
use crypto_bigint::subtle::{Choice, ConditionallySelectable, CtOption};
use crypto_bigint::{BoxedUint, Limb, NonZero, Reciprocal};
use num_bigint::BigUint;
use vmodel::gen;
use vmodel::*;

fn recips(t: &mut Tape, c: &mut Case) -> (u64, u64, Vec<(&'static str, Reciprocal, u64)>) {
    let d1 = gen::word(t).max(1);
    let d2 = match t.weighted(&[2, 3]) {
        0 => d1,
        _ => gen::word(t).max(1),
    };
    c.num("d1", d1);
    c.num("d2", d2);
    c.nontrivial(d1.leading_zeros() != d2.leading_zeros());
    let (r1, r2) = (Reciprocal::new(NonZero::new(Limb(d1)).unwrap()), Reciprocal::new(NonZero::new(Limb(d2)).unwrap()));
    let mut v: Vec<(&'static str, Reciprocal, u64)> = vec![];
    v.push(("conditional_select(r1, r2, 0)", Reciprocal::conditional_select(&r1, &r2, Choice::from(0)), d1));
    v.push(("conditional_select(r1, r2, 1)", Reciprocal::conditional_select(&r1, &r2, Choice::from(1)), d2));
    let mut x = r1;
    x.conditional_assign(&r2, Choice::from(1));
    v.push(("conditional_assign(r2, 1)", x, d2));
    let mut x = r1;
    x.conditional_assign(&r2, Choice::from(0));
    v.push(("conditional_assign(r2, 0)", x, d1));
    let (mut x, mut y) = (r1, r2);
    Reciprocal::conditional_swap(&mut x, &mut y, Choice::from(1));
    v.push(("conditional_swap(1).0", x, d2));
    v.push(("conditional_swap(1).1", y, d1));
    // CtOption routes select against Reciprocal::default()
    v.push(("CtOption::new(r2, 1).unwrap_or(default)", CtOption::new(r2, Choice::from(1)).unwrap_or(Reciprocal::default()), d2));
    v.push(("CtOption::new(r1, 1).map(id).unwrap()", CtOption::new(r1, Choice::from(1)).map(|r| r).unwrap(), d1));
    v.push(("CtOption::new(r2, 1).and_then(some).unwrap()", CtOption::new(r2, Choice::from(1)).and_then(|r| CtOption::new(r, Choice::from(1))).unwrap(), d2));
    (d1, d2, v)
}

pub fn fixed_case<const N: usize>(t: &mut Tape, c: &mut Case) -> CaseResult {
    let (_, _, forms) = recips(t, c);
    let nl = gen::limbs(t, N);
    c.limbs("n", &nl);
    let n = uint::<N>(&nl);
    for (name, r, d) in forms.iter() {
        let (q, rem) = (big(&nl) / BigUint::from(*d), big(&nl) % BigUint::from(*d));
        let (gq, gr) = total(name, || n.div_rem_limb_with_reciprocal(r))?;
        vensure!(ubig(&gq) == q && BigUint::from(gr.0) == rem, "Uint<{}>::div_rem_limb_with_reciprocal via {}: got ({}, {:#x}), want ({:#x}, {:#x}) for divisor {:#x}", N, name, hex(gq.as_words()), gr.0, q, rem, d);
        let gr2 = total(name, || n.rem_limb_with_reciprocal(r))?;
        vensure!(BigUint::from(gr2.0) == rem, "Uint<{}>::rem_limb_with_reciprocal via {}: got {:#x}, want {:#x} for divisor {:#x}", N, name, gr2.0, rem, d);
    }
    Ok(())
}

pub fn boxed_case(t: &mut Tape, c: &mut Case) -> CaseResult {
    let (_, _, forms) = recips(t, c);
    let k = t.usize_in(1, 9);
    let nl = gen::limbs(t, k);
    c.limbs("n", &nl);
    let n: BoxedUint = boxed(&nl);
    for (name, r, d) in forms.iter() {
        let (q, rem) = (big(&nl) / BigUint::from(*d), big(&nl) % BigUint::from(*d));
        let (gq, gr) = total(name, || n.div_rem_limb_with_reciprocal(r))?;
        vensure!(bbig(&gq) == q && BigUint::from(gr.0) == rem, "BoxedUint({} limbs)::div_rem_limb_with_reciprocal via {}: got ({}, {:#x}), want ({:#x}, {:#x}) for divisor {:#x}", k, name, hex(gq.as_words()), gr.0, q, rem, d);
        let gr2 = total(name, || n.rem_limb_with_reciprocal(r))?;
        vensure!(BigUint::from(gr2.0) == rem, "BoxedUint::rem_limb_with_reciprocal via {}: got {:#x}, want {:#x} for divisor {:#x}", name, gr2.0, rem, d);
    }
    Ok(())
}

pub fn subchecks() -> Vec<SubCheck> {
    vec![
        SubCheck::new("limb/reciprocal-through-selection/U64", 60_000, fixed_case::<1>).tape(32),
        SubCheck::new("limb/reciprocal-through-selection/U256", 60_000, fixed_case::<4>).tape(40),
        SubCheck::new("limb/reciprocal-through-selection/boxed/1..=9", 60_000, boxed_case).tape(48),
    ]
}
