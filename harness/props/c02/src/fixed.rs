//! Fixed-width `Uint<L>` division / remainder forms.

use crate::gens::*;
use crate::sim::*;
use crypto_bigint::{
    Checked, CheckedDiv, DivRemLimb, DivVartime, Integer, Limb, NonZero, Reciprocal, RemLimb, RemMixed, Uint, Wrapping,
};
use num_bigint::BigUint;
use num_traits::Zero;
use vmodel::gen;
use vmodel::*;

type QF<const L: usize> = (&'static str, Box<dyn Fn() -> Uint<L>>);

fn bx<T>(f: impl Fn() -> T + 'static) -> Box<dyn Fn() -> T> {
    Box::new(f)
}

pub fn nz_uint<const L: usize>(d: Uint<L>) -> Result<NonZero<Uint<L>>, Fail> {
    Option::<NonZero<Uint<L>>>::from(NonZero::new(d)).ok_or_else(|| Fail::new("NonZero::new(d) is none although d != 0"))
}

pub fn nz_limb(d: u64) -> Result<NonZero<Limb>, Fail> {
    Option::<NonZero<Limb>>::from(NonZero::new(Limb(d))).ok_or_else(|| Fail::new("NonZero::new(Limb(d)) is none although d != 0"))
}

/// n == q d + r and r < d, recomputed through BigUint from the *returned* limbs.
fn identity(name: &str, q: &[u64], r: &[u64], nb: &BigUint, db: &BigUint) -> CaseResult {
    let (qb, rb) = (big(q), big(r));
    vensure!(&qb * db + &rb == *nb, "{name}: q*d + r != n (q = {}, r = {})", hex(q), hex(r));
    vensure!(rb < *db, "{name}: remainder {} is not below the divisor", hex(r));
    Ok(())
}

/// Generic over `Integer`: operator and assigning forms reached through the trait bounds.
pub fn via_integer<T: Integer>(n: &T, d: &NonZero<T>) -> (Vec<(&'static str, T)>, Vec<(&'static str, T)>) {
    let mut qs = vec![];
    let mut rs = vec![];
    qs.push(("Integer: T / NonZero<T>", n.clone() / d.clone()));
    qs.push(("Integer: T / &NonZero<T>", n.clone() / d));
    let mut x = n.clone();
    x /= d.clone();
    qs.push(("Integer: T /= NonZero<T>", x));
    let mut x = n.clone();
    x /= d;
    qs.push(("Integer: T /= &NonZero<T>", x));
    if let Some(v) = Option::<T>::from(CheckedDiv::checked_div(n, d.as_ref())) {
        qs.push(("Integer: CheckedDiv::checked_div", v));
    }
    rs.push(("Integer: T % NonZero<T>", n.clone() % d.clone()));
    rs.push(("Integer: T % &NonZero<T>", n.clone() % d));
    let mut x = n.clone();
    x %= d.clone();
    rs.push(("Integer: T %= NonZero<T>", x));
    let mut x = n.clone();
    x %= d;
    rs.push(("Integer: T %= &NonZero<T>", x));
    (qs, rs)
}

// ------------------------------------------------------------------------------------------------
// equal widths: every form taking a Uint<L> divisor

fn fixed_div_zero<const L: usize>(t: &mut Tape, c: &mut Case) -> CaseResult {
    let nl = gen::limbs(t, L);
    c.limbs("n", &nl);
    c.text("d", "0");
    c.label("d = 0: checked forms must be none");
    let n = uint::<L>(&nl);
    let z = Uint::<L>::ZERO;
    vensure!(!bool::from(total("checked_div(0)", || n.checked_div(&z))?.is_some()), "checked_div(n, 0) is some");
    vensure!(!bool::from(total("checked_rem(0)", || n.checked_rem(&z))?.is_some()), "checked_rem(n, 0) is some");
    vensure!(!bool::from(total("CheckedDiv(0)", || CheckedDiv::checked_div(&n, &z))?.is_some()), "CheckedDiv::checked_div(n, 0) is some");
    let ch = total("Checked / Checked(0)", || Checked::new(n) / Checked::new(z))?;
    vensure!(!bool::from(ch.0.is_some()), "Checked(n) / Checked(0) is some");
    let ch = total("&Checked / &Checked(0)", || &Checked::new(n) / &Checked::new(z))?;
    vensure!(!bool::from(ch.0.is_some()), "&Checked(n) / &Checked(0) is some");
    // documented: "Panics if `rhs == 0`"
    must_panic("wrapping_rem_vartime(n, 0)", || n.wrapping_rem_vartime(&z))?;
    Ok(())
}

pub fn fixed_div<const L: usize>(t: &mut Tape, c: &mut Case) -> CaseResult {
    if t.chance(1, 40) {
        return fixed_div_zero::<L>(t, c);
    }
    let (nl, dl) = pair(t, L, L);
    c.limbs("n", &nl);
    c.limbs("d", &dl);
    let (nb, db) = (big(&nl), big(&dl));
    let (qb, rb) = oracle(&nb, &db);
    classify(c, &nl, &dl, &qb, &rb);
    let (wq, wr) = (limbs_exact(&qb, L), limbs_exact(&rb, L));
    let (n, d) = (uint::<L>(&nl), uint::<L>(&dl));
    let nz = nz_uint(d)?;

    // (q, r) pairs
    let pairs: [(&str, Box<dyn Fn() -> (Uint<L>, Uint<L>)>); 2] =
        [("div_rem", bx(move || n.div_rem(&nz))), ("div_rem_vartime", bx(move || n.div_rem_vartime(&nz)))];
    for (name, f) in pairs.iter() {
        let (q, r) = total(name, || f())?;
        veq!(ul(&q), wq, "{name} quotient (U{})", 64 * L);
        veq!(ul(&r), wr, "{name} remainder (U{})", 64 * L);
        identity(name, &ul(&q), &ul(&r), &nb, &db)?;
    }

    let qforms: Vec<QF<L>> = vec![
        ("wrapping_div", bx(move || n.wrapping_div(&nz))),
        ("wrapping_div_vartime", bx(move || n.wrapping_div_vartime(&nz))),
        ("DivVartime::div_vartime", bx(move || DivVartime::div_vartime(&n, &nz))),
        ("Uint / NonZero<Uint>", bx(move || n / nz)),
        ("Uint / &NonZero<Uint>", bx(move || n / &nz)),
        ("&Uint / NonZero<Uint>", bx(move || &n / nz)),
        ("&Uint / &NonZero<Uint>", bx(move || &n / &nz)),
        ("Uint / Uint", bx(move || n / d)),
        ("&Uint / Uint", bx(move || &n / d)),
        ("Uint /= NonZero<Uint>", bx(move || { let mut x = n; x /= nz; x })),
        ("Uint /= &NonZero<Uint>", bx(move || { let mut x = n; x /= &nz; x })),
        ("Wrapping / NonZero<Uint>", bx(move || (Wrapping(n) / nz).0)),
        ("Wrapping / &NonZero<Uint>", bx(move || (Wrapping(n) / &nz).0)),
        ("&Wrapping / NonZero<Uint>", bx(move || (&Wrapping(n) / nz).0)),
        ("&Wrapping / &NonZero<Uint>", bx(move || (&Wrapping(n) / &nz).0)),
        ("Wrapping /= NonZero<Uint>", bx(move || { let mut x = Wrapping(n); x /= nz; x.0 })),
        ("Wrapping /= &NonZero<Uint>", bx(move || { let mut x = Wrapping(n); x /= &nz; x.0 })),
    ];
    for (name, f) in qforms.iter() {
        veq!(ul(&total(name, || f())?), wq, "{name} (U{})", 64 * L);
    }
    let rforms: Vec<QF<L>> = vec![
        ("rem", bx(move || n.rem(&nz))),
        ("rem_vartime", bx(move || n.rem_vartime(&nz))),
        ("wrapping_rem_vartime", bx(move || n.wrapping_rem_vartime(&d))),
        ("Uint % NonZero<Uint>", bx(move || n % nz)),
        ("Uint % &NonZero<Uint>", bx(move || n % &nz)),
        ("&Uint % NonZero<Uint>", bx(move || &n % nz)),
        ("&Uint % &NonZero<Uint>", bx(move || &n % &nz)),
        ("Uint % Uint", bx(move || n % d)),
        ("&Uint % Uint", bx(move || &n % d)),
        ("Uint %= NonZero<Uint>", bx(move || { let mut x = n; x %= nz; x })),
        ("Uint %= &NonZero<Uint>", bx(move || { let mut x = n; x %= &nz; x })),
        ("Wrapping % NonZero<Uint>", bx(move || (Wrapping(n) % nz).0)),
        ("Wrapping % &NonZero<Uint>", bx(move || (Wrapping(n) % &nz).0)),
        ("&Wrapping % NonZero<Uint>", bx(move || (&Wrapping(n) % nz).0)),
        ("&Wrapping % &NonZero<Uint>", bx(move || (&Wrapping(n) % &nz).0)),
        ("Wrapping %= NonZero<Uint>", bx(move || { let mut x = Wrapping(n); x %= nz; x.0 })),
        ("Wrapping %= &NonZero<Uint>", bx(move || { let mut x = Wrapping(n); x %= &nz; x.0 })),
    ];
    for (name, f) in rforms.iter() {
        veq!(ul(&total(name, || f())?), wr, "{name} (U{})", 64 * L);
    }

    // checked forms: some (d != 0) with the exact value
    let ck = total("checked_div", || n.checked_div(&d))?;
    vensure!(bool::from(ck.is_some()), "checked_div is none although d != 0");
    veq!(ul(&ck.unwrap()), wq, "checked_div value");
    let ck = total("CheckedDiv::checked_div", || CheckedDiv::checked_div(&n, &d))?;
    vensure!(bool::from(ck.is_some()), "CheckedDiv::checked_div is none although d != 0");
    veq!(ul(&ck.unwrap()), wq, "CheckedDiv::checked_div value");
    let ck = total("checked_rem", || n.checked_rem(&d))?;
    vensure!(bool::from(ck.is_some()), "checked_rem is none although d != 0");
    veq!(ul(&ck.unwrap()), wr, "checked_rem value");
    let (cn, cd) = (Checked::new(n), Checked::new(d));
    let chs: [(&str, Box<dyn Fn() -> Checked<Uint<L>>>); 4] = [
        ("Checked / Checked", bx(move || cn / cd)),
        ("Checked / &Checked", bx(move || cn / &cd)),
        ("&Checked / Checked", bx(move || &cn / cd)),
        ("&Checked / &Checked", bx(move || &cn / &cd)),
    ];
    for (name, f) in chs.iter() {
        let v = total(name, || f())?;
        vensure!(bool::from(v.0.is_some()), "{name} is none although d != 0");
        veq!(ul(&v.0.unwrap()), wq, "{name} value");
    }
    let none = Checked::<Uint<L>>(subtle::CtOption::new(n, 0.into()));
    vensure!(!bool::from(total("none / Checked", || none / cd)?.0.is_some()), "Checked: none / d must stay none");

    let (qs, rs) = total("Integer-bound operator forms", || via_integer(&n, &nz))?;
    vensure!(qs.len() == 5, "Integer: CheckedDiv::checked_div is none although d != 0");
    for (name, v) in qs.iter() {
        veq!(ul(v), wq, "{name} (U{})", 64 * L);
    }
    for (name, v) in rs.iter() {
        veq!(ul(v), wr, "{name} (U{})", 64 * L);
    }
    Ok(())
}

// ------------------------------------------------------------------------------------------------
// division by a single limb

pub fn fixed_limb<const L: usize>(t: &mut Tape, c: &mut Case) -> CaseResult {
    let dw = divisor_word(t);
    let nl = limb_dividend(t, L, dw);
    c.limbs("n", &nl);
    c.num("d", dw);
    let (nb, db) = (big(&nl), BigUint::from(dw));
    let (qb, rb) = oracle(&nb, &db);
    classify(c, &nl, &[dw], &qb, &rb);
    let wq = limbs_exact(&qb, L);
    let wr = limbs_exact(&rb, 1)[0];
    let n = uint::<L>(&nl);
    let nzl = nz_limb(dw)?;
    let rec = total("Reciprocal::new", || Reciprocal::new(nzl))?;

    let pairs: [(&str, Box<dyn Fn() -> (Uint<L>, Limb)>); 4] = [
        ("div_rem_limb", bx(move || n.div_rem_limb(nzl))),
        ("div_rem_limb_with_reciprocal", bx(move || n.div_rem_limb_with_reciprocal(&rec))),
        ("DivRemLimb::div_rem_limb", bx(move || DivRemLimb::div_rem_limb(&n, nzl))),
        ("DivRemLimb::div_rem_limb_with_reciprocal", bx(move || DivRemLimb::div_rem_limb_with_reciprocal(&n, &rec))),
    ];
    for (name, f) in pairs.iter() {
        let (q, r) = total(name, || f())?;
        veq!(ul(&q), wq, "{name} quotient (U{})", 64 * L);
        veq!(r.0, wr, "{name} remainder (U{})", 64 * L);
        identity(name, &ul(&q), &[r.0], &nb, &db)?;
    }
    let lforms: [(&str, Box<dyn Fn() -> Limb>); 12] = [
        ("rem_limb", bx(move || n.rem_limb(nzl))),
        ("rem_limb_with_reciprocal", bx(move || n.rem_limb_with_reciprocal(&rec))),
        ("RemLimb::rem_limb", bx(move || RemLimb::rem_limb(&n, nzl))),
        ("RemLimb::rem_limb_with_reciprocal", bx(move || RemLimb::rem_limb_with_reciprocal(&n, &rec))),
        ("Uint % NonZero<Limb>", bx(move || n % nzl)),
        ("Uint % &NonZero<Limb>", bx(move || n % &nzl)),
        ("&Uint % NonZero<Limb>", bx(move || &n % nzl)),
        ("&Uint % &NonZero<Limb>", bx(move || &n % &nzl)),
        ("Wrapping % NonZero<Limb>", bx(move || (Wrapping(n) % nzl).0)),
        ("Wrapping % &NonZero<Limb>", bx(move || (Wrapping(n) % &nzl).0)),
        ("&Wrapping % NonZero<Limb>", bx(move || (&Wrapping(n) % nzl).0)),
        ("&Wrapping % &NonZero<Limb>", bx(move || (&Wrapping(n) % &nzl).0)),
    ];
    for (name, f) in lforms.iter() {
        veq!(total(name, || f())?.0, wr, "{name} (U{})", 64 * L);
    }
    let qforms: Vec<QF<L>> = vec![
        ("Uint / NonZero<Limb>", bx(move || n / nzl)),
        ("Uint / &NonZero<Limb>", bx(move || n / &nzl)),
        ("&Uint / NonZero<Limb>", bx(move || &n / nzl)),
        ("&Uint / &NonZero<Limb>", bx(move || &n / &nzl)),
        ("Uint /= NonZero<Limb>", bx(move || { let mut x = n; x /= nzl; x })),
        ("Uint /= &NonZero<Limb>", bx(move || { let mut x = n; x /= &nzl; x })),
        ("Wrapping / NonZero<Limb>", bx(move || (Wrapping(n) / nzl).0)),
        ("Wrapping / &NonZero<Limb>", bx(move || (Wrapping(n) / &nzl).0)),
        ("&Wrapping / NonZero<Limb>", bx(move || (&Wrapping(n) / nzl).0)),
        ("&Wrapping / &NonZero<Limb>", bx(move || (&Wrapping(n) / &nzl).0)),
        ("Wrapping /= NonZero<Limb>", bx(move || { let mut x = Wrapping(n); x /= nzl; x.0 })),
        ("Wrapping /= &NonZero<Limb>", bx(move || { let mut x = Wrapping(n); x /= &nzl; x.0 })),
    ];
    for (name, f) in qforms.iter() {
        veq!(ul(&total(name, || f())?), wq, "{name} (U{})", 64 * L);
    }
    // `%=` with a limb divisor leaves the remainder in a Uint<L>
    let mut wrl = vec![0u64; L];
    wrl[0] = wr;
    let aforms: Vec<QF<L>> = vec![
        ("Uint %= NonZero<Limb>", bx(move || { let mut x = n; x %= nzl; x })),
        ("Uint %= &NonZero<Limb>", bx(move || { let mut x = n; x %= &nzl; x })),
        ("Wrapping %= NonZero<Limb>", bx(move || { let mut x = Wrapping(n); x %= nzl; x.0 })),
        ("Wrapping %= &NonZero<Limb>", bx(move || { let mut x = Wrapping(n); x %= &nzl; x.0 })),
    ];
    for (name, f) in aforms.iter() {
        veq!(ul(&total(name, || f())?), wrl, "{name} (U{})", 64 * L);
    }
    Ok(())
}

// ------------------------------------------------------------------------------------------------
// double-width dividend

pub fn fixed_rem_wide<const L: usize>(t: &mut Tape, c: &mut Case) -> CaseResult {
    let (nl, dl) = pair(t, 2 * L, L);
    c.limbs("n (lo|hi)", &nl);
    c.limbs("d", &dl);
    let (nb, db) = (big(&nl), big(&dl));
    let (qb, rb) = oracle(&nb, &db);
    classify(c, &nl, &dl, &qb, &rb);
    if !is_zero(&nl[L..]) {
        c.label("rem_wide: upper half non-zero");
    }
    if big(&nl[L..]) >= db {
        c.label("rem_wide: upper half >= d (quotient exceeds one width)");
    }
    let (lo, hi) = (uint::<L>(&nl[..L]), uint::<L>(&nl[L..]));
    let nz = nz_uint(uint::<L>(&dl))?;
    let r = total("rem_wide_vartime", || Uint::<L>::rem_wide_vartime((lo, hi), &nz))?;
    veq!(ul(&r), limbs_exact(&rb, L), "rem_wide_vartime (U{} / U{})", 128 * L, 64 * L);
    Ok(())
}

// ------------------------------------------------------------------------------------------------
// n mod 2^k

pub fn fixed_rem2k<const L: usize>(t: &mut Tape, c: &mut Case) -> CaseResult {
    let bits = 64 * L as u64;
    let nl = gen::limbs(t, L);
    let k: u64 = if L <= 2 {
        // exhaustive range 0..=BITS+1 (plus far out-of-range values)
        match t.weighted(&[12, 1]) {
            0 => t.below(bits + 2),
            _ => t.pick(&[2 * bits, 65535, 65536, u32::MAX as u64 - 1, u32::MAX as u64]),
        }
    } else {
        match t.weighted(&[3, 4, 3, 1]) {
            0 => t.below(bits + 2),
            1 => t.edgy(bits + 1),
            2 => t.pick(&[0, 1, 63, 64, 65, bits - 65, bits - 64, bits - 63, bits - 1, bits, bits + 1]),
            _ => t.pick(&[2 * bits, 65535, 65536, u32::MAX as u64 - 1, u32::MAX as u64]),
        }
    };
    c.limbs("n", &nl);
    c.num("k", k);
    let nb = big(&nl);
    let want = if k >= bits { nb.clone() } else { &nb & mask(k) };
    c.label(if k >= bits {
        "rem2k: k >= BITS"
    } else if k % 64 == 0 {
        "rem2k: k multiple of 64"
    } else if k / 64 == L as u64 - 1 {
        "rem2k: k in the top limb"
    } else {
        "rem2k: k inside a lower limb"
    });
    // non-trivial: the reduction removes at least one set bit and keeps at least one, or k is out of range on n != 0
    c.nontrivial((want != nb && !want.is_zero()) || (k >= bits && !nb.is_zero()));
    let n = uint::<L>(&nl);
    let r = total("rem2k_vartime", || n.rem2k_vartime(k as u32))?;
    veq!(ul(&r), limbs_exact(&want, L), "rem2k_vartime(k = {k}) (U{})", bits);
    Ok(())
}

// ------------------------------------------------------------------------------------------------
// mixed widths

pub fn fixed_mixed<const L: usize, const R: usize>(t: &mut Tape, c: &mut Case) -> CaseResult {
    let (nl, dl) = pair(t, L, R);
    c.limbs("n", &nl);
    c.limbs("d", &dl);
    let (nb, db) = (big(&nl), big(&dl));
    let (qb, rb) = oracle(&nb, &db);
    classify(c, &nl, &dl, &qb, &rb);
    let (wq, wr) = (limbs_exact(&qb, L), limbs_exact(&rb, R));
    let n = uint::<L>(&nl);
    let nz = nz_uint(uint::<R>(&dl))?;
    let (q, r) = total("div_rem_vartime mixed", || n.div_rem_vartime(&nz))?;
    veq!(ul(&q), wq, "div_rem_vartime quotient (U{} / U{})", 64 * L, 64 * R);
    veq!(ul(&r), wr, "div_rem_vartime remainder (U{} / U{})", 64 * L, 64 * R);
    identity("div_rem_vartime mixed", &ul(&q), &ul(&r), &nb, &db)?;
    let q = total("wrapping_div_vartime mixed", || n.wrapping_div_vartime(&nz))?;
    veq!(ul(&q), wq, "wrapping_div_vartime (U{} / U{})", 64 * L, 64 * R);
    Ok(())
}

fn rem_mixed_one<const N: usize, const S: usize>(t: &mut Tape, c: &mut Case) -> CaseResult
where
    Uint<N>: RemMixed<Uint<S>>,
{
    let (nl, dl) = pair(t, N, S);
    c.limbs("n", &nl);
    c.limbs("d", &dl);
    let (nb, db) = (big(&nl), big(&dl));
    let (qb, rb) = oracle(&nb, &db);
    classify(c, &nl, &dl, &qb, &rb);
    let n = uint::<N>(&nl);
    let nz = nz_uint(uint::<S>(&dl))?;
    let r = total("RemMixed::rem_mixed", || n.rem_mixed(&nz))?;
    veq!(ul(&r), limbs_exact(&rb, S), "RemMixed::rem_mixed (U{} mod U{})", 64 * N, 64 * S);
    Ok(())
}

type CaseFnPtr = fn(&mut Tape, &mut Case) -> CaseResult;

macro_rules! rem_mixed_table {
    ($( ($n:literal, [$($s:literal),*]) ),* $(,)?) => {
        &[ $( $( ($n, $s, rem_mixed_one::<$n, $s> as CaseFnPtr), )* )* ]
    };
}

/// every `impl RemMixed<Uint<S>> for Uint<N>` generated by `impl_uint_concat_split_mixed!` (src/uint.rs)
pub static REM_MIXED: &[(usize, usize, CaseFnPtr)] = rem_mixed_table![
    (3, [1, 2]),
    (4, [1, 3]),
    (5, [1, 2, 3, 4]),
    (6, [1, 2, 4, 5]),
    (7, [1, 2, 3, 4, 5, 6]),
    (8, [1, 2, 3, 5, 6, 7]),
    (9, [1, 2, 3, 4, 5, 6, 7, 8]),
    (10, [1, 2, 3, 4, 6, 7, 8, 9]),
    (11, [1, 2, 3, 4, 5, 6, 7, 8, 9, 10]),
    (12, [1, 2, 3, 4, 5, 7, 8, 9, 10, 11]),
    (13, [1, 2, 3, 4, 5, 6, 7, 8, 9, 10, 11, 12]),
    (14, [1, 2, 3, 4, 5, 6, 8, 9, 10, 11, 12, 13]),
    (15, [1, 2, 3, 4, 5, 6, 7, 8, 9, 10, 11, 12, 13, 14]),
    (16, [1, 2, 3, 4, 5, 6, 7, 9, 10, 11, 12, 13, 14, 15]),
];

pub fn fixed_rem_mixed_all(t: &mut Tape, c: &mut Case) -> CaseResult {
    let i = t.index(REM_MIXED.len());
    let (n, s, f) = REM_MIXED[i];
    c.num("dividend limbs", n as u64);
    c.num("divisor limbs", s as u64);
    f(t, c)
}

// ------------------------------------------------------------------------------------------------
// Limb mul_rem path: mul_mod_special with LIMBS = 1 computes (a * b) mod (2^64 - c) through
// `rem_limb_with_reciprocal` on the double-limb product

pub fn limb_mul_rem(t: &mut Tape, c: &mut Case) -> CaseResult {
    let cw = match t.weighted(&[2, 2, 2, 2, 4]) {
        0 => 1,
        1 => M,
        2 => TOP,
        3 => t.below(1 << 16) + 1,
        _ => gen::word(t).max(1),
    };
    let p = 0u64.wrapping_sub(cw); // 2^64 - c, in 1..=MAX
    let red = |x: u64| x % p;
    let a = red(match t.weighted(&[2, 1, 3]) {
        0 => p - 1,
        1 => p / 2,
        _ => gen::word(t),
    });
    let b = red(match t.weighted(&[2, 1, 3]) {
        0 => p - 1,
        1 => p / 2 + 1,
        _ => gen::word(t),
    });
    c.num("a", a);
    c.num("b", b);
    c.num("c", cw);
    let prod = a as u128 * b as u128;
    let want = (prod % p as u128) as u64;
    let ls = limb_sim(&[prod as u64, (prod >> 64) as u64], p);
    c.nontrivial(prod >= p as u128 && (prod >> 64 != 0 || ls.first + ls.second > 0));
    if prod >> 64 != 0 {
        c.label("mul_rem: product needs two limbs");
    }
    if ls.second > 0 {
        c.label("div2by1 model: case with second correction (r >= d)");
    }
    let (ua, ub) = (Uint::<1>::from_word(a), Uint::<1>::from_word(b));
    let r = total("Uint<1>::mul_mod_special", || ua.mul_mod_special(&ub, Limb(cw)))?;
    veq!(ul(&r), vec![want], "Uint<1>::mul_mod_special (a*b mod 2^64-c)");
    let (ba, bb) = (boxed(&[a]), boxed(&[b]));
    let r = total("BoxedUint(1 limb)::mul_mod_special", || ba.mul_mod_special(&bb, Limb(cw)))?;
    veq!(bl(&r), vec![want], "BoxedUint(1 limb)::mul_mod_special (a*b mod 2^64-c)");
    Ok(())
}
