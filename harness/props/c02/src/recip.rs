//! Slim-margin inputs of the 64-bit reciprocal (`Reciprocal::new`, Möller–Granlund): the Newton
//! refinement looks at the 40-bit prefix `d40 = (d >> 24) + 1` of the normalised divisor only and its
//! second step needs `v1 * d40 <= 2^60`, with a margin that is smallest for prefixes right next to
//! `floor(2^60 / t)` for a 21-bit `t`. A slip in the refinement shows on a few dozen of the 2^39
//! prefixes (density 2^-31 .. 2^-34: out of reach of random, edge-shaped and dictionary divisors), all
//! of them among these ~5 million neighbours — which are cheap to enumerate completely.
//!
//! One case = four blocks of 512 consecutive `t`; for every `t` the prefixes c-3 ..= c+1
//! (c = floor(2^60 / t)) inside [2^39, 2^40), each with two fillings of the low 24 bits and, for one of
//! them, a de-normalised copy (shifted right). Oracle: u128 division.

use crypto_bigint::{Limb, NonZero, Reciprocal, U128};
use vmodel::*;

const BLOCKS: u64 = 2048; // 2048 * 512 = 2^20 values of t in [2^20, 2^21)

fn check_divisor(d: u64, x: u128, what: &str) -> CaseResult {
    let nz = NonZero::new(Limb(d)).unwrap();
    let ux = U128::from_u128(x);
    let want = (x / d as u128, (x % d as u128) as u64);
    let (q, r) = total("Uint::div_rem_limb", || ux.div_rem_limb(nz))?;
    vensure!(
        q == U128::from_u128(want.0) && r.0 == want.1,
        "{what}: U128::div_rem_limb({x:#x} / {d:#x}): got ({q:?}, {:#x}), want ({:#x}, {:#x})",
        r.0,
        want.0,
        want.1
    );
    let rec = total("Reciprocal::new", || Reciprocal::new(nz))?;
    let (q2, r2) = total("Uint::div_rem_limb_with_reciprocal", || ux.div_rem_limb_with_reciprocal(&rec))?;
    vensure!(q2 == q && r2.0 == r.0, "{what}: div_rem_limb_with_reciprocal differs from div_rem_limb for {x:#x} / {d:#x}");
    Ok(())
}

pub fn newton_margins(t: &mut Tape, c: &mut Case) -> CaseResult {
    let mut first = 0;
    let x = ((t.u64() as u128) << 64) | t.u64() as u128 | (1u128 << 127);
    let low = t.below(1 << 24);
    let shift = t.range(1, 63) as u32;
    let mut n = 0u64;
    for k in 0..4 {
        let b = t.below(BLOCKS);
        if k == 0 {
            first = b;
        }
        for tt in ((1u64 << 20) + 512 * b)..((1u64 << 20) + 512 * (b + 1)) {
            let cpre = (1u64 << 60) / tt;
            for h in cpre.saturating_sub(3)..=cpre + 1 {
                if !((1u64 << 39)..(1u64 << 40)).contains(&h) {
                    continue;
                }
                n += 1;
                let d0 = h << 24;
                check_divisor(d0 | low, x, "prefix next to 2^60/t")?;
                check_divisor(d0 | 0xff_ffff, u128::MAX - low as u128, "prefix next to 2^60/t, low bits all ones")?;
                if h & 3 == 0 {
                    // the same prefix after normalisation of a divisor with leading zeros
                    let dn = ((d0 | low) >> shift).max(1);
                    check_divisor(dn, x, "de-normalised divisor with a prefix next to 2^60/t")?;
                }
            }
        }
    }
    c.num("first block", first);
    c.num("dividend hi", (x >> 64) as u64);
    c.num("low 24 bits", low);
    c.num("prefixes checked", n);
    c.label("reciprocal: prefixes next to 2^60/t, four blocks of 512 values of t");
    c.nontrivial(true);
    Ok(())
}

/// Exact multiples of the divisor with a quotient close to 2^64 (seeding round 8, C11-L): the *second*
/// correction of Möller–Granlund `div2by1` (`r >= d` after the first fix-up) with `r == d` exactly needs
/// a two-word dividend that is an exact multiple q*d whose reciprocal estimate is one too low — about
/// 1 % of the exact multiples with q in the top 2^-k fraction of the word, but 2^-64 for independent
/// operands. One case = 64 (d, q) pairs: d normalised (or the same d de-normalised by a few bits),
/// q = !(random >> k), dividend q*d + r with r in {0, 1, d-1, random}, as U128 and — followed by one more
/// limb, so that a wrong running remainder is consumed by the next step — as U192. Oracle: u128 / BigUint.
pub fn exact_multiples(t: &mut Tape, c: &mut Case) -> CaseResult {
    use crypto_bigint::U192;
    use num_bigint::BigUint;
    let mut corr = 0u64;
    let low = t.u64();
    for i in 0..64u32 {
        let dn = t.u64() | (1 << 63);
        let k = t.range(1, 63) as u32;
        let q = if i % 8 == 7 { t.u64() } else { !(t.u64() >> k) };
        let s = if i % 4 == 3 { t.range(1, 62) as u32 } else { 0 };
        let d = (dn >> s).max(1);
        let r = match t.below(4) {
            0 => 0,
            1 => 1.min(d - 1),
            2 => d - 1,
            _ => t.u64() % d,
        };
        let x = (q as u128) * (d as u128) + r as u128;
        if crate::sim::limb_sim(&[x as u64, (x >> 64) as u64], d).second > 0 {
            corr += 1;
        }
        check_divisor(d, x, "exact multiple q*d + r with q close to 2^64")?;
        let nz = NonZero::new(Limb(d)).unwrap();
        let n3 = U192::from_words([low, x as u64, (x >> 64) as u64]);
        let big = (BigUint::from(x) << 64) + BigUint::from(low);
        let (wq, wr) = (&big / BigUint::from(d), &big % BigUint::from(d));
        let (gq, gr) = total("U192::div_rem_limb", || n3.div_rem_limb(nz))?;
        vensure!(ubig(&gq) == wq && BigUint::from(gr.0) == wr, "U192::div_rem_limb([{low:#x}, q*d + r]) / {d:#x}: got ({}, {:#x}), want ({wq:#x}, {wr:#x})", hex(gq.as_words()), gr.0);
        let gr2 = total("U192::rem_limb", || n3.rem_limb(nz))?;
        vensure!(BigUint::from(gr2.0) == wr, "U192::rem_limb([{low:#x}, q*d + r]) % {d:#x}: got {:#x}, want {wr:#x}", gr2.0);
    }
    c.num("low limb", low);
    c.num("pairs taking the second 2-by-1 correction (model)", corr);
    c.label("limb divisor: exact multiples q*d + r with q close to 2^64");
    c.nontrivial(corr > 0);
    Ok(())
}
