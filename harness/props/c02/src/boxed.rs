//! `BoxedUint` division / remainder forms (runtime precisions).

use crate::fixed::{nz_limb, via_integer};
use crate::gens::*;
use crypto_bigint::{BoxedUint, CheckedDiv, DivRemLimb, DivVartime, Limb, NonZero, Reciprocal, RemLimb, RemMixed, Wrapping};
use num_bigint::BigUint;
use vmodel::gen;
use vmodel::*;

const BIASED: [usize; 22] = [1, 2, 3, 4, 5, 7, 8, 9, 15, 16, 17, 31, 32, 33, 47, 48, 49, 63, 64, 65, 69, 70];

pub(crate) fn boxed_len(t: &mut Tape, max: usize) -> usize {
    let n = match t.weighted(&[3, 2]) {
        0 => t.pick(&BIASED),
        _ => t.usize_in(1, max),
    };
    n.min(max)
}

type BF<'a> = (&'static str, Box<dyn Fn() -> BoxedUint + 'a>);

fn bx<'a>(f: impl Fn() -> BoxedUint + 'a) -> Box<dyn Fn() -> BoxedUint + 'a> {
    Box::new(f)
}

pub(crate) fn nz_boxed(d: &BoxedUint) -> Result<NonZero<BoxedUint>, Fail> {
    Option::<NonZero<BoxedUint>>::from(NonZero::new(d.clone())).ok_or_else(|| Fail::new("NonZero::new(d) is none although d != 0"))
}

pub(crate) const PRECISION_MSG: &str = "the precision of the divisor must match the dividend";

// ------------------------------------------------------------------------------------------------
// equal precisions: every form

pub fn boxed_div(max: usize) -> impl Fn(&mut Tape, &mut Case) -> CaseResult {
    move |t, c| {
        let w = boxed_len(t, max);
        if t.chance(1, 40) {
            // d = 0: the checked forms are none
            let nl = gen::limbs(t, w);
            c.limbs("n", &nl);
            c.text("d", "0");
            c.label("d = 0: checked forms must be none");
            let n = boxed(&nl);
            let z = boxed(&vec![0u64; w]);
            vensure!(!bool::from(total("BoxedUint::checked_div(0)", || n.checked_div(&z))?.is_some()), "BoxedUint::checked_div(n, 0) is some");
            vensure!(
                !bool::from(total("CheckedDiv for BoxedUint (0)", || CheckedDiv::checked_div(&n, &z))?.is_some()),
                "CheckedDiv::checked_div(n, 0) is some"
            );
            return Ok(());
        }
        let (nl, dl) = pair(t, w, w);
        c.limbs("n", &nl);
        c.limbs("d", &dl);
        let (nb, db) = (big(&nl), big(&dl));
        let (qb, rb) = oracle(&nb, &db);
        classify(c, &nl, &dl, &qb, &rb);
        let (wq, wr) = (limbs_exact(&qb, w), limbs_exact(&rb, w));
        let (n, d) = (boxed(&nl), boxed(&dl));
        let nz = nz_boxed(&d)?;

        let pairs: [(&str, Box<dyn Fn() -> (BoxedUint, BoxedUint) + '_>); 2] =
            [("BoxedUint::div_rem", Box::new(|| n.div_rem(&nz))), ("BoxedUint::div_rem_vartime", Box::new(|| n.div_rem_vartime(&nz)))];
        for (name, f) in pairs.iter() {
            let (q, r) = total(name, || f())?;
            veq!(bl(&q), wq, "{name} quotient ({w} limbs)");
            veq!(bl(&r), wr, "{name} remainder ({w} limbs)");
            let (gq, gr) = (bbig(&q), bbig(&r));
            vensure!(&gq * &db + &gr == nb && gr < db, "{name}: identity n = q d + r, r < d does not hold for the returned values");
        }
        let qforms: Vec<BF> = vec![
            ("BoxedUint::wrapping_div", bx(|| n.wrapping_div(&nz))),
            ("BoxedUint::wrapping_div_vartime", bx(|| n.wrapping_div_vartime(&nz))),
            ("DivVartime for BoxedUint", bx(|| DivVartime::div_vartime(&n, &nz))),
            ("BoxedUint / NonZero", bx(|| n.clone() / nz.clone())),
            ("BoxedUint / &NonZero", bx(|| n.clone() / &nz)),
            ("&BoxedUint / NonZero", bx(|| &n / nz.clone())),
            ("&BoxedUint / &NonZero", bx(|| &n / &nz)),
            ("BoxedUint /= NonZero", bx(|| { let mut x = n.clone(); x /= nz.clone(); x })),
            ("BoxedUint /= &NonZero", bx(|| { let mut x = n.clone(); x /= &nz; x })),
            ("Wrapping<BoxedUint> / NonZero", bx(|| (Wrapping(n.clone()) / nz.clone()).0)),
            ("Wrapping<BoxedUint> / &NonZero", bx(|| (Wrapping(n.clone()) / &nz).0)),
            ("&Wrapping<BoxedUint> / NonZero", bx(|| (&Wrapping(n.clone()) / nz.clone()).0)),
            ("&Wrapping<BoxedUint> / &NonZero", bx(|| (&Wrapping(n.clone()) / &nz).0)),
            ("Wrapping<BoxedUint> /= NonZero", bx(|| { let mut x = Wrapping(n.clone()); x /= nz.clone(); x.0 })),
            ("Wrapping<BoxedUint> /= &NonZero", bx(|| { let mut x = Wrapping(n.clone()); x /= &nz; x.0 })),
        ];
        for (name, f) in qforms.iter() {
            veq!(bl(&total(name, || f())?), wq, "{name} ({w} limbs)");
        }
        let rforms: Vec<BF> = vec![
            ("BoxedUint::rem", bx(|| n.rem(&nz))),
            ("BoxedUint::rem_vartime", bx(|| n.rem_vartime(&nz))),
            ("RemMixed for BoxedUint", bx(|| RemMixed::rem_mixed(&n, &nz))),
            ("BoxedUint % NonZero", bx(|| n.clone() % nz.clone())),
            ("BoxedUint % &NonZero", bx(|| n.clone() % &nz)),
            ("&BoxedUint % NonZero", bx(|| &n % nz.clone())),
            ("&BoxedUint % &NonZero", bx(|| &n % &nz)),
            ("BoxedUint %= NonZero", bx(|| { let mut x = n.clone(); x %= nz.clone(); x })),
            ("BoxedUint %= &NonZero", bx(|| { let mut x = n.clone(); x %= &nz; x })),
        ];
        for (name, f) in rforms.iter() {
            veq!(bl(&total(name, || f())?), wr, "{name} ({w} limbs)");
        }
        for (name, ck) in [
            ("BoxedUint::checked_div", total("BoxedUint::checked_div", || n.checked_div(&d))?),
            ("CheckedDiv for BoxedUint", total("CheckedDiv for BoxedUint", || CheckedDiv::checked_div(&n, &d))?),
        ] {
            let v = Option::<BoxedUint>::from(ck);
            vensure!(v.is_some(), "{name} is none although d != 0");
            veq!(bl(&v.unwrap()), wq, "{name} value ({w} limbs)");
        }
        let (qs, rs) = total("Integer-bound operator forms (BoxedUint)", || via_integer(&n, &nz))?;
        vensure!(qs.len() == 5, "Integer: CheckedDiv::checked_div is none although d != 0");
        for (name, v) in qs.iter() {
            veq!(bl(v), wq, "{name} (BoxedUint, {w} limbs)");
        }
        for (name, v) in rs.iter() {
            veq!(bl(v), wr, "{name} (BoxedUint, {w} limbs)");
        }
        Ok(())
    }
}

// ------------------------------------------------------------------------------------------------
// different precisions

/// The `_vartime` forms and `RemMixed` ("remainder of two differently sized integers") must be exact.
/// The constant-time forms carry an explicit `assert_eq!` on the precisions ("the precision of the
/// divisor must match the dividend"): for them either that panic or the exact result is accepted.
/// `checked_div` has no such guard: see the F-02a signature below.
pub fn boxed_div_mixed(max: usize, checked_forms: bool) -> impl Fn(&mut Tape, &mut Case) -> CaseResult {
    move |t, c| {
        let nw = boxed_len(t, max);
        let mut dw = match t.weighted(&[3, 3]) {
            0 => {
                let delta = t.usize_in(1, 3);
                if t.bool() { nw + delta } else { nw.saturating_sub(delta).max(1) }
            }
            _ => boxed_len(t, max),
        }
        .min(max);
        if dw == nw {
            // equal by chance: move by one (max >= 2)
            dw = if nw < max { nw + 1 } else { nw - 1 };
        }
        let (nl, dl) = pair(t, nw, dw);
        c.limbs("n", &nl);
        c.limbs("d", &dl);
        c.label(if dw > nw { "boxed mixed: divisor precision > dividend precision" } else { "boxed mixed: divisor precision < dividend precision" });
        let (nb, db) = (big(&nl), big(&dl));
        let (qb, rb) = oracle(&nb, &db);
        classify(c, &nl, &dl, &qb, &rb);
        let (n, d) = (boxed(&nl), boxed(&dl));
        let nz = nz_boxed(&d)?;

        if !checked_forms {
            let (q, r) = total("BoxedUint::div_rem_vartime (mixed precision)", || n.div_rem_vartime(&nz))?;
            vensure!(bbig(&q) == qb, "BoxedUint::div_rem_vartime ({nw}/{dw} limbs) quotient: got {}, want {:x}", hex(&bl(&q)), qb);
            vensure!(bbig(&r) == rb, "BoxedUint::div_rem_vartime ({nw}/{dw} limbs) remainder: got {}, want {:x}", hex(&bl(&r)), rb);
            let exact_q: Vec<BF> = vec![
                ("BoxedUint::wrapping_div_vartime", bx(|| n.wrapping_div_vartime(&nz))),
                ("DivVartime for BoxedUint", bx(|| DivVartime::div_vartime(&n, &nz))),
            ];
            for (name, f) in exact_q.iter() {
                let v = total(name, || f())?;
                vensure!(bbig(&v) == qb, "{name} ({nw}/{dw} limbs): got {}, want {:x}", hex(&bl(&v)), qb);
            }
            let exact_r: Vec<BF> = vec![
                ("BoxedUint::rem_vartime", bx(|| n.rem_vartime(&nz))),
                ("RemMixed for BoxedUint", bx(|| RemMixed::rem_mixed(&n, &nz))),
            ];
            for (name, f) in exact_r.iter() {
                let v = total(name, || f())?;
                vensure!(bbig(&v) == rb, "{name} ({nw}/{dw} limbs): got {}, want {:x}", hex(&bl(&v)), rb);
            }

            // constant-time forms: exact, or the explicit precision assertion
            let ct_q: Vec<BF> = vec![
                ("BoxedUint::div_rem .0", bx(|| n.div_rem(&nz).0)),
                ("BoxedUint::wrapping_div", bx(|| n.wrapping_div(&nz))),
                ("&BoxedUint / &NonZero", bx(|| &n / &nz)),
                ("BoxedUint /= &NonZero", bx(|| { let mut x = n.clone(); x /= &nz; x })),
                ("Wrapping<BoxedUint> / &NonZero", bx(|| (Wrapping(n.clone()) / &nz).0)),
            ];
            let ct_r: Vec<BF> = vec![
                ("BoxedUint::div_rem .1", bx(|| n.div_rem(&nz).1)),
                ("BoxedUint::rem", bx(|| n.rem(&nz))),
                ("&BoxedUint % &NonZero", bx(|| &n % &nz)),
                ("BoxedUint %= &NonZero", bx(|| { let mut x = n.clone(); x %= &nz; x })),
            ];
            let (mut asserted, mut returned) = (false, false);
            for (forms, want) in [(&ct_q, &qb), (&ct_r, &rb)] {
                for (name, f) in forms.iter() {
                    match guard(|| f()) {
                        Ok(v) => {
                            vensure!(bbig(&v) == *want, "{name} ({nw}/{dw} limbs) returned {} instead of {:x}", hex(&bl(&v)), want);
                            returned = true;
                        }
                        Err(m) => {
                            vensure!(m.contains(PRECISION_MSG), "{name} ({nw}/{dw} limbs): panic other than the precision assertion: {m}");
                            asserted = true;
                        }
                    }
                }
            }
            if asserted {
                c.label("boxed mixed: constant-time forms stop at the precision assertion");
            }
            if returned {
                c.label("boxed mixed: a constant-time form returned (exact) value");
            }
            return Ok(());
        }

        // checked_div (inherent and trait form)
        let forms: [(&str, Box<dyn Fn() -> Option<BoxedUint> + '_>); 2] = [
            ("BoxedUint::checked_div", Box::new(|| n.checked_div(&d).into())),
            ("CheckedDiv for BoxedUint", Box::new(|| CheckedDiv::checked_div(&n, &d).into())),
        ];
        for (name, f) in forms.iter() {
            check_checked_div_mixed(name, guard(|| f()), nw, dw, &nb, &db, &qb)?;
        }
        Ok(())
    }
}

/// F-02a: `BoxedUint::checked_div` selects the divisor with `ct_select(one(self.precision), rhs, ..)`,
/// which only `debug_assert`s equal precisions. Exact signature:
///   rel, divisor wider:  the divisor is silently truncated to the dividend's precision — the result is
///                        some(n / (d mod 2^(64 nw))) (wrong whenever that differs from n / d), or a
///                        "zero divisor" panic when the truncated divisor is 0;
///   rel, divisor narrower: index-out-of-bounds panic in `ct_select`;
///   dbg: the `debug_assert_eq!` on the precisions fires (assertion `left == right` failed).
fn check_checked_div_mixed(
    name: &str,
    got: Result<Option<BoxedUint>, String>,
    nw: usize,
    dw: usize,
    nb: &BigUint,
    db: &BigUint,
    qb: &BigUint,
) -> CaseResult {
    match got {
        Ok(Some(v)) if bbig(&v) == *qb => Ok(()),
        Ok(Some(v)) => {
            let dt = db % pow2(64 * nw as u64);
            if PROFILE == "rel" && dw > nw && dt != *db && dt.bits() > 0 && bbig(&v) == nb / &dt {
                return Err(Fail::known(
                    "F-02a",
                    format!("{name} ({nw}-limb dividend, {dw}-limb divisor): divisor silently truncated to the dividend precision: got {}, want {:x}", hex(&bl(&v)), qb),
                ));
            }
            vfail!("{name} ({nw}/{dw} limbs): got {}, want {:x}", hex(&bl(&v)), qb)
        }
        Ok(None) => vfail!("{name} ({nw}/{dw} limbs) is none although d != 0"),
        Err(m) => {
            if m.contains(PRECISION_MSG) {
                return Ok(());
            }
            let dt = db % pow2(64 * nw as u64);
            let sig = if PROFILE == "dbg" {
                m.contains("left == right")
            } else if dw > nw {
                dt.bits() == 0 && m.contains("zero divisor")
            } else {
                m.contains("index out of bounds")
            };
            if sig {
                return Err(Fail::known("F-02a", format!("{name} ({nw}-limb dividend, {dw}-limb divisor): panic instead of the quotient: {m}")));
            }
            vfail!("{name} ({nw}/{dw} limbs): unexpected panic: {m}")
        }
    }
}

// ------------------------------------------------------------------------------------------------
// division by a single limb

pub fn boxed_limb(max: usize) -> impl Fn(&mut Tape, &mut Case) -> CaseResult {
    move |t, c| {
        let w = boxed_len(t, max);
        let dw = divisor_word(t);
        let nl = limb_dividend(t, w, dw);
        c.limbs("n", &nl);
        c.num("d", dw);
        let (nb, db) = (big(&nl), BigUint::from(dw));
        let (qb, rb) = oracle(&nb, &db);
        classify(c, &nl, &[dw], &qb, &rb);
        let wq = limbs_exact(&qb, w);
        let wr = limbs_exact(&rb, 1)[0];
        let n = boxed(&nl);
        let nzl = nz_limb(dw)?;
        let rec = total("Reciprocal::new", || Reciprocal::new(nzl))?;
        let pairs: [(&str, Box<dyn Fn() -> (BoxedUint, Limb) + '_>); 4] = [
            ("BoxedUint::div_rem_limb", Box::new(|| n.div_rem_limb(nzl))),
            ("BoxedUint::div_rem_limb_with_reciprocal", Box::new(|| n.div_rem_limb_with_reciprocal(&rec))),
            ("DivRemLimb::div_rem_limb for BoxedUint", Box::new(|| DivRemLimb::div_rem_limb(&n, nzl))),
            ("DivRemLimb::div_rem_limb_with_reciprocal for BoxedUint", Box::new(|| DivRemLimb::div_rem_limb_with_reciprocal(&n, &rec))),
        ];
        for (name, f) in pairs.iter() {
            let (q, r) = total(name, || f())?;
            veq!(bl(&q), wq, "{name} quotient ({w} limbs)");
            veq!(r.0, wr, "{name} remainder ({w} limbs)");
            vensure!(bbig(&q) * &db + BigUint::from(r.0) == nb && r.0 < dw, "{name}: identity n = q d + r, r < d does not hold for the returned values");
        }
        let lforms: [(&str, Box<dyn Fn() -> Limb + '_>); 4] = [
            ("BoxedUint::rem_limb", Box::new(|| n.rem_limb(nzl))),
            ("BoxedUint::rem_limb_with_reciprocal", Box::new(|| n.rem_limb_with_reciprocal(&rec))),
            ("RemLimb::rem_limb for BoxedUint", Box::new(|| RemLimb::rem_limb(&n, nzl))),
            ("RemLimb::rem_limb_with_reciprocal for BoxedUint", Box::new(|| RemLimb::rem_limb_with_reciprocal(&n, &rec))),
        ];
        for (name, f) in lforms.iter() {
            veq!(total(name, || f())?.0, wr, "{name} ({w} limbs)");
        }
        Ok(())
    }
}
