fn main() {
    vmodel::cli_main(c02::spec())
}
