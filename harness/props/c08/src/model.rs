//! Oracle side: Z/mZ arithmetic and the *definitions* of the Montgomery parameters, in
//! `num_bigint::BigUint` only (never calls crypto-bigint).

use num_bigint::BigUint;
use num_traits::{One, Zero};
use vmodel::*;

/// The parameter set of an odd modulus `m` in `n` limbs, straight from the definitions:
/// R = 2^(64 n); one = R mod m; r2 = R^2 mod m; r3 = R^3 mod m; mod_neg_inv = -m^-1 mod 2^64;
/// mod_leading_zeros = min(64 n - bitlen(m), 63).
#[derive(Clone, Debug, PartialEq, Eq)]
pub struct ParamsDef {
    pub n: usize,
    pub m: BigUint,
    pub r: BigUint,
    pub one: BigUint,
    pub r2: BigUint,
    pub r3: BigUint,
    pub neg_inv: u64,
    pub mlz: u32,
    /// −m⁻¹ mod R (full width), for classifying reductions
    pub nminv: BigUint,
}

/// -m^-1 mod 2^64 for odd m, from the definition (BigUint modular inverse).
pub fn neg_inv64(m: &BigUint) -> u64 {
    let w = pow2(64);
    let m0 = m % &w;
    let inv = m0.modinv(&w).expect("harness: odd modulus is invertible mod 2^64");
    let neg = (&w - inv) % &w;
    neg.to_u64_digits().first().copied().unwrap_or(0)
}

impl ParamsDef {
    pub fn new(m_limbs: &[u64]) -> Self {
        let n = m_limbs.len();
        let m = big(m_limbs);
        assert!(m_limbs[0] & 1 == 1, "harness: modulus must be odd");
        let r = pow2(64 * n as u64);
        let one = &r % &m;
        let r2 = (&r * &r) % &m;
        let r3 = (&r * &r * &r) % &m;
        let lz = 64 * n as u64 - m.bits();
        let nminv = (&r - m.modinv(&r).expect("harness: odd modulus invertible mod R")) % &r;
        ParamsDef { n, neg_inv: neg_inv64(&m), mlz: lz.min(63) as u32, m, r, one, r2, r3, nminv }
    }

    /// Montgomery representation of the residue x (x < m): x R mod m.
    pub fn mont(&self, x: &BigUint) -> BigUint {
        (x * &self.r) % &self.m
    }

    pub fn m_is_one(&self) -> bool {
        self.m.is_one()
    }

    /// For a Montgomery product of the representations of a and b (T = ā·b̄ < m^2):
    /// t = (T + u m) / R with u = T·(−m⁻¹) mod R, the value before the final correction.
    /// Returns (t >= m, t >= R): "final subtraction needed", "carry out of the top limb".
    pub fn redc_class(&self, a: &BigUint, b: &BigUint) -> (bool, bool) {
        let t = self.mont(a) * self.mont(b);
        self.redc_class_raw(&t)
    }

    pub fn redc_class_raw(&self, t: &BigUint) -> (bool, bool) {
        // u ≡ −T m⁻¹ (mod R)  ⇔  T + u m ≡ 0 (mod R)
        let u = (&self.nminv * (t % &self.r)) % &self.r;
        let pre = (t + u * &self.m) >> (64 * self.n as u64);
        (pre >= self.m, pre >= self.r)
    }
}

pub fn m_add(a: &BigUint, b: &BigUint, m: &BigUint) -> BigUint {
    (a + b) % m
}
pub fn m_sub(a: &BigUint, b: &BigUint, m: &BigUint) -> BigUint {
    ((a + m) - (b % m)) % m
}
pub fn m_neg(a: &BigUint, m: &BigUint) -> BigUint {
    (m - (a % m)) % m
}
pub fn m_mul(a: &BigUint, b: &BigUint, m: &BigUint) -> BigUint {
    (a * b) % m
}
/// The unique x in [0, m) with x + x ≡ a (mod m), m odd.
pub fn m_half(a: &BigUint, m: &BigUint) -> BigUint {
    let a = a % m;
    let x = if (&a & BigUint::one()).is_zero() { a >> 1u32 } else { (a + m) >> 1u32 };
    x % m
}
