//! Operation histories over 4 registers of Montgomery-form values: pure data generated from the
//! tape, plus the Z/mZ model trace (expected value and expected Montgomery representation of the
//! destination register after every step).

use crate::model::*;
use num_bigint::BigUint;
use num_traits::{One, Zero};
use vmodel::gen;
use vmodel::*;

pub const NREGS: usize = 4;

#[derive(Clone, Copy, Debug, PartialEq, Eq, Hash, PartialOrd, Ord)]
pub enum Kind {
    Add,
    Sub,
    Mul,
    Square,
    Neg,
    Double,
    DivBy2,
    New,
    Zero,
    One,
    Select,
    CopyFrom,
    FromMont,
    /// dst = new(retrieve(a)): leaves and re-enters Montgomery form
    Renew,
    /// dst = ((a·b)²)·a with one multiplier object (in-place forms)
    MulChain,
}

pub const KINDS: [Kind; 15] = [
    Kind::Add,
    Kind::Sub,
    Kind::Mul,
    Kind::Square,
    Kind::Neg,
    Kind::Double,
    Kind::DivBy2,
    Kind::New,
    Kind::Zero,
    Kind::One,
    Kind::Select,
    Kind::CopyFrom,
    Kind::FromMont,
    Kind::Renew,
    Kind::MulChain,
];
const KIND_WEIGHTS: [u32; 15] = [5, 5, 7, 4, 2, 2, 3, 3, 1, 1, 2, 1, 1, 1, 2];

impl Kind {
    pub fn is_mul(self) -> bool {
        matches!(self, Kind::Mul | Kind::Square | Kind::MulChain)
    }
    pub fn is_addsub(self) -> bool {
        matches!(self, Kind::Add | Kind::Sub)
    }
}

#[derive(Clone, Debug)]
pub struct Op {
    pub kind: Kind,
    pub dst: usize,
    pub a: usize,
    pub b: usize,
    /// raw form selector; every representation reduces it modulo its number of API forms
    pub form: u64,
    /// integer handed to `new` (may be >= m), exactly n limbs
    pub val: Limbs,
    pub vclass: &'static str,
    pub choice: bool,
}

impl Op {
    pub fn describe(&self) -> String {
        match self.kind {
            Kind::New => format!("r{} = New({} [{}]) f{}", self.dst, hex(&self.val), self.vclass, self.form % 1000),
            Kind::Zero | Kind::One => format!("r{} = {:?} f{}", self.dst, self.kind, self.form % 1000),
            Kind::Select => format!("r{} = Select(r{}, r{}, {}) f{}", self.dst, self.a, self.b, self.choice as u8, self.form % 1000),
            Kind::Add | Kind::Sub | Kind::Mul | Kind::MulChain => format!("r{} = {:?}(r{}, r{}) f{}", self.dst, self.kind, self.a, self.b, self.form % 1000),
            _ => format!("r{} = {:?}(r{}) f{}", self.dst, self.kind, self.a, self.form % 1000),
        }
    }
}

/// Integer classes for `new`: {0, 1, m−1, (m±1)/2, random < m} and integers >= m (allowed by `new`).
pub fn value(t: &mut Tape, def: &ParamsDef) -> (Limbs, &'static str) {
    let n = def.n;
    let m = &def.m;
    let one = BigUint::one();
    let full = mask(64 * n as u64);
    let (v, cls): (BigUint, &'static str) = match t.weighted(&[2, 2, 4, 2, 2, 6, 3, 1, 1, 1, 1]) {
        0 => (BigUint::zero(), "v=0"),
        1 => (one.clone(), "v=1"),
        2 => (m - &one, "v=m-1"),
        3 => ((m - &one) >> 1u32, "v=(m-1)/2"),
        4 => ((m + &one) >> 1u32, "v=(m+1)/2"),
        5 => (gen::below_big(t, m), "v=random<m"),
        6 => (big(&gen::limbs(t, n)), "v=any n-limb integer"),
        7 => (m.clone(), "v=m"),
        8 => ((m + &one).min(full.clone()), "v=m+1"),
        9 => (full.clone(), "v=2^B-1"),
        _ => {
            if *m >= BigUint::from(2u32) {
                (m - BigUint::from(2u32), "v=m-2")
            } else {
                (BigUint::zero(), "v=0")
            }
        }
    };
    (limbs_exact(&v, n), cls)
}

#[derive(Clone, Debug)]
pub struct History {
    pub n: usize,
    pub m: Limbs,
    pub class: &'static str,
    /// 4 initial `New` ops followed by the drawn operations
    pub ops: Vec<Op>,
    /// number of drawn operations (ops.len() - 4)
    pub len: usize,
}

fn gen_op(t: &mut Tape, def: &ParamsDef, force_new_dst: Option<usize>) -> Op {
    let kind = match force_new_dst {
        Some(_) => Kind::New,
        None => KINDS[t.weighted(&KIND_WEIGHTS)],
    };
    let dst = force_new_dst.unwrap_or_else(|| t.index(NREGS));
    let a = t.index(NREGS);
    let b = t.index(NREGS);
    let form = t.u64();
    let (val, vclass) = if kind == Kind::New { value(t, def) } else { (vec![], "") };
    let choice = if kind == Kind::Select { t.bool() } else { false };
    Op { kind, dst, a, b, form, val, vclass, choice }
}

impl History {
    pub fn generate(t: &mut Tape, def: &ParamsDef, m_limbs: &[u64], class: &'static str, max_len: usize) -> History {
        let len = match t.weighted(&[1, 3, 6]) {
            0 => t.usize_in(0, 7.min(max_len)),
            1 => t.usize_in(8.min(max_len), 24.min(max_len)),
            _ => t.usize_in(25.min(max_len), max_len),
        };
        let mut ops = Vec::with_capacity(len + NREGS);
        for r in 0..NREGS {
            ops.push(gen_op(t, def, Some(r)));
        }
        for _ in 0..len {
            ops.push(gen_op(t, def, None));
        }
        History { n: def.n, m: m_limbs.to_vec(), class, ops, len }
    }

    /// "history contains >= 1 multiplication followed by >= 1 add/sub and length >= 8"
    pub fn mul_then_addsub(&self) -> bool {
        let drawn = &self.ops[NREGS..];
        let first_mul = drawn.iter().position(|o| o.kind.is_mul());
        match first_mul {
            Some(i) => self.len >= 8 && drawn[i + 1..].iter().any(|o| o.kind.is_addsub()),
            None => false,
        }
    }

    pub fn multiset(&self) -> String {
        let mut counts = std::collections::BTreeMap::new();
        for o in &self.ops[NREGS..] {
            *counts.entry(o.kind).or_insert(0u32) += 1;
        }
        let mut s = String::new();
        for (k, n) in counts {
            if !s.is_empty() {
                s.push(' ');
            }
            s.push_str(&format!("{:?}x{}", k, n));
        }
        s
    }

    pub fn describe(&self) -> String {
        self.ops.iter().map(|o| o.describe()).collect::<Vec<_>>().join("; ")
    }
}

#[derive(Clone, Debug)]
pub struct Step {
    /// model value of the destination register after the step
    pub want: BigUint,
    pub want_limbs: Limbs,
    /// its Montgomery representation want·R mod m, n limbs
    pub want_mont: Limbs,
}

pub struct Trace {
    pub steps: Vec<Step>,
    pub fin: Vec<BigUint>,
    /// some multiplication step needed the final subtraction (pre-correction value >= m)
    pub saw_final_sub: bool,
    /// some multiplication step carried out of the top limb (pre-correction value >= R)
    pub saw_top_carry: bool,
    /// some halving step had an odd representation with a + m >= R
    pub saw_half_carry: bool,
}

impl History {
    pub fn trace(&self, def: &ParamsDef) -> Trace {
        let m = &def.m;
        let mut regs: Vec<BigUint> = vec![BigUint::zero(); NREGS];
        let mut steps = Vec::with_capacity(self.ops.len());
        let (mut fs, mut tc, mut hc) = (false, false, false);
        let mut cls = |a: &BigUint, b: &BigUint| {
            let (x, y) = def.redc_class(a, b);
            fs |= x;
            tc |= y;
        };
        for op in &self.ops {
            let (a, b) = (regs[op.a].clone(), regs[op.b].clone());
            let v = match op.kind {
                Kind::Add => m_add(&a, &b, m),
                Kind::Sub => m_sub(&a, &b, m),
                Kind::Mul => {
                    cls(&a, &b);
                    m_mul(&a, &b, m)
                }
                Kind::Square => {
                    cls(&a, &a);
                    m_mul(&a, &a, m)
                }
                Kind::Neg => m_neg(&a, m),
                Kind::Double => m_add(&a, &a, m),
                Kind::DivBy2 => {
                    let am = def.mont(&a);
                    if am.bit(0) && &am + m >= def.r {
                        hc = true;
                    }
                    m_half(&a, m)
                }
                Kind::New => big(&op.val) % m,
                Kind::Zero => BigUint::zero(),
                Kind::One => BigUint::one() % m,
                Kind::Select => {
                    if op.choice {
                        b
                    } else {
                        a
                    }
                }
                Kind::CopyFrom | Kind::FromMont | Kind::Renew => a,
                Kind::MulChain => {
                    cls(&a, &b);
                    let ab = m_mul(&a, &b, m);
                    cls(&ab, &ab);
                    let sq = m_mul(&ab, &ab, m);
                    cls(&sq, &a);
                    m_mul(&sq, &a, m)
                }
            };
            regs[op.dst] = v.clone();
            steps.push(Step { want_limbs: limbs_exact(&v, def.n), want_mont: limbs_exact(&def.mont(&v), def.n), want: v });
        }
        Trace { steps, fin: regs, saw_final_sub: fs, saw_top_carry: tc, saw_half_carry: hc }
    }
}

/// Record a history in the case: fingerprint = (limbs, modulus class, op-kind multiset); the
/// modulus value and the full op list are notes (shown in samples / replays).
pub fn record(c: &mut Case, h: &History, tr: &Trace, adversarial: bool) {
    c.num("limbs", h.n as u64);
    c.text("m class", h.class);
    c.text("op multiset", &h.multiset());
    c.note("m", || hex(&h.m));
    c.note("history", || h.describe());
    c.label(format!("m: {}", h.class));
    c.label(match h.len {
        0..=7 => "history length 0..=7",
        8..=24 => "history length 8..=24",
        _ => "history length 25..=64",
    });
    let mta = h.mul_then_addsub();
    if mta {
        c.label("history: mul then add/sub, len >= 8");
    }
    let mut seen = std::collections::BTreeSet::new();
    for o in &h.ops {
        if o.kind == Kind::New && seen.insert(o.vclass) {
            c.label(format!("new: {}", o.vclass));
        }
    }
    let mut kinds = std::collections::BTreeSet::new();
    for o in &h.ops[NREGS..] {
        if kinds.insert(o.kind) {
            c.label(format!("op: {:?}", o.kind));
        }
    }
    if tr.saw_final_sub {
        c.label("mul step needs the final subtraction (t >= m)");
    }
    if tr.saw_top_carry {
        c.label("mul step carries out of the top limb (t >= R)");
    }
    if tr.saw_half_carry {
        c.label("halving step: odd representation, a + m >= R");
    }
    c.nontrivial(mta || adversarial);
}

/// The moduli named in the quantifier (labels of `gen::odd_modulus` and of this crate).
pub fn adversarial_class(class: &str) -> bool {
    matches!(
        class,
        "m=1" | "m=3" | "m=2^B-1" | "m=2^(B-1)+1" | "m~2^B/3" | "m~2^B/4" | "m zero high limbs" | "m=2^(B-1)-1" | "m=2^k±1 (k multiple of 64)"
    )
}

/// Modulus generator: the classes of `gen::odd_modulus` plus a few property-specific ones.
pub fn modulus(t: &mut Tape, n: usize) -> (Limbs, &'static str) {
    match t.weighted(&[12, 1, 1, 1]) {
        0 => gen::odd_modulus(t, n),
        1 => {
            // 2^(B-1) - 1: top bit clear, everything else set
            let mut v = vec![u64::MAX; n];
            v[n - 1] = u64::MAX >> 1;
            (v, "m=2^(B-1)-1")
        }
        2 => {
            // 2^k ± 1 with k a positive multiple of 64 (bit length on a limb boundary)
            let k = 64 * t.usize_in(1, n) as u64;
            let b = 64 * n as u64;
            let v = if k >= b || t.bool() { pow2(k.min(b)) - BigUint::one() } else { pow2(k) + BigUint::one() };
            (limbs_exact(&v, n), "m=2^k±1 (k multiple of 64)")
        }
        _ => {
            if n == 4 {
                // NIST P-256 group order
                (
                    vec![0xf3b9cac2fc632551, 0xbce6faada7179e84, 0xffffffffffffffff, 0xffffffff00000000],
                    "m=P-256 order",
                )
            } else {
                gen::odd_modulus(t, n)
            }
        }
    }
}
