//! Parameter sets: `new`, `new_vartime`, `Monty::new_params_vartime`, the `impl_modulus!` constants
//! and `from_const_params` must give identical structs equal to the definitions.
//!
//! The fields of `MontyParams` / `BoxedMontyParams` are private; the only public window onto all of
//! them is the derived `Debug` output (`Uint(0x…)`, `BoxedUint(0x…)`, `Limb(0x…)`, decimal u32),
//! which is parsed here. `one` is additionally observed through `one(params).as_montgomery()`.

use crate::hist;
use crate::model::ParamsDef;
use crate::reps::ConstMod;
use crypto_bigint::modular::{BoxedMontyForm, BoxedMontyParams, ConstMontyParams, MontyForm, MontyParams};
use crypto_bigint::{BoxedUint, Concat, Monty, Odd, Split, Uint};
use num_bigint::BigUint;
use num_traits::{Num, One};
use subtle::{Choice, ConditionallySelectable, ConstantTimeEq};
use vmodel::*;

#[derive(Debug, Clone, PartialEq, Eq)]
pub struct View {
    pub modulus: BigUint,
    pub one: BigUint,
    pub r2: BigUint,
    pub r3: BigUint,
    pub neg_inv: u64,
    pub mlz: u32,
}

const FIELDS: [&str; 6] = ["modulus", "one", "r2", "r3", "mod_neg_inv", "mod_leading_zeros"];

/// Parse the derived Debug output of a params struct. Returns Err (a harness problem) when the text
/// does not have the expected shape.
pub fn parse_debug(s: &str) -> Result<View, String> {
    let mut starts = vec![];
    for f in FIELDS {
        let key = format!("{f}: ");
        let pos = s.find(&key).ok_or_else(|| format!("field {f} not found in {s}"))?;
        starts.push((pos, pos + key.len()));
    }
    for w in starts.windows(2) {
        if w[0].0 >= w[1].0 {
            return Err(format!("fields out of order in {s}"));
        }
    }
    let mut vals: Vec<BigUint> = vec![];
    for (i, (_, from)) in starts.iter().enumerate() {
        let to = if i + 1 < starts.len() { starts[i + 1].0 } else { s.len() };
        let seg = &s[*from..to];
        let v = if let Some(p) = seg.find("0x") {
            let digits: String = seg[p + 2..].chars().take_while(|c| c.is_ascii_hexdigit()).collect();
            BigUint::from_str_radix(&digits, 16).map_err(|e| format!("bad hex in {seg}: {e}"))?
        } else {
            let digits: String = seg.chars().skip_while(|c| !c.is_ascii_digit()).take_while(|c| c.is_ascii_digit()).collect();
            BigUint::from_str_radix(&digits, 10).map_err(|e| format!("bad decimal in {seg}: {e}"))?
        };
        vals.push(v);
    }
    let small = |v: &BigUint| -> u64 { v.to_u64_digits().first().copied().unwrap_or(0) };
    if vals[4].bits() > 64 || vals[5].bits() > 32 {
        return Err(format!("word fields too large in {s}"));
    }
    Ok(View { modulus: vals[0].clone(), one: vals[1].clone(), r2: vals[2].clone(), r3: vals[3].clone(), neg_inv: small(&vals[4]), mlz: small(&vals[5]) as u32 })
}

pub fn want_view(def: &ParamsDef) -> View {
    View { modulus: def.m.clone(), one: def.one.clone(), r2: def.r2.clone(), r3: def.r3.clone(), neg_inv: def.neg_inv, mlz: def.mlz }
}

/// Compare a parsed parameter set with the definitions. For modulus 1 the exact F-08 signature
/// (`one` = 1 instead of R mod 1 = 0, every other field right) is reported as that known finding.
pub fn check_view(what: &str, got: &View, def: &ParamsDef) -> CaseResult {
    let want = want_view(def);
    if *got == want {
        return Ok(());
    }
    if def.m_is_one() {
        let mut sig = want.clone();
        sig.one = BigUint::one();
        if *got == sig {
            return Err(Fail::known("F-08", format!("{what}: modulus 1 gives one = 1, but R mod 1 = 0 (the parameter is not reduced)")));
        }
    }
    veq!(got.modulus, want.modulus, "{what}: modulus");
    veq!(got.one, want.one, "{what}: one != R mod m");
    veq!(got.r2, want.r2, "{what}: r2 != R^2 mod m");
    veq!(got.r3, want.r3, "{what}: r3 != R^3 mod m");
    veq!(got.neg_inv, want.neg_inv, "{what}: mod_neg_inv != -m^-1 mod 2^64");
    veq!(got.mlz, want.mlz, "{what}: mod_leading_zeros != min(leading zeros, 63)");
    Ok(())
}

/// Combine the two observations of `one` (the field, and the value stored by `one()`): the F-08
/// signature needs both to show exactly 1 for modulus 1; an ordinary failure always wins.
fn merge(one_res: CaseResult, field_res: CaseResult) -> CaseResult {
    match (one_res, field_res) {
        (Ok(()), Ok(())) => Ok(()),
        (Err(a), Err(b)) if a.known.is_some() && b.known == a.known => Err(a),
        (Err(a), Err(b)) => Err(if a.known.is_none() { a } else { b }),
        (Err(a), Ok(())) | (Ok(()), Err(a)) => {
            if a.known.is_some() {
                Err(Fail::new(format!("only one of the two `one` observations deviates: {}", a.msg)))
            } else {
                Err(a)
            }
        }
    }
}

fn view_of(what: &str, dbg: &str) -> Result<View, Fail> {
    parse_debug(dbg).map_err(|e| Fail::new(format!("harness: cannot parse Debug output of {what}: {e}")))
}

fn record_modulus(c: &mut Case, m: &[u64], class: &'static str) {
    c.limbs("m", m);
    c.label(format!("m: {class}"));
    // non-trivial: everything except the plain random class exercises a named shape; random moduli
    // count when they have >= 2 significant limbs or n = 1
    c.nontrivial(hist::adversarial_class(class) || bit_len(m) > 1);
}

/// `one` as seen through the value constructors: must be the definition (R mod m) and canonical.
fn check_one_value(what: &str, got: &[u64], def: &ParamsDef) -> CaseResult {
    let want = limbs_exact(&def.one, def.n);
    if got == want.as_slice() {
        return Ok(());
    }
    if def.m_is_one() && big(got).is_one() {
        return Err(Fail::known("F-08", format!("{what}: modulus 1: one() stores 1 (not canonical; R mod 1 = 0)")));
    }
    vfail!("{what}: got {}, want R mod m = {}", hex(got), hex(&want));
}

pub fn fixed_params<const N: usize, const W: usize>(t: &mut Tape, c: &mut Case) -> CaseResult
where
    Uint<N>: Concat<Output = Uint<W>>,
    Uint<W>: Split<Output = Uint<N>>,
{
    let (ml, class) = hist::modulus(t, N);
    record_modulus(c, &ml, class);
    let def = ParamsDef::new(&ml);
    let odd = Odd::new(uint::<N>(&ml)).expect("harness: odd modulus");
    let p_ct = total("MontyParams::new", || MontyParams::<N>::new(odd))?;
    let p_vt = total("MontyParams::new_vartime", || MontyParams::<N>::new_vartime(odd))?;
    let p_tr = total("Monty::new_params_vartime", || <MontyForm<N> as Monty>::new_params_vartime(odd))?;
    // identical structs
    let (d_ct, d_vt, d_tr) = (format!("{p_ct:?}"), format!("{p_vt:?}"), format!("{p_tr:?}"));
    vensure!(p_ct == p_vt, "MontyParams::new != MontyParams::new_vartime: {d_ct} vs {d_vt}");
    vensure!(p_vt == p_tr, "MontyParams::new_vartime != Monty::new_params_vartime: {d_vt} vs {d_tr}");
    vensure!(d_ct == d_vt && d_vt == d_tr, "Debug output differs between constructors: {d_ct} / {d_vt} / {d_tr}");
    vensure!(bool::from(p_ct.ct_eq(&p_vt)), "MontyParams::ct_eq(new, new_vartime) is false");
    veq!(ul(p_ct.modulus().as_ref()), ml, "MontyParams::modulus()");
    // selection between two parameter sets (second modulus: a related one)
    let (ml2, _) = hist::modulus(t, N);
    let odd2 = Odd::new(uint::<N>(&ml2)).expect("harness: odd modulus");
    let p2 = total("MontyParams::new_vartime (second)", || MontyParams::<N>::new_vartime(odd2))?;
    let ch = t.bool();
    let sel = MontyParams::conditional_select(&p_ct, &p2, Choice::from(ch as u8));
    vensure!(sel == if ch { p2 } else { p_ct }, "MontyParams::conditional_select picked the wrong set");
    veq!(bool::from(p_ct.ct_eq(&p2)), ml == ml2, "MontyParams::ct_eq between the sets of two moduli");
    // `one` through the value constructors (before the field check, so that the m = 1 signature is
    // matched on every observable)
    let one_res = check_one_value("MontyForm::one(params).as_montgomery()", &ul(Monty::as_montgomery(&MontyForm::one(p_ct))), &def);
    // equal to the definitions
    let field_res = check_view("MontyParams::new", &view_of("MontyParams", &d_ct)?, &def);
    merge(one_res, field_res)
}

pub fn boxed_len(t: &mut Tape, max: usize) -> usize {
    match t.weighted(&[3, 2]) {
        0 => t.pick(&[1usize, 2, 3, 4, 5, 7, 8, 9, 15, 16, 17, 31, 32, 33]),
        _ => t.usize_in(1, max),
    }
    .min(max)
}

pub fn boxed_odd(ml: &[u64]) -> Odd<BoxedUint> {
    Odd::new(boxed(ml)).expect("harness: odd modulus")
}

pub fn boxed_params(max: usize) -> impl Fn(&mut Tape, &mut Case) -> CaseResult {
    move |t, c| {
        let n = boxed_len(t, max);
        let (ml, class) = hist::modulus(t, n);
        c.num("limbs", n as u64);
        record_modulus(c, &ml, class);
        let def = ParamsDef::new(&ml);
        let p_ct = total("BoxedMontyParams::new", || BoxedMontyParams::new(boxed_odd(&ml)))?;
        let p_vt = total("BoxedMontyParams::new_vartime", || BoxedMontyParams::new_vartime(boxed_odd(&ml)))?;
        let p_tr = total("Monty::new_params_vartime", || <BoxedMontyForm as Monty>::new_params_vartime(boxed_odd(&ml)))?;
        let (d_ct, d_vt, d_tr) = (format!("{p_ct:?}"), format!("{p_vt:?}"), format!("{p_tr:?}"));
        vensure!(p_ct == p_vt, "BoxedMontyParams::new != new_vartime: {d_ct} vs {d_vt}");
        vensure!(p_vt == p_tr, "BoxedMontyParams::new_vartime != Monty::new_params_vartime: {d_vt} vs {d_tr}");
        vensure!(d_ct == d_vt && d_vt == d_tr, "Debug output differs between constructors: {d_ct} / {d_vt} / {d_tr}");
        veq!(bl(p_ct.modulus().as_ref()), ml, "BoxedMontyParams::modulus()");
        veq!(p_ct.bits_precision(), 64 * n as u32, "BoxedMontyParams::bits_precision()");
        let one_res = check_one_value(
            "BoxedMontyForm::one(params) [Monty::as_montgomery]",
            &bl(Monty::as_montgomery(&BoxedMontyForm::one(p_ct.clone()))),
            &def,
        );
        let field_res = check_view("BoxedMontyParams::new", &view_of("BoxedMontyParams", &d_ct)?, &def);
        merge(one_res, field_res)
    }
}

/// One compiled modulus: macro constants == definitions == dyn / boxed constructors.
pub fn const_params<M: ConstMod<N>, const N: usize, const W: usize>(_t: &mut Tape, c: &mut Case) -> CaseResult
where
    Uint<N>: Concat<Output = Uint<W>>,
    Uint<W>: Split<Output = Uint<N>>,
{
    let ml = ul(M::MODULUS.as_ref());
    record_modulus(c, &ml, M::LABEL);
    c.nontrivial(true);
    let def = ParamsDef::new(&ml);
    veq!(<M as ConstMontyParams<N>>::LIMBS, N, "ConstMontyParams::LIMBS");
    let from_const = MontyParams::<N>::from_const_params::<M>();
    let p_ct = total("MontyParams::new", || MontyParams::<N>::new(M::MODULUS))?;
    let p_vt = total("MontyParams::new_vartime", || MontyParams::<N>::new_vartime(M::MODULUS))?;
    vensure!(from_const == p_ct, "MontyParams::from_const_params != MontyParams::new: {from_const:?} vs {p_ct:?}");
    vensure!(from_const == p_vt, "MontyParams::from_const_params != MontyParams::new_vartime: {from_const:?} vs {p_vt:?}");
    let b_const = total("BoxedMontyParams::from_const_params", || BoxedMontyParams::from_const_params::<N, M>())?;
    let b_ct = total("BoxedMontyParams::new", || BoxedMontyParams::new(boxed_odd(&ml)))?;
    let b_vt = total("BoxedMontyParams::new_vartime", || BoxedMontyParams::new_vartime(boxed_odd(&ml)))?;
    vensure!(b_const == b_ct, "BoxedMontyParams::from_const_params != BoxedMontyParams::new: {b_const:?} vs {b_ct:?}");
    vensure!(b_const == b_vt, "BoxedMontyParams::from_const_params != BoxedMontyParams::new_vartime: {b_const:?} vs {b_vt:?}");
    veq!(b_const.bits_precision(), 64 * N as u32, "BoxedMontyParams::from_const_params precision");
    // the macro constants against the definitions
    let consts = View {
        modulus: big(&ml),
        one: ubig(&M::ONE),
        r2: ubig(&M::R2),
        r3: ubig(&M::R3),
        neg_inv: M::MOD_NEG_INV.0,
        mlz: M::MOD_LEADING_ZEROS,
    };
    // Debug views of the converted sets must show the same numbers as the constants
    let v_dyn = view_of("MontyParams", &format!("{from_const:?}"))?;
    let v_box = view_of("BoxedMontyParams", &format!("{b_const:?}"))?;
    vensure!(v_dyn == consts, "MontyParams::from_const_params fields {v_dyn:?} != macro constants {consts:?}");
    vensure!(v_box == consts, "BoxedMontyParams::from_const_params fields {v_box:?} != macro constants {consts:?}");
    check_view("impl_modulus! constants", &consts, &def)?;
    Ok(())
}
