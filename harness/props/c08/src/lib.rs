//! C08 — Montgomery-form values stay canonical and track Z/mZ over any operation history.
//!
//! Model-based check: a history (odd modulus, 4 registers, up to 64 operations, each with a randomly
//! chosen API form) is generated as plain data, evaluated on a `BigUint` model of Z/mZ, and run on
//! `MontyForm<N>`, `BoxedMontyForm` and (for compiled-in moduli) `ConstMontyForm`. After every step
//! the destination register must store exactly `value·R mod m` (hence < m) and retrieve to the model
//! value. Parameter sets of all constructors are compared with their definitions.

#![allow(long_running_const_eval)]

pub mod direct;
mod extra;
pub mod hist;
pub mod model;
pub mod moduli;
pub mod params;
pub mod reps;
pub mod surface;

use crypto_bigint::modular::{BoxedMontyForm, BoxedMontyParams, ConstMontyForm, MontyForm, MontyParams};
use crypto_bigint::{BoxedUint, Concat, Odd, Split, Uint};
use hist::*;
use model::ParamsDef;
use reps::*;
use vmodel::*;

pub fn spec() -> PropSpec {
    PropSpec {
        id: "C08",
        rule: "history sub-checks: a case = (odd modulus m from the classes {1, 3, 2^B-1, 2^(B-1)+1, 2^(B-1)-1, ~2^B/3, ~2^B/4, 2^k±1 at limb boundaries, whole zero high limbs, small primes, 2^B-c, top-limb edges, P-256 order, random odd}, 4 registers initialised with new(v), 0..=64 operations over {Add, Sub, Mul, Square, Neg, Double, DivBy2, New, Zero, One, Select, CopyFrom, FromMont, Renew(new(retrieve)), MulChain(one multiplier object: mul, square, mul)}; integers for new from {0, 1, m-1, (m±1)/2, m-2, random < m, m, m+1, 2^B-1, any n-limb integer}); each operation uses one API form chosen by the tape (inherent method, operator by value / by reference, *_assign, Monty / Square / SquareAssign / MontyMultiplier trait forms, subtle selection forms). After EVERY step the destination register is compared with the BigUint model: stored representation == value*R mod m (so < m), every accessor agrees, every retrieve form == value, zero queries, params(), PartialEq / ct_eq against a source register; at the end all registers are re-checked. dyn histories run the same history on MontyForm<N> and on BoxedMontyForm of the same precision; const histories run it on ConstMontyForm, on MontyForm (from_const_params) and on BoxedMontyForm (from_const_params) and check From<&ConstMontyForm> / from_montgomery conversions of every intermediate value. non-trivial: the history has >= 1 multiplication (Mul, Square, MulChain) followed later by >= 1 Add/Sub and length >= 8, OR m is one of the adversarial classes named in the property (1, 3, 2^B-1, 2^(B-1)±1, ~2^B/3, ~2^B/4, 2^k±1 at a limb boundary, whole zero high limbs); distinct by (limb count, modulus class, op-kind multiset). params sub-checks: one modulus per case, non-trivial when the modulus is adversarial or > 1, distinct by modulus limbs. reduction/mul_mod sub-checks: distinct by (m, operands); non-trivial when the final subtraction or top carry is needed, the upper half of T is non-zero, or m adversarial (reduction) / operands > 1 or m adversarial (mul_mod). surface/* sub-checks (API-surface audit): the history / params / reduction / mul_mod / serde-construction checks above at 5 and 7 limbs with the same rules; surface/select: two moduli, two values, one of the six selection forms (subtle conditional_select / conditional_assign / conditional_swap, ConstantTimeSelect ct_select / ct_assign / ct_swap) for the parameter set and one for the value, then arithmetic with what was selected, non-trivial by the params rule on the chosen modulus; surface/generic-integer-monty: a fixed 19-step expression (mul steps followed by add/sub steps) written against the Monty trait bound only, every step compared, always non-trivial; surface/const-select+zeroize+random: ConstMontyForm through the ConstantTimeSelect forms, Zeroize and Random, non-trivial by the params rule. Since seeding round 4: construct/serde also decodes in place (Deserialize::deserialize_in_place) over a live value.",
        assumptions: vec![
            "num-bigint arithmetic (incl. modinv) is correct (independent implementation)".into(),
            "bridging uses from_words/to_words only; the oracle never calls crypto-bigint".into(),
            "private fields of MontyParams / BoxedMontyParams are observed through their derived Debug output (Uint(0x..), BoxedUint(0x..), Limb(0x..), decimal u32)".into(),
            "montgomery_reduction is specified by the algorithm its doc cites (HAC 14.32: T < mR -> T R^-1 mod m)".into(),
            "from_montgomery is only fed canonical values (caller contract); operands of one operation always share equal parameters".into(),
        ],
        subchecks,
    }
}

const MAX_LEN: usize = 64;

fn finish(st: RunState) -> CaseResult {
    match st.f08 {
        // every other assertion of the history has passed; report the exact known signature
        Some(detail) => Err(Fail::known("F-08", detail)),
        None => Ok(()),
    }
}

/// The same history on MontyForm<N> (parameters from `new` or `new_vartime`) and on BoxedMontyForm
/// with the same precision.
fn dyn_history<const N: usize, const W: usize>(t: &mut Tape, c: &mut Case) -> CaseResult
where
    Uint<N>: Concat<Output = Uint<W>>,
    Uint<W>: Split<Output = Uint<N>>,
{
    let (ml, class) = hist::modulus(t, N);
    let def = ParamsDef::new(&ml);
    let vartime = t.bool();
    let h = History::generate(t, &def, &ml, class, MAX_LEN);
    let tr = h.trace(&def);
    record(c, &h, &tr, adversarial_class(class));
    let odd = Odd::new(uint::<N>(&ml)).expect("harness: odd modulus");
    let p = if vartime {
        total("MontyParams::new_vartime", || MontyParams::<N>::new_vartime(odd))?
    } else {
        total("MontyParams::new", || MontyParams::<N>::new(odd))?
    };
    let mut st = RunState::default();
    let dv = run::<MontyForm<N>>(&h, &tr, &def, &p, &mut st)?;
    let bp = if vartime {
        total("BoxedMontyParams::new_vartime", || BoxedMontyParams::new_vartime(params::boxed_odd(&ml)))?
    } else {
        total("BoxedMontyParams::new", || BoxedMontyParams::new(params::boxed_odd(&ml)))?
    };
    let bv = run::<BoxedMontyForm>(&h, &tr, &def, &bp, &mut st)?;
    // representation agreement (same R): dyn -> boxed through the Montgomery representation
    for (i, (d, b)) in dv.iter().zip(bv.iter()).enumerate() {
        let conv = total("BoxedMontyForm::from_montgomery(dyn)", || BoxedMontyForm::from_montgomery(BoxedUint::from(d.to_montgomery()), bp.clone()))?;
        vensure!(conv == *b, "step {i}: BoxedMontyForm::from_montgomery(MontyForm::to_montgomery) != the boxed run: {conv:?} vs {b:?}");
    }
    finish(st)
}

fn boxed_history(max: usize) -> impl Fn(&mut Tape, &mut Case) -> CaseResult {
    move |t, c| {
        let n = params::boxed_len(t, max);
        let (ml, class) = hist::modulus(t, n);
        let def = ParamsDef::new(&ml);
        let vartime = t.bool();
        let h = History::generate(t, &def, &ml, class, MAX_LEN);
        let tr = h.trace(&def);
        record(c, &h, &tr, adversarial_class(class));
        c.label(format!("boxed limbs: {}", match n {
            1 => "1",
            2..=4 => "2..=4",
            5..=16 => "5..=16",
            17..=31 => "17..=31",
            32 => "32",
            _ => "33",
        }));
        let bp = if vartime {
            total("BoxedMontyParams::new_vartime", || BoxedMontyParams::new_vartime(params::boxed_odd(&ml)))?
        } else {
            total("BoxedMontyParams::new", || BoxedMontyParams::new(params::boxed_odd(&ml)))?
        };
        let mut st = RunState::default();
        run::<BoxedMontyForm>(&h, &tr, &def, &bp, &mut st)?;
        finish(st)
    }
}

/// One compiled modulus: the history on all three representations + conversions of every
/// intermediate value (const -> dyn via `From`, dyn -> boxed via the Montgomery representation and
/// `from_const_params`, and back).
fn const_history<M: ConstMod<N>, const N: usize>(t: &mut Tape, c: &mut Case) -> CaseResult {
    let ml = ul(M::MODULUS.as_ref());
    let def = ParamsDef::new(&ml);
    let h = History::generate(t, &def, &ml, M::LABEL, MAX_LEN);
    let tr = h.trace(&def);
    record(c, &h, &tr, adversarial_class(M::LABEL));
    let mut st = RunState::default();
    let cv = run::<ConstMontyForm<M, N>>(&h, &tr, &def, &(), &mut st)?;
    let dp = MontyParams::<N>::from_const_params::<M>();
    let dv = run::<MontyForm<N>>(&h, &tr, &def, &dp, &mut st)?;
    let bp = total("BoxedMontyParams::from_const_params", || BoxedMontyParams::from_const_params::<N, M>())?;
    let bv = run::<BoxedMontyForm>(&h, &tr, &def, &bp, &mut st)?;
    for (i, ((cx, d), b)) in cv.iter().zip(dv.iter()).zip(bv.iter()).enumerate() {
        let conv: MontyForm<N> = MontyForm::from(cx);
        vensure!(conv == *d, "step {i}: MontyForm::from(&ConstMontyForm) != the dyn run: {conv:?} vs {d:?}");
        let back = ConstMontyForm::<M, N>::from_montgomery(conv.to_montgomery());
        vensure!(back == *cx, "step {i}: ConstMontyForm::from_montgomery(MontyForm::to_montgomery) != original");
        let bconv = total("BoxedMontyForm::from_montgomery(dyn)", || BoxedMontyForm::from_montgomery(BoxedUint::from(conv.to_montgomery()), bp.clone()))?;
        vensure!(bconv == *b, "step {i}: BoxedMontyForm::from_montgomery(..) != the boxed run: {bconv:?} vs {b:?}");
    }
    finish(st)
}

macro_rules! fixed_subs {
    ($v:ident, $qh:expr, $qp:expr, $qr:expr; $(($n:literal, $w:literal)),*) => { $(
        $v.push(SubCheck::new(format!("history/dyn+boxed/U{}", 64 * $n), $qh, dyn_history::<$n, $w>).tape(1400).thorough(60));
        $v.push(SubCheck::new(format!("params/fixed/U{}", 64 * $n), $qp, params::fixed_params::<$n, $w>).tape(64 + 8 * $n));
        $v.push(SubCheck::new(format!("reduction/direct/U{}", 64 * $n), $qr, direct::reduction_direct::<$n>).tape(64 + 8 * $n));
        $v.push(SubCheck::new(format!("mul_mod/fixed/U{}", 64 * $n), $qr, direct::mul_mod_fixed::<$n, $w>).tape(64 + 8 * $n));
    )* };
}

macro_rules! const_subs {
    ($v:ident, $q:expr, $m:path, 1, $name:literal) => { const_subs!(@ $v, $q, $m, 1, 2, $name) };
    ($v:ident, $q:expr, $m:path, 2, $name:literal) => { const_subs!(@ $v, $q, $m, 2, 4, $name) };
    ($v:ident, $q:expr, $m:path, 3, $name:literal) => { const_subs!(@ $v, $q, $m, 3, 6, $name) };
    ($v:ident, $q:expr, $m:path, 4, $name:literal) => { const_subs!(@ $v, $q, $m, 4, 8, $name) };
    ($v:ident, $q:expr, $m:path, 6, $name:literal) => { const_subs!(@ $v, $q, $m, 6, 12, $name) };
    ($v:ident, $q:expr, $m:path, 8, $name:literal) => { const_subs!(@ $v, $q, $m, 8, 16, $name) };
    ($v:ident, $q:expr, $m:path, 16, $name:literal) => { const_subs!(@ $v, $q, $m, 16, 32, $name) };
    ($v:ident, $q:expr, $m:path, 32, $name:literal) => { const_subs!(@ $v, $q, $m, 32, 64, $name) };
    (@ $v:ident, $q:expr, $m:path, $n:literal, $w:literal, $name:literal) => {
        $v.push(SubCheck::new(concat!("history/const+dyn+boxed/", $name), $q, const_history::<$m, $n>).tape(1400).thorough(60));
        $v.push(SubCheck::new(concat!("params/const/", $name), 1, params::const_params::<$m, $n, $w>).tape(8).thorough(1));
    };
}

fn subchecks(_ctx: &Ctx) -> Vec<SubCheck> {
    let mut v = vec![];
    fixed_subs!(v, 10000, 6000, 30000; (1, 2), (2, 4), (3, 6), (4, 8));
    fixed_subs!(v, 6000, 3000, 15000; (6, 12), (8, 16));
    fixed_subs!(v, 3000, 1500, 6000; (16, 32));
    fixed_subs!(v, 2000, 600, 2500; (32, 64));
    v.push(SubCheck::new("history/boxed/1..=33", 24000, boxed_history(33)).tape(1400).thorough(60));
    v.push(SubCheck::new("params/boxed/1..=33", 6000, params::boxed_params(33)).tape(400));
    v.push(SubCheck::new("mul_mod/boxed/1..=33", 16000, direct::mul_mod_boxed(33)).tape(400));
    for_each_modulus!(const_subs, v, 1500,);
    v.extend(extra::subchecks(_ctx));
    // API-surface audit (/verif/audit/E.md): appended last so that existing sub-check indices stay stable
    v.extend(surface::subchecks());
    v
}
