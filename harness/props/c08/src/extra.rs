//! C08 extra — two `Monty`-form items checked in isolation (the histories reach `copy_montgomery_from`
//! only as one operation among many and never wipe a value):
//!
//!  * `Monty::copy_montgomery_from` ("Copy the Montgomery representation from `other` into `self`.
//!    NOTE: the parameters remain unchanged") for `MontyForm<N>` and `BoxedMontyForm`: afterwards the
//!    receiver stores exactly the source's representation (`value·R mod m`), retrieves to the source's
//!    value, still carries its parameters, and the source is untouched;
//!  * `Zeroize::zeroize` for `BoxedMontyForm` ("This zeroizes the value, but _not_ the associated
//!    parameters!"): the stored representation is the canonical 0 of the same precision, `retrieve()` is 0,
//!    the parameters are unchanged and still usable (a following `+ x` gives `x`); and for `MontyForm<N>`,
//!    which also wipes its parameter copy: the stored representation is 0 (nothing else is observed —
//!    wiped parameters hold an even modulus, finding F-12d of C12).
//!
//! `BoxedMontyMultiplier::square_amm` (boxed_monty_form/mul.rs) is `#[allow(dead_code)]` with no
//! caller, so no public API reaches it.
//!
//! Non-trivial: the modulus is one of the adversarial classes of the property, or the copied / wiped
//! value is not 0 and (copy) differs from the receiver's previous value.

use crate::hist;
use crate::model::ParamsDef;
use crate::params::{boxed_len, boxed_odd};
use crypto_bigint::modular::{BoxedMontyForm, BoxedMontyParams, MontyForm, MontyParams};
use crypto_bigint::zeroize::Zeroize;
use crypto_bigint::{Concat, Monty, Odd, Split, Uint};
use num_traits::Zero as _;
use vmodel::*;

struct Setup {
    ml: Limbs,
    def: ParamsDef,
    /// source value (any n-limb integer) and its residue
    src: Limbs,
    dst: Limbs,
    vartime: bool,
}

fn setup(t: &mut Tape, c: &mut Case, n: usize) -> Setup {
    let (ml, class) = hist::modulus(t, n);
    let def = ParamsDef::new(&ml);
    let (src, scls) = hist::value(t, &def);
    let (dst, _) = hist::value(t, &def);
    let vartime = t.bool();
    c.limbs("m", &ml);
    c.limbs("src", &src);
    c.limbs("dst", &dst);
    c.label(class);
    c.label(scls);
    let (s, d) = (big(&src) % &def.m, big(&dst) % &def.m);
    c.nontrivial(hist::adversarial_class(class) || (!s.is_zero() && s != d));
    Setup { ml, def, src, dst, vartime }
}

fn fixed_case<const N: usize, const W: usize>(t: &mut Tape, c: &mut Case) -> CaseResult
where
    Uint<N>: Concat<Output = Uint<W>>,
    Uint<W>: Split<Output = Uint<N>>,
{
    let s = setup(t, c, N);
    let odd = Odd::new(uint::<N>(&s.ml)).expect("harness: odd modulus");
    let p = if s.vartime { MontyParams::<N>::new_vartime(odd) } else { MontyParams::<N>::new(odd) };
    let sv = big(&s.src) % &s.def.m;
    let want_repr = limbs_exact(&s.def.mont(&sv), N);
    let want_val = limbs_exact(&sv, N);
    let src = total("MontyForm::new", || MontyForm::new(&uint::<N>(&s.src), p))?;
    let mut dst = total("MontyForm::new", || MontyForm::new(&uint::<N>(&s.dst), p))?;
    total("Monty::copy_montgomery_from", || Monty::copy_montgomery_from(&mut dst, &src))?;
    veq!(ul(dst.as_montgomery()), want_repr, "MontyForm: representation after copy_montgomery_from");
    veq!(ul(Monty::as_montgomery(&dst)), want_repr, "MontyForm: Monty::as_montgomery after copy_montgomery_from");
    veq!(ul(&dst.retrieve()), want_val, "MontyForm: retrieve() after copy_montgomery_from");
    vensure!(*dst.params() == p, "MontyForm: copy_montgomery_from changed the parameters");
    vensure!(dst == src, "MontyForm: receiver != source after copy_montgomery_from");
    veq!(ul(src.as_montgomery()), want_repr, "MontyForm: source modified by copy_montgomery_from");

    // zeroize: value and the parameter copy are wiped; only the stored representation is observed
    let mut z = src;
    total("MontyForm::zeroize", || z.zeroize())?;
    veq!(ul(z.as_montgomery()), vec![0u64; N], "MontyForm: representation after zeroize");
    veq!(ul(&z.to_montgomery()), vec![0u64; N], "MontyForm: to_montgomery() after zeroize");
    // the copy it was made from is a different object
    veq!(ul(src.as_montgomery()), want_repr, "MontyForm: zeroize of a copy changed the original");
    Ok(())
}

fn boxed_case(max: usize) -> impl Fn(&mut Tape, &mut Case) -> CaseResult {
    move |t, c| {
        let n = boxed_len(t, max);
        let s = setup(t, c, n);
        let p = if s.vartime { BoxedMontyParams::new_vartime(boxed_odd(&s.ml)) } else { BoxedMontyParams::new(boxed_odd(&s.ml)) };
        let sv = big(&s.src) % &s.def.m;
        let want_repr = limbs_exact(&s.def.mont(&sv), n);
        let want_val = limbs_exact(&sv, n);
        let src = total("BoxedMontyForm::new", || BoxedMontyForm::new(boxed(&s.src), p.clone()))?;
        let mut dst = total("BoxedMontyForm::new", || BoxedMontyForm::new(boxed(&s.dst), p.clone()))?;
        total("Monty::copy_montgomery_from", || Monty::copy_montgomery_from(&mut dst, &src))?;
        veq!(bl(dst.as_montgomery()), want_repr, "BoxedMontyForm: representation after copy_montgomery_from");
        veq!(bl(Monty::as_montgomery(&dst)), want_repr, "BoxedMontyForm: Monty::as_montgomery after copy_montgomery_from");
        veq!(bl(&dst.retrieve()), want_val, "BoxedMontyForm: retrieve() after copy_montgomery_from");
        vensure!(*dst.params() == p, "BoxedMontyForm: copy_montgomery_from changed the parameters");
        vensure!(dst == src, "BoxedMontyForm: receiver != source after copy_montgomery_from");
        veq!(bl(src.as_montgomery()), want_repr, "BoxedMontyForm: source modified by copy_montgomery_from");

        let mut z = src.clone();
        total("BoxedMontyForm::zeroize", || z.zeroize())?;
        veq!(bl(z.as_montgomery()), vec![0u64; n], "BoxedMontyForm: representation after zeroize (same precision, all zero)");
        veq!(bl(&z.retrieve()), vec![0u64; n], "BoxedMontyForm: retrieve() after zeroize");
        vensure!(bool::from(z.is_zero()), "BoxedMontyForm: is_zero() is false after zeroize");
        vensure!(*z.params() == p, "BoxedMontyForm: zeroize changed the parameters (documented: it does not)");
        vensure!(z == BoxedMontyForm::zero(p.clone()), "BoxedMontyForm: zeroized value != zero(params)");
        // still a usable zero of Z/mZ
        let sum = total("zeroized + src", || &z + &src)?;
        veq!(bl(&sum.retrieve()), want_val, "BoxedMontyForm: zeroized + x");
        veq!(bl(src.as_montgomery()), want_repr, "BoxedMontyForm: zeroize of a clone changed the original");
        Ok(())
    }
}

macro_rules! fixed {
    ($v:ident, $q:expr; $(($n:literal, $w:literal)),*) => { $(
        $v.push(SubCheck::new(format!("extra/copy+zeroize/dyn/U{}", 64 * $n), $q, fixed_case::<$n, $w>).tape(64 + 8 * $n));
    )* };
}

pub fn subchecks(_ctx: &Ctx) -> Vec<SubCheck> {
    let mut v = vec![];
    fixed!(v, 20_000; (1, 2), (2, 4), (4, 8));
    fixed!(v, 8_000; (8, 16));
    v.push(SubCheck::new("extra/copy+zeroize/boxed/1..=9", 20_000, boxed_case(9)).tape(160));
    serde_subchecks(&mut v);
    v
}

// ------------------------------------------------------------------------------------------------
// construction by deserialization (`ConstMontyForm: Deserialize`, feature `serde`): "montgomery form
// must be reduced" — whatever is accepted is stored canonically (< m), and every canonical
// representative, which is what `Serialize` emits, is accepted unchanged.

pub(crate) fn serde_construct<M: crate::reps::ConstMod<N>, const N: usize>(t: &mut Tape, c: &mut Case) -> CaseResult
where
    Uint<N>: crypto_bigint::Encoding,
{
    use crypto_bigint::modular::{ConstMontyForm, ConstMontyParams};
    let ml = ul(<M as ConstMontyParams<N>>::MODULUS.as_ref());
    let mb = big(&ml);
    let xl: Limbs = match t.weighted(&[4, 2, 2, 1, 2]) {
        0 => limbs_of(&gen::residue(t, &mb), N),
        1 => ml.clone(),
        2 => {
            // m + small (wrapping at the width)
            let mut v = ml.clone();
            for _ in 0..t.range(1, 3) {
                gen::inc(&mut v);
            }
            v
        }
        3 => vec![u64::MAX; N],
        _ => gen::limbs(t, N),
    };
    c.limbs("montgomery_form", &xl);
    c.text("modulus", M::LABEL);
    let reduced = big(&xl) < mb;
    c.label(if reduced { "serde construct: reduced" } else { "serde construct: not reduced" });
    if xl == ml {
        c.label("serde construct: exactly m");
    }
    c.nontrivial(!reduced || !is_zero(&xl));
    let x = uint::<N>(&xl);
    let enc = total("bincode::serialize(Uint)", || bincode::serialize(&x).unwrap())?;
    let got = total("bincode::deserialize::<ConstMontyForm>", || bincode::deserialize::<ConstMontyForm<M, N>>(&enc))?;
    match got {
        Ok(f) => {
            let stored = ul(f.as_montgomery());
            vensure!(big(&stored) < mb, "deserialized ConstMontyForm stores {} which is not < m = {}", hex(&stored), hex(&ml));
            veq!(stored, xl, "deserialized ConstMontyForm stores another representative");
            vensure!(f == ConstMontyForm::<M, N>::from_montgomery(x), "deserialized ConstMontyForm != from_montgomery of the same representative");
            let back = total("bincode::serialize(ConstMontyForm)", || bincode::serialize(&f).unwrap())?;
            veq!(back, enc, "ConstMontyForm serializes to other bytes than it was read from");
        }
        Err(e) => vensure!(!reduced, "canonical representative {} refused: {e}", hex(&xl)),
    }
    // the same bytes decoded in place over a live value (storage reuse in containers): whatever the
    // outcome, the value stored afterwards is canonical; on success it is the decoded representative
    {
        use bincode::Options;
        let mut place = ConstMontyForm::<M, N>::ZERO;
        let opts = bincode::DefaultOptions::new().with_fixint_encoding().allow_trailing_bytes();
        let ok = total("Deserialize::deserialize_in_place::<ConstMontyForm>", || {
            let mut de = bincode::Deserializer::from_slice(&enc, opts);
            serde::Deserialize::deserialize_in_place(&mut de, &mut place).is_ok()
        })?;
        let stored = ul(place.as_montgomery());
        vensure!(big(&stored) < mb, "deserialize_in_place (success = {ok}) left {} in the place, which is not < m = {}", hex(&stored), hex(&ml));
        veq!(ok, reduced, "deserialize_in_place: success");
        if ok {
            veq!(stored, xl, "deserialize_in_place stores another representative");
        }
    }
    Ok(())
}

macro_rules! serde_sub {
    ($v:ident; $m:path, $n:literal, $name:literal) => {
        $v.push(SubCheck::new(concat!("construct/serde/const/", $name), 4_000, serde_construct::<$m, $n>).tape(16 + 2 * $n));
    };
}

pub fn serde_subchecks(v: &mut Vec<SubCheck>) {
    crate::for_each_modulus!(serde_sub, v;);
}
