//! C08 API-surface audit (see /verif/audit/E.md): instantiation families of the Montgomery-form
//! APIs that no other sub-check of this crate calls.
//!
//!  * limb counts outside the property's list (5 and 7 limbs) for the operation histories, the
//!    parameter constructors, `montgomery_reduction` and `Uint::mul_mod`
//!    (`surface/{history,params,reduction,mul_mod}/…/U320|U448`) and for `ConstMontyForm` /
//!    `impl_modulus!` / construction by deserialization (`surface/…/const/S320Random|S448Half1`);
//!  * every *selection* form of `MontyParams`, `MontyForm` and `ConstMontyForm` — `subtle`'s
//!    `conditional_select` / `conditional_assign` / `conditional_swap` and this crate's blanket
//!    `ConstantTimeSelect::{ct_select, ct_assign, ct_swap}` ("`a` if `choice == Choice(0)`; `b` if
//!    `choice == Choice(1)`") — with the selected parameter set / value *used* afterwards
//!    (`surface/select/…`): the result must behave like the set / value it was selected from;
//!  * the generic route `fn f<T: Integer>` over `T::Monty` (every operator form listed in the
//!    `Monty` trait bound, `Square`, `SquareAssign`, `Retrieve`, `double`, `div_by_2(_assign)`) for
//!    `Uint<N>` and `BoxedUint` (`surface/generic-integer-monty/…`);
//!  * `ConstMontyForm` through `Zeroize` (`DefaultIsZeroes`: overwritten with `Default`, i.e. `ZERO`)
//!    and through `Random` (`surface/const-random+zeroize/…`): the stored value is canonical.
//!
//! The oracle is the crate's Z/mZ model (`model::ParamsDef`, BigUint only).

use crate::hist;
use crate::model::*;
use crate::params::{self, boxed_len};
use crate::reps::ConstMod;
use crypto_bigint::modular::{ConstMontyForm, ConstMontyParams, MontyForm, MontyParams, Retrieve};
use crypto_bigint::rand_core::RngCore;
use crypto_bigint::zeroize::Zeroize;
use crypto_bigint::{const_monty_form, impl_modulus, BoxedUint, ConstantTimeSelect, Integer, Limb, Monty, Odd, Random, Square, SquareAssign, Uint, U320, U448};
use num_bigint::BigUint;
use subtle::{Choice, ConditionallySelectable, ConstantTimeEq};
use vmodel::*;

// ------------------------------------------------------------------------------------------------
// compile-time moduli at 5 and 7 limbs

macro_rules! modulus {
    ($name:ident, $ty:ty, $n:literal, $label:literal, $hex:literal) => {
        impl_modulus!($name, $ty, $hex);
        impl ConstMod<$n> for $name {
            const LABEL: &'static str = $label;
            fn via_macro(v: &Uint<$n>) -> ConstMontyForm<Self, $n> {
                let x: $ty = *v;
                const_monty_form!(x, $name)
            }
        }
    };
}
modulus!(S320Random, U320, 5, "m random odd", "c5913bff6b3174ff1a248b30527c5dcf8bfa31bb702aa65916c8dbd8a11e67e782b332fd720e3f2d");
modulus!(
    S448Half1,
    U448,
    7,
    "m=2^(B-1)+1",
    "8000000000000000000000000000000000000000000000000000000000000000000000000000000000000000000000000000000000000001"
);

// ------------------------------------------------------------------------------------------------
// selection forms

const SELECT_FORMS: [&str; 6] = [
    "ConditionallySelectable::conditional_select",
    "ConditionallySelectable::conditional_assign",
    "ConditionallySelectable::conditional_swap",
    "ConstantTimeSelect::ct_select",
    "ConstantTimeSelect::ct_assign",
    "ConstantTimeSelect::ct_swap",
];

/// (selected, the other output of a swap form if any)
fn select_form<T: ConditionallySelectable + ConstantTimeSelect>(a: &T, b: &T, ch: bool, form: usize) -> (T, Option<T>) {
    let choice = Choice::from(ch as u8);
    match form {
        0 => (<T as ConditionallySelectable>::conditional_select(a, b, choice), None),
        1 => {
            let mut x = *a;
            ConditionallySelectable::conditional_assign(&mut x, b, choice);
            (x, None)
        }
        2 => {
            let (mut x, mut y) = (*a, *b);
            <T as ConditionallySelectable>::conditional_swap(&mut x, &mut y, choice);
            (x, Some(y))
        }
        3 => (<T as ConstantTimeSelect>::ct_select(a, b, choice), None),
        4 => {
            let mut x = *a;
            ConstantTimeSelect::ct_assign(&mut x, b, choice);
            (x, None)
        }
        _ => {
            let (mut x, mut y) = (*a, *b);
            <T as ConstantTimeSelect>::ct_swap(&mut x, &mut y, choice);
            (x, Some(y))
        }
    }
}

/// the stored representation of `f` must be value·R mod m and retrieve to value
fn check_form<const N: usize>(what: &str, f: &MontyForm<N>, want: &BigUint, def: &ParamsDef) -> CaseResult {
    veq!(ul(Monty::as_montgomery(f)), limbs_exact(&def.mont(want), N), "{what}: stored representation != value*R mod m");
    veq!(ul(&f.retrieve()), limbs_exact(want, N), "{what}: retrieve()");
    Ok(())
}

/// Two parameter sets (two moduli, usually of different leading-zero classes) and two values: each
/// selection form must hand out exactly the chosen one, and arithmetic with what was handed out
/// must be arithmetic modulo the chosen modulus.
pub fn select_dyn<const N: usize>(t: &mut Tape, c: &mut Case) -> CaseResult {
    let (m1, class1) = hist::modulus(t, N);
    let (m2, class2) = hist::modulus(t, N);
    let (d1, d2) = (ParamsDef::new(&m1), ParamsDef::new(&m2));
    let ch = t.bool();
    let (pform, vform) = (t.index(6), t.index(6));
    let (v1, _) = hist::value(t, &d1);
    let (v2, _) = hist::value(t, &d2);
    let (w, wcls) = hist::value(t, if ch { &d2 } else { &d1 });
    c.limbs("m1", &m1);
    c.limbs("m2", &m2);
    c.num("choice", ch as u64);
    c.num("params form", pform as u64);
    c.num("value form", vform as u64);
    c.limbs("v1", &v1);
    c.limbs("v2", &v2);
    c.limbs("w", &w);
    c.label(format!("m: {}", if ch { class2 } else { class1 }));
    c.label(format!("params selected through {}", SELECT_FORMS[pform]));
    c.label(format!("value selected through {}", SELECT_FORMS[vform]));
    c.label(format!("new: {wcls}"));
    if d1.mlz != d2.mlz {
        c.label("the two moduli have different leading-zero counts");
    }
    let (def, other_def, chosen_class) = if ch { (&d2, &d1, class2) } else { (&d1, &d2, class1) };
    c.nontrivial(hist::adversarial_class(chosen_class) || bit_len(if ch { &m2 } else { &m1 }) > 1);

    let p1 = total("MontyParams::new_vartime", || MontyParams::<N>::new_vartime(Odd::new(uint::<N>(&m1)).expect("harness: odd")))?;
    let p2 = total("MontyParams::new_vartime", || MontyParams::<N>::new_vartime(Odd::new(uint::<N>(&m2)).expect("harness: odd")))?;
    let (want_p, other_p) = if ch { (p2, p1) } else { (p1, p2) };

    // --- parameter sets
    let pname = SELECT_FORMS[pform];
    let (sel, swapped) = total(pname, || select_form(&p1, &p2, ch, pform))?;
    vensure!(sel == want_p, "MontyParams through {pname}: got {sel:?}, want {want_p:?}");
    vensure!(bool::from(sel.ct_eq(&want_p)), "MontyParams through {pname}: ct_eq with the chosen set is false");
    if let Some(y) = swapped {
        vensure!(y == other_p, "MontyParams through {pname}: second output {y:?}, want {other_p:?}");
    }
    let view = params::parse_debug(&format!("{sel:?}")).map_err(|e| Fail::new(format!("harness: cannot parse Debug of MontyParams: {e}")))?;
    params::check_view(&format!("MontyParams through {pname}"), &view, def)?;
    // use it: (x*y + 1 - x)^2 via the selected set
    let (x, y) = (big(&w) % &def.m, big(if ch { &v2 } else { &v1 }) % &def.m);
    let fx = total("MontyForm::new (selected params)", || MontyForm::new(&uint::<N>(&w), sel))?;
    let fy = total("MontyForm::new (selected params)", || MontyForm::new(&uint::<N>(if ch { &v2 } else { &v1 }), sel))?;
    check_form(&format!("MontyForm::new with params from {pname}"), &fx, &x, def)?;
    let one = total("MontyForm::one (selected params)", || MontyForm::one(sel))?;
    let r = total("x*y + one - x (selected params)", || (fx * fy + one - fx).square())?;
    let inner = m_sub(&m_add(&m_mul(&x, &y, &def.m), &(BigUint::from(1u32) % &def.m), &def.m), &x, &def.m);
    check_form(&format!("(x*y + 1 - x)^2 with params from {pname}"), &r, &m_mul(&inner, &inner, &def.m), def)?;
    vensure!(*r.params() == want_p, "result of arithmetic with params from {pname} carries other params");

    // --- values (each carries its own parameter set: MontyForm selection selects both fields)
    let f1 = total("MontyForm::new", || MontyForm::new(&uint::<N>(&v1), p1))?;
    let f2 = total("MontyForm::new", || MontyForm::new(&uint::<N>(&v2), p2))?;
    let vname = SELECT_FORMS[vform];
    let (fs, fswapped) = total(vname, || select_form(&f1, &f2, ch, vform))?;
    let (want_f, other_f) = if ch { (f2, f1) } else { (f1, f2) };
    vensure!(fs == want_f, "MontyForm through {vname}: got {fs:?}, want {want_f:?}");
    vensure!(bool::from(fs.ct_eq(&want_f)), "MontyForm through {vname}: ct_eq with the chosen value is false");
    vensure!(*fs.params() == want_p, "MontyForm through {vname}: params() are not those of the chosen value");
    if let Some(y) = fswapped {
        vensure!(y == other_f, "MontyForm through {vname}: second output {y:?}, want {other_f:?}");
        let ov = big(if ch { &v1 } else { &v2 }) % &other_def.m;
        check_form(&format!("second output of {vname}"), &y, &ov, other_def)?;
    }
    let val = big(if ch { &v2 } else { &v1 }) % &def.m;
    check_form(&format!("MontyForm through {vname}"), &fs, &val, def)?;
    // use it: v^2 + v, v/2, -v in the chosen ring
    let r = total("square + self (selected value)", || fs.square() + fs)?;
    check_form(&format!("v^2 + v on a value from {vname}"), &r, &m_add(&m_mul(&val, &val, &def.m), &val, &def.m), def)?;
    let r = total("div_by_2 (selected value)", || fs.div_by_2())?;
    check_form(&format!("v/2 on a value from {vname}"), &r, &m_half(&val, &def.m), def)?;
    let r = total("neg * selected-params value", || -fs * fx)?;
    check_form(&format!("-v * x on a value from {vname}"), &r, &m_mul(&m_neg(&val, &def.m), &x, &def.m), def)?;
    Ok(())
}

/// `ConstMontyForm`: the `ConstantTimeSelect` blanket forms (the `subtle` forms are part of the
/// histories), `Zeroize` and `Random`.
pub fn const_forms<M: ConstMod<N>, const N: usize>(t: &mut Tape, c: &mut Case) -> CaseResult {
    let ml = ul(M::MODULUS.as_ref());
    let def = ParamsDef::new(&ml);
    let (v1, c1) = hist::value(t, &def);
    let (v2, c2) = hist::value(t, &def);
    let ch = t.bool();
    let form = 3 + t.index(3);
    let script: Vec<u64> = (0..t.usize_in(0, 3)).map(|_| t.pick(&[u64::MAX, 0, 1, ml[N - 1], ml[N - 1].wrapping_add(1), ml[0]])).collect();
    let seed = t.u64();
    c.text("modulus", M::LABEL);
    c.limbs("v1", &v1);
    c.limbs("v2", &v2);
    c.num("choice", ch as u64);
    c.num("form", form as u64);
    c.limbs("rng script", &script);
    c.num("rng seed", seed);
    c.label(format!("m: {}", M::LABEL));
    c.label(format!("new: {c1}"));
    c.label(format!("new: {c2}"));
    c.label(format!("value selected through {}", SELECT_FORMS[form]));
    c.nontrivial(hist::adversarial_class(M::LABEL) || bit_len(&ml) > 1);
    let check = |what: &str, f: &ConstMontyForm<M, N>, want: &BigUint| -> CaseResult {
        veq!(ul(f.as_montgomery()), limbs_exact(&def.mont(want), N), "{what}: stored representation != value*R mod m");
        veq!(ul(&f.retrieve()), limbs_exact(want, N), "{what}: retrieve()");
        Ok(())
    };
    let f1 = ConstMontyForm::<M, N>::new(&uint::<N>(&v1));
    let f2 = ConstMontyForm::<M, N>::new(&uint::<N>(&v2));
    let name = SELECT_FORMS[form];
    let (fs, swapped) = total(name, || select_form(&f1, &f2, ch, form))?;
    let (want_f, other_f) = if ch { (f2, f1) } else { (f1, f2) };
    vensure!(fs == want_f, "ConstMontyForm through {name}: got {fs:?}, want {want_f:?}");
    if let Some(y) = swapped {
        vensure!(y == other_f, "ConstMontyForm through {name}: second output {y:?}, want {other_f:?}");
    }
    let val = big(if ch { &v2 } else { &v1 }) % &def.m;
    check(&format!("ConstMontyForm through {name}"), &fs, &val)?;
    let r = total("square + self (selected value)", || fs.square() + fs)?;
    check(&format!("v^2 + v on a value from {name}"), &r, &m_add(&m_mul(&val, &val, &def.m), &val, &def.m))?;

    // Zeroize (`impl DefaultIsZeroes for ConstMontyForm`: "zeroized by overwriting with Default")
    let mut z = fs;
    total("ConstMontyForm::zeroize", || z.zeroize())?;
    vensure!(z == ConstMontyForm::<M, N>::ZERO && z == ConstMontyForm::<M, N>::default(), "zeroized ConstMontyForm is not ZERO / Default: {z:?}");
    check("zeroized ConstMontyForm", &z, &BigUint::default())?;
    check("the value a zeroized copy was made from", &fs, &val)?;

    // Random: the value is not predicted here (C19 models the sampler); whatever is produced must be
    // a canonical Montgomery representation: as_montgomery() < m and == retrieve()*R mod m
    let mut rng = ScriptThenMix { script, pos: 0, state: seed };
    for what in ["Random::random", "Random::try_random"] {
        let f = if what == "Random::random" {
            total(what, || <ConstMontyForm<M, N> as Random>::random(&mut rng))?
        } else {
            total(what, || <ConstMontyForm<M, N> as Random>::try_random(&mut rng).expect("infallible rng"))?
        };
        let stored = ubig(f.as_montgomery());
        vensure!(stored < def.m, "ConstMontyForm {what}: stored representation {:x} is not < m", stored);
        let retr = ubig(&f.retrieve());
        vensure!(retr < def.m, "ConstMontyForm {what}: retrieve() = {:x} is not < m", retr);
        vensure!(def.mont(&retr) == stored, "ConstMontyForm {what}: stored representation {:x} != retrieve()*R mod m", stored);
    }
    Ok(())
}

/// Deterministic word source for `Random`: the scripted words first, then SplitMix64 from the seed
/// (a pure function of the tape).
struct ScriptThenMix {
    script: Vec<u64>,
    pos: usize,
    state: u64,
}
impl RngCore for ScriptThenMix {
    fn next_u32(&mut self) -> u32 {
        self.next_u64() as u32
    }
    fn next_u64(&mut self) -> u64 {
        if self.pos < self.script.len() {
            self.pos += 1;
            return self.script[self.pos - 1];
        }
        self.state = self.state.wrapping_add(0x9E37_79B9_7F4A_7C15);
        let mut z = self.state;
        z = (z ^ (z >> 30)).wrapping_mul(0xBF58_476D_1CE4_E5B9);
        z = (z ^ (z >> 27)).wrapping_mul(0x94D0_49BB_1331_11EB);
        z ^ (z >> 31)
    }
    fn fill_bytes(&mut self, dst: &mut [u8]) {
        for chunk in dst.chunks_mut(8) {
            let w = self.next_u64().to_le_bytes();
            chunk.copy_from_slice(&w[..chunk.len()]);
        }
    }
}

// ------------------------------------------------------------------------------------------------
// generic route: fn f<T: Integer> over T::Monty

fn int_limbs<I: AsRef<[Limb]>>(x: &I) -> Limbs {
    x.as_ref().iter().map(|l| l.0).collect()
}

/// Every step of a fixed expression, written with the operator / method forms that the `Monty`
/// trait bound provides and nothing else. Returns (name, retrieve(), as_montgomery()) per step.
fn generic_steps<T: Integer>(modulus: Odd<T>, a: T, b: T) -> Vec<(&'static str, Limbs, Limbs)> {
    let p = <T::Monty as Monty>::new_params_vartime(modulus);
    let x = <T::Monty as Monty>::new(a, p.clone());
    let y = <T::Monty as Monty>::new(b, p.clone());
    let mut out: Vec<(&'static str, Limbs, Limbs)> = vec![];
    let mut push = |name: &'static str, v: &T::Monty| out.push((name, int_limbs(&Retrieve::retrieve(v)), int_limbs(Monty::as_montgomery(v))));
    let s0 = x.clone() + y.clone();
    push("x + y", &s0);
    let s1 = s0 + &x;
    push("(x + y) + &x", &s1);
    let mut s2 = s1.clone();
    s2 += y.clone();
    push("+= y", &s2);
    s2 += &y;
    push("+= &y", &s2);
    let d0 = s2.clone() - x.clone();
    push("- x", &d0);
    let d1 = d0 - &y;
    push("- &y", &d1);
    let mut d2 = d1.clone();
    d2 -= x.clone();
    push("-= x", &d2);
    d2 -= &x;
    push("-= &x", &d2);
    let m0 = d2.clone() * s1.clone();
    push("* s1", &m0);
    let m1 = m0 * &x;
    push("* &x", &m1);
    let mut m2 = m1.clone();
    m2 *= y.clone();
    push("*= y", &m2);
    m2 *= &s1;
    push("*= &s1", &m2);
    let n0 = -m2;
    push("neg", &n0);
    let q0 = Square::square(&n0);
    push("Square::square", &q0);
    let mut q1 = q0.clone();
    SquareAssign::square_assign(&mut q1);
    push("SquareAssign::square_assign", &q1);
    let e0 = Monty::double(&q1);
    push("Monty::double", &e0);
    let h0 = Monty::div_by_2(&(e0.clone() + <T::Monty as Monty>::one(p.clone())));
    push("Monty::div_by_2(.. + one)", &h0);
    let mut h1 = h0.clone();
    Monty::div_by_2_assign(&mut h1);
    push("Monty::div_by_2_assign", &h1);
    let z0 = h1 + <T::Monty as Monty>::zero(p);
    push("+ zero", &z0);
    out
}

/// the same expression in Z/mZ
fn model_steps(a: &BigUint, b: &BigUint, m: &BigUint) -> Vec<BigUint> {
    let (x, y) = (a % m, b % m);
    let mut out = vec![];
    let s0 = m_add(&x, &y, m);
    out.push(s0.clone());
    let s1 = m_add(&s0, &x, m);
    out.push(s1.clone());
    let mut s2 = m_add(&s1, &y, m);
    out.push(s2.clone());
    s2 = m_add(&s2, &y, m);
    out.push(s2.clone());
    let d0 = m_sub(&s2, &x, m);
    out.push(d0.clone());
    let d1 = m_sub(&d0, &y, m);
    out.push(d1.clone());
    let mut d2 = m_sub(&d1, &x, m);
    out.push(d2.clone());
    d2 = m_sub(&d2, &x, m);
    out.push(d2.clone());
    let m0 = m_mul(&d2, &s1, m);
    out.push(m0.clone());
    let m1 = m_mul(&m0, &x, m);
    out.push(m1.clone());
    let mut m2 = m_mul(&m1, &y, m);
    out.push(m2.clone());
    m2 = m_mul(&m2, &s1, m);
    out.push(m2.clone());
    let n0 = m_neg(&m2, m);
    out.push(n0.clone());
    let q0 = m_mul(&n0, &n0, m);
    out.push(q0.clone());
    let q1 = m_mul(&q0, &q0, m);
    out.push(q1.clone());
    let e0 = m_add(&q1, &q1, m);
    out.push(e0.clone());
    let h0 = m_half(&m_add(&e0, &(BigUint::from(1u32) % m), m), m);
    out.push(h0.clone());
    let h1 = m_half(&h0, m);
    out.push(h1.clone());
    out.push(h1);
    out
}

fn generic_check(tag: &str, got: Vec<(&'static str, Limbs, Limbs)>, a: &[u64], b: &[u64], def: &ParamsDef) -> CaseResult {
    let want = model_steps(&big(a), &big(b), &def.m);
    vensure!(got.len() == want.len(), "harness: step lists differ in length");
    for (i, ((name, retr, mont), w)) in got.iter().zip(want.iter()).enumerate() {
        veq!(*retr, limbs_exact(w, def.n), "{tag}: step {i} [{name}]: retrieve() != value of the expression in Z/mZ");
        veq!(*mont, limbs_exact(&def.mont(w), def.n), "{tag}: step {i} [{name}]: stored representation != value*R mod m");
    }
    Ok(())
}

fn generic_record(c: &mut Case, ml: &[u64], class: &'static str, a: &[u64], b: &[u64], ac: &'static str, bc: &'static str) {
    c.limbs("m", ml);
    c.limbs("a", a);
    c.limbs("b", b);
    c.label(format!("m: {class}"));
    c.label(format!("new: {ac}"));
    c.label(format!("new: {bc}"));
    // the expression is a history of 19 operations with multiplications followed by add / sub
    c.label("history: mul then add/sub, len >= 8");
    c.nontrivial(true);
}

pub fn generic_fixed<const N: usize>(t: &mut Tape, c: &mut Case) -> CaseResult {
    let (ml, class) = hist::modulus(t, N);
    let def = ParamsDef::new(&ml);
    let (a, ac) = hist::value(t, &def);
    let (b, bc) = hist::value(t, &def);
    generic_record(c, &ml, class, &a, &b, ac, bc);
    let odd = Odd::new(uint::<N>(&ml)).expect("harness: odd modulus");
    let got = total("fn<T: Integer> over T::Monty with T = Uint", || generic_steps::<Uint<N>>(odd, uint::<N>(&a), uint::<N>(&b)))?;
    generic_check(&format!("fn<T: Integer> over T::Monty, T = Uint<{N}>"), got, &a, &b, &def)
}

pub fn generic_boxed(max: usize) -> impl Fn(&mut Tape, &mut Case) -> CaseResult {
    move |t, c| {
        let n = boxed_len(t, max);
        let (ml, class) = hist::modulus(t, n);
        let def = ParamsDef::new(&ml);
        let (a, ac) = hist::value(t, &def);
        let (b, bc) = hist::value(t, &def);
        c.num("limbs", n as u64);
        generic_record(c, &ml, class, &a, &b, ac, bc);
        let got = total("fn<T: Integer> over T::Monty with T = BoxedUint", || generic_steps::<BoxedUint>(params::boxed_odd(&ml), boxed(&a), boxed(&b)))?;
        generic_check(&format!("fn<T: Integer> over T::Monty, T = BoxedUint ({n} limbs)"), got, &a, &b, &def)
    }
}

// ------------------------------------------------------------------------------------------------

macro_rules! widths {
    ($v:ident, $qh:expr, $qp:expr, $qr:expr; $(($n:literal, $w:literal)),*) => { $(
        $v.push(SubCheck::new(format!("surface/history/dyn+boxed/U{}", 64 * $n), $qh, crate::dyn_history::<$n, $w>).tape(1400).thorough(60));
        $v.push(SubCheck::new(format!("surface/params/fixed/U{}", 64 * $n), $qp, params::fixed_params::<$n, $w>).tape(64 + 8 * $n));
        $v.push(SubCheck::new(format!("surface/reduction/direct/U{}", 64 * $n), $qr, crate::direct::reduction_direct::<$n>).tape(64 + 8 * $n));
        $v.push(SubCheck::new(format!("surface/mul_mod/fixed/U{}", 64 * $n), $qr, crate::direct::mul_mod_fixed::<$n, $w>).tape(64 + 8 * $n));
    )* };
}
macro_rules! consts {
    ($v:ident; $(($m:ident, $n:literal, $w:literal)),*) => { $(
        $v.push(SubCheck::new(concat!("surface/history/const+dyn+boxed/", stringify!($m)), 1500, crate::const_history::<$m, $n>).tape(1400).thorough(60));
        $v.push(SubCheck::new(concat!("surface/params/const/", stringify!($m)), 1, params::const_params::<$m, $n, $w>).tape(8).thorough(1));
        $v.push(SubCheck::new(concat!("surface/construct/serde/const/", stringify!($m)), 4_000, crate::extra::serde_construct::<$m, $n>).tape(16 + 2 * $n));
        $v.push(SubCheck::new(concat!("surface/const-select+zeroize+random/", stringify!($m)), 4_000, const_forms::<$m, $n>).tape(64 + 8 * $n));
    )* };
}
macro_rules! selects {
    ($v:ident, $q:expr; $($n:literal),*) => { $(
        $v.push(SubCheck::new(format!("surface/select/dyn/U{}", 64 * $n), $q, select_dyn::<$n>).tape(160 + 16 * $n));
        $v.push(SubCheck::new(format!("surface/generic-integer-monty/U{}", 64 * $n), $q, generic_fixed::<$n>).tape(96 + 8 * $n));
    )* };
}

pub fn subchecks() -> Vec<SubCheck> {
    use crate::moduli::{M128ZeroHigh, M256P256Order, M64Three};
    let mut v = vec![];
    widths!(v, 4_000, 2_000, 10_000; (5, 10), (7, 14));
    consts!(v; (S320Random, 5, 10), (S448Half1, 7, 14));
    selects!(v, 12_000; 1, 2, 3, 4, 5);
    selects!(v, 4_000; 8);
    v.push(SubCheck::new("surface/generic-integer-monty/boxed/1..=17", 12_000, generic_boxed(17)).tape(400));
    v.push(SubCheck::new("surface/const-select+zeroize+random/M64Three", 4_000, const_forms::<M64Three, 1>).tape(80));
    v.push(SubCheck::new("surface/const-select+zeroize+random/M128ZeroHigh", 4_000, const_forms::<M128ZeroHigh, 2>).tape(80));
    v.push(SubCheck::new("surface/const-select+zeroize+random/M256P256Order", 4_000, const_forms::<M256P256Order, 4>).tape(96));
    v
}
