//! Moduli compiled into the harness with `impl_modulus!` (generated list; values are plain hex).
#![allow(missing_docs)]
use crate::reps::ConstMod;
use crypto_bigint::modular::{ConstMontyForm, ConstMontyParams};
use crypto_bigint::{const_monty_form, impl_modulus, Uint, U64, U128, U192, U256, U384, U512, U1024, U2048};

macro_rules! modulus {
    ($name:ident, $ty:ty, $n:literal, $label:literal, $hex:literal) => {
        impl_modulus!($name, $ty, $hex);
        impl ConstMod<$n> for $name {
            const LABEL: &'static str = $label;
            fn via_macro(v: &Uint<$n>) -> ConstMontyForm<Self, $n> {
                let x: $ty = *v;
                const_monty_form!(x, $name)
            }
        }
    };
}

modulus!(M64One, U64, 1, "m=1", "0000000000000001");
modulus!(M64Three, U64, 1, "m=3", "0000000000000003");
modulus!(M64Max, U64, 1, "m=2^B-1", "ffffffffffffffff");
modulus!(M64Half1, U64, 1, "m=2^(B-1)+1", "8000000000000001");
modulus!(M64Goldilocks, U64, 1, "m=small prime", "ffffffff00000001");
modulus!(M128Third, U128, 2, "m~2^B/3", "55555555555555555555555555555555");
modulus!(M128ZeroHigh, U128, 2, "m zero high limbs", "0000000000000000ffffffffffffffc5");
modulus!(M192Quarter, U192, 3, "m~2^B/4", "400000000000000000000000000000000000000000000001");
modulus!(M256P256Order, U256, 4, "m=P-256 order", "ffffffff00000000ffffffffffffffffbce6faada7179e84f3b9cac2fc632551");
modulus!(M256Max, U256, 4, "m=2^B-1", "ffffffffffffffffffffffffffffffffffffffffffffffffffffffffffffffff");
modulus!(M256Half1, U256, 4, "m=2^(B-1)+1", "8000000000000000000000000000000000000000000000000000000000000001");
modulus!(M384ZeroHigh, U384, 6, "m zero high limbs", "000000000000000000000000000000007fffffffffffffffffffffffffffffffffffffffffffffffffffffffffffffed");
modulus!(M512Third, U512, 8, "m~2^B/3", "55555555555555555555555555555555555555555555555555555555555555555555555555555555555555555555555555555555555555555555555555555555");
modulus!(M1024Random, U1024, 16, "m random odd", "c24f6aa83bf36a147c2f7ad016edc5d467164890d49d0ac1e5b8063831360a4092b850ad7eb72f8263f65da874007cb47cc661e97589ca4a07c15471a4517d6c6694f229359b154881a0d5b3ffc6e35ccfaf00103f584ad4230824d215ceb3a10b3510b0b46ee1da317017a6205738d16018366cf658f7a75ed34fe53a096533");
modulus!(M2048Max, U2048, 32, "m=2^B-1", "ffffffffffffffffffffffffffffffffffffffffffffffffffffffffffffffffffffffffffffffffffffffffffffffffffffffffffffffffffffffffffffffffffffffffffffffffffffffffffffffffffffffffffffffffffffffffffffffffffffffffffffffffffffffffffffffffffffffffffffffffffffffffffffffffffffffffffffffffffffffffffffffffffffffffffffffffffffffffffffffffffffffffffffffffffffffffffffffffffffffffffffffffffffffffffffffffffffffffffffffffffffffffffffffffffffffffffffffffffffffffffffffffffffffffffffffffffffffffffffffffffffffffffffffffffffffffffffffff");
modulus!(M2048Three, U2048, 32, "m=3", "00000000000000000000000000000000000000000000000000000000000000000000000000000000000000000000000000000000000000000000000000000000000000000000000000000000000000000000000000000000000000000000000000000000000000000000000000000000000000000000000000000000000000000000000000000000000000000000000000000000000000000000000000000000000000000000000000000000000000000000000000000000000000000000000000000000000000000000000000000000000000000000000000000000000000000000000000000000000000000000000000000000000000000000000000000003");

/// Invoke `$mac!(Type, limbs, "name")` for every compiled modulus.
#[macro_export]
macro_rules! for_each_modulus {
    ($mac:ident, $($extra:tt)*) => {
        $mac!($($extra)* $crate::moduli::M64One, 1, "M64One");
        $mac!($($extra)* $crate::moduli::M64Three, 1, "M64Three");
        $mac!($($extra)* $crate::moduli::M64Max, 1, "M64Max");
        $mac!($($extra)* $crate::moduli::M64Half1, 1, "M64Half1");
        $mac!($($extra)* $crate::moduli::M64Goldilocks, 1, "M64Goldilocks");
        $mac!($($extra)* $crate::moduli::M128Third, 2, "M128Third");
        $mac!($($extra)* $crate::moduli::M128ZeroHigh, 2, "M128ZeroHigh");
        $mac!($($extra)* $crate::moduli::M192Quarter, 3, "M192Quarter");
        $mac!($($extra)* $crate::moduli::M256P256Order, 4, "M256P256Order");
        $mac!($($extra)* $crate::moduli::M256Max, 4, "M256Max");
        $mac!($($extra)* $crate::moduli::M256Half1, 4, "M256Half1");
        $mac!($($extra)* $crate::moduli::M384ZeroHigh, 6, "M384ZeroHigh");
        $mac!($($extra)* $crate::moduli::M512Third, 8, "M512Third");
        $mac!($($extra)* $crate::moduli::M1024Random, 16, "M1024Random");
        $mac!($($extra)* $crate::moduli::M2048Max, 32, "M2048Max");
        $mac!($($extra)* $crate::moduli::M2048Three, 32, "M2048Three");
    };
}
