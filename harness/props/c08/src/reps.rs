//! The three implementations of Montgomery-form arithmetic behind one interpreter interface, and
//! the history runner that checks every step against the Z/mZ model.
//!
//! NOTE: `core::ops::{Add, Sub, Mul, Neg}` are deliberately *not* imported here, so that
//! `<T>::add(a, b)` etc. resolve to the inherent methods; the operator traits are exercised through
//! the operator syntax.

use crate::hist::*;
use crate::model::ParamsDef;
use crypto_bigint::modular::{BoxedMontyForm, BoxedMontyParams, ConstMontyForm, ConstMontyParams, MontyForm, MontyParams, Retrieve};
use crypto_bigint::{ConstZero, Monty, MontyMultiplier, Square, SquareAssign, Uint};
use std::sync::Arc;
use subtle::{Choice, ConditionallySelectable, ConstantTimeEq};
use vmodel::*;

pub type Out<T> = (T, &'static str);

// ------------------------------------------------------------------------------------------------
// forms shared by all three types (same method names / operators)

pub trait Arith: Sized + Clone {
    fn add_c(a: &Self, b: &Self, k: u64) -> Out<Self>;
    fn sub_c(a: &Self, b: &Self, k: u64) -> Out<Self>;
    fn mul_c(a: &Self, b: &Self, k: u64) -> Out<Self>;
    fn neg_c(a: &Self, k: u64) -> Out<Self>;
    fn square_c(a: &Self, k: u64) -> Out<Self>;
    fn double_c(a: &Self) -> Out<Self>;
    fn half_c(a: &Self) -> Out<Self>;
}
pub const BIN_FORMS: u64 = 7;
pub const NEG_FORMS: u64 = 3;
pub const SQ_FORMS: u64 = 2;

macro_rules! binop_forms {
    ($T:ty, $a:ident, $b:ident, $k:ident, $method:ident, $op:tt, $opa:tt, $name:literal) => {
        match $k {
            0 => (<$T>::$method($a, $b), concat!("inherent ", $name)),
            1 => ($a $op $b, concat!("&x ", stringify!($op), " &y")),
            2 => ($a $op $b.clone(), concat!("&x ", stringify!($op), " y")),
            3 => ($a.clone() $op $b, concat!("x ", stringify!($op), " &y")),
            4 => ($a.clone() $op $b.clone(), concat!("x ", stringify!($op), " y")),
            5 => {
                let mut x = $a.clone();
                x $opa $b;
                (x, concat!("x ", stringify!($opa), " &y"))
            }
            _ => {
                let mut x = $a.clone();
                x $opa $b.clone();
                (x, concat!("x ", stringify!($opa), " y"))
            }
        }
    };
}

macro_rules! impl_arith {
    ([$($g:tt)*] $T:ty) => {
        impl<$($g)*> Arith for $T {
            fn add_c(a: &Self, b: &Self, k: u64) -> Out<Self> {
                binop_forms!($T, a, b, k, add, +, +=, "add")
            }
            fn sub_c(a: &Self, b: &Self, k: u64) -> Out<Self> {
                binop_forms!($T, a, b, k, sub, -, -=, "sub")
            }
            fn mul_c(a: &Self, b: &Self, k: u64) -> Out<Self> {
                binop_forms!($T, a, b, k, mul, *, *=, "mul")
            }
            fn neg_c(a: &Self, k: u64) -> Out<Self> {
                match k {
                    0 => (<$T>::neg(a), "inherent neg"),
                    1 => (-a, "-&x"),
                    _ => (-a.clone(), "-x"),
                }
            }
            fn square_c(a: &Self, k: u64) -> Out<Self> {
                match k {
                    0 => (<$T>::square(a), "inherent square"),
                    _ => (<$T as Square>::square(a), "Square::square"),
                }
            }
            fn double_c(a: &Self) -> Out<Self> {
                (<$T>::double(a), "inherent double")
            }
            fn half_c(a: &Self) -> Out<Self> {
                (<$T>::div_by_2(a), "inherent div_by_2")
            }
        }
    };
}
impl_arith!([const N: usize] MontyForm<N>);
impl_arith!([] BoxedMontyForm);
impl_arith!([P: ConstMontyParams<N>, const N: usize] ConstMontyForm<P, N>);

// ------------------------------------------------------------------------------------------------
// forms available through the `Monty` trait (MontyForm, BoxedMontyForm), written once

fn monty_mul_mm<M: Monty>(a: &M, b: &M, p: &M::Params) -> Out<M> {
    let mut mm = M::Multiplier::from(p);
    let mut x = a.clone();
    mm.mul_assign(&mut x, b);
    (x, "MontyMultiplier::mul_assign")
}
fn monty_square_extra<M: Monty>(a: &M, p: &M::Params, k: u64) -> Out<M> {
    match k {
        0 => {
            let mut x = a.clone();
            SquareAssign::square_assign(&mut x);
            (x, "SquareAssign::square_assign")
        }
        _ => {
            let mut mm = M::Multiplier::from(p);
            let mut x = a.clone();
            mm.square_assign(&mut x);
            (x, "MontyMultiplier::square_assign")
        }
    }
}
/// ((a·b)²)·a with ONE multiplier object reused for the three in-place operations
fn monty_chain<M: Monty>(a: &M, b: &M, p: &M::Params, k: u64) -> Out<M> {
    let mut mm = M::Multiplier::from(p);
    let mut x = a.clone();
    if k == 0 {
        mm.mul_assign(&mut x, b);
        mm.square_assign(&mut x);
        mm.mul_assign(&mut x, a);
        (x, "one multiplier: mul_assign, square_assign, mul_assign")
    } else {
        // a clone of a used multiplier must behave like a fresh one
        mm.mul_assign(&mut x, b);
        let mut mm2 = mm.clone();
        mm2.square_assign(&mut x);
        mm.mul_assign(&mut x, a);
        (x, "multiplier + its clone: mul_assign, square_assign, mul_assign")
    }
}
fn monty_trait_forms<M: Monty>(op: &Op, regs: &[M], p: &M::Params, k: u64) -> Out<M> {
    let a = &regs[op.a];
    match op.kind {
        Kind::Double => (Monty::double(a), "Monty::double"),
        Kind::DivBy2 => match k {
            0 => (Monty::div_by_2(a), "Monty::div_by_2"),
            _ => {
                let mut x = a.clone();
                Monty::div_by_2_assign(&mut x);
                (x, "Monty::div_by_2_assign")
            }
        },
        Kind::Zero => (<M as Monty>::zero(p.clone()), "Monty::zero"),
        Kind::One => (<M as Monty>::one(p.clone()), "Monty::one"),
        Kind::CopyFrom => {
            let mut x = regs[op.dst].clone();
            x.copy_montgomery_from(a);
            (x, "Monty::copy_montgomery_from")
        }
        _ => unreachable!("harness: no trait form for {:?}", op.kind),
    }
}

// ------------------------------------------------------------------------------------------------

pub trait Rep: Arith + PartialEq + core::fmt::Debug {
    type P: Clone;
    const NAME: &'static str;
    /// the new value of the destination register and the name of the API form used
    fn exec(op: &Op, regs: &[Self], p: &Self::P) -> Out<Self>;
    /// the stored Montgomery representation, through the accessor without debug assertions
    fn mont(&self) -> Limbs;
    /// every other accessor of the representation
    fn accessors(&self) -> Vec<(&'static str, Limbs)>;
    fn retrieves(&self) -> Vec<(&'static str, Limbs)>;
    /// (name, value) of every "is this zero" style query
    fn zero_queries(&self) -> Vec<(&'static str, bool)>;
    fn ct_eq_(&self, _o: &Self) -> Option<bool> {
        None
    }
    fn params_ok(&self, _p: &Self::P) -> bool {
        true
    }
    /// `one` built with every constructor form (for the m = 1 probe)
    fn ones(p: &Self::P) -> Vec<(&'static str, Self)>;
    fn zero_plain(p: &Self::P) -> Self;
}

// ---- MontyForm<N> ----

impl<const N: usize> Rep for MontyForm<N> {
    type P = MontyParams<N>;
    const NAME: &'static str = "MontyForm";
    fn exec(op: &Op, regs: &[Self], p: &Self::P) -> Out<Self> {
        let (a, b) = (&regs[op.a], &regs[op.b]);
        let f = op.form;
        match op.kind {
            Kind::New => {
                let v = uint::<N>(&op.val);
                match f % 2 {
                    0 => (MontyForm::new(&v, *p), "MontyForm::new"),
                    _ => (<Self as Monty>::new(v, *p), "Monty::new"),
                }
            }
            Kind::Zero => match f % 2 {
                0 => (MontyForm::zero(*p), "MontyForm::zero"),
                _ => monty_trait_forms(op, regs, p, 0),
            },
            Kind::One => match f % 2 {
                0 => (MontyForm::one(*p), "MontyForm::one"),
                _ => monty_trait_forms(op, regs, p, 0),
            },
            Kind::Add => Self::add_c(a, b, f % BIN_FORMS),
            Kind::Sub => Self::sub_c(a, b, f % BIN_FORMS),
            Kind::Mul => match f % (BIN_FORMS + 1) {
                k if k < BIN_FORMS => Self::mul_c(a, b, k),
                _ => monty_mul_mm(a, b, p),
            },
            Kind::Neg => Self::neg_c(a, f % NEG_FORMS),
            Kind::Square => match f % (SQ_FORMS + 2) {
                k if k < SQ_FORMS => Self::square_c(a, k),
                k => monty_square_extra(a, p, k - SQ_FORMS),
            },
            Kind::Double => match f % 2 {
                0 => Self::double_c(a),
                _ => monty_trait_forms(op, regs, p, 0),
            },
            Kind::DivBy2 => match f % 3 {
                0 => Self::half_c(a),
                k => monty_trait_forms(op, regs, p, k - 1),
            },
            Kind::Select => {
                let ch = Choice::from(op.choice as u8);
                match f % 3 {
                    0 => (Self::conditional_select(a, b, ch), "ConditionallySelectable::conditional_select"),
                    1 => {
                        let mut x = *a;
                        x.conditional_assign(b, ch);
                        (x, "ConditionallySelectable::conditional_assign")
                    }
                    _ => {
                        let (mut x, mut y) = (*a, *b);
                        Self::conditional_swap(&mut x, &mut y, ch);
                        (x, "ConditionallySelectable::conditional_swap")
                    }
                }
            }
            Kind::CopyFrom => monty_trait_forms(op, regs, p, 0),
            Kind::FromMont => match f % 2 {
                0 => (MontyForm::from_montgomery(a.to_montgomery(), *p), "MontyForm::from_montgomery(to_montgomery)"),
                _ => {
                    let mut x = MontyForm::zero(*p);
                    *x.as_montgomery_mut() = *a.as_montgomery();
                    (x, "MontyForm::as_montgomery_mut")
                }
            },
            Kind::Renew => match f % 2 {
                0 => (MontyForm::new(&a.retrieve(), *p), "MontyForm::new(retrieve)"),
                _ => (<Self as Monty>::new(Retrieve::retrieve(a), *p), "Monty::new(Retrieve::retrieve)"),
            },
            Kind::MulChain => monty_chain(a, b, p, f % 2),
        }
    }
    fn mont(&self) -> Limbs {
        ul(Monty::as_montgomery(self))
    }
    fn accessors(&self) -> Vec<(&'static str, Limbs)> {
        vec![("MontyForm::as_montgomery", ul(self.as_montgomery())), ("MontyForm::to_montgomery", ul(&self.to_montgomery()))]
    }
    fn retrieves(&self) -> Vec<(&'static str, Limbs)> {
        vec![("MontyForm::retrieve", ul(&self.retrieve())), ("Retrieve::retrieve", ul(&Retrieve::retrieve(self)))]
    }
    fn zero_queries(&self) -> Vec<(&'static str, bool)> {
        vec![]
    }
    fn ct_eq_(&self, o: &Self) -> Option<bool> {
        Some(bool::from(self.ct_eq(o)))
    }
    fn params_ok(&self, p: &Self::P) -> bool {
        self.params() == p && Monty::params(self) == p
    }
    fn ones(p: &Self::P) -> Vec<(&'static str, Self)> {
        vec![("MontyForm::one", MontyForm::one(*p)), ("Monty::one", <Self as Monty>::one(*p))]
    }
    fn zero_plain(p: &Self::P) -> Self {
        MontyForm::zero(*p)
    }
}

// ---- BoxedMontyForm ----

impl Rep for BoxedMontyForm {
    type P = BoxedMontyParams;
    const NAME: &'static str = "BoxedMontyForm";
    fn exec(op: &Op, regs: &[Self], p: &Self::P) -> Out<Self> {
        let (a, b) = (&regs[op.a], &regs[op.b]);
        let f = op.form;
        match op.kind {
            Kind::New => {
                let v = boxed(&op.val);
                match f % 3 {
                    0 => (BoxedMontyForm::new(v, p.clone()), "BoxedMontyForm::new"),
                    1 => (BoxedMontyForm::new_with_arc(v, Arc::new(p.clone())), "BoxedMontyForm::new_with_arc"),
                    _ => (<Self as Monty>::new(v, p.clone()), "Monty::new"),
                }
            }
            Kind::Zero => match f % 2 {
                0 => (BoxedMontyForm::zero(p.clone()), "BoxedMontyForm::zero"),
                _ => monty_trait_forms(op, regs, p, 0),
            },
            Kind::One => match f % 2 {
                0 => (BoxedMontyForm::one(p.clone()), "BoxedMontyForm::one"),
                _ => monty_trait_forms(op, regs, p, 0),
            },
            Kind::Add => Self::add_c(a, b, f % BIN_FORMS),
            Kind::Sub => Self::sub_c(a, b, f % BIN_FORMS),
            Kind::Mul => match f % (BIN_FORMS + 1) {
                k if k < BIN_FORMS => Self::mul_c(a, b, k),
                _ => monty_mul_mm(a, b, p),
            },
            Kind::Neg => Self::neg_c(a, f % NEG_FORMS),
            Kind::Square => match f % (SQ_FORMS + 2) {
                k if k < SQ_FORMS => Self::square_c(a, k),
                k => monty_square_extra(a, p, k - SQ_FORMS),
            },
            Kind::Double => match f % 2 {
                0 => Self::double_c(a),
                _ => monty_trait_forms(op, regs, p, 0),
            },
            Kind::DivBy2 => match f % 4 {
                0 => Self::half_c(a),
                1 => {
                    let mut x = a.clone();
                    BoxedMontyForm::div_by_2_assign(&mut x);
                    (x, "BoxedMontyForm::div_by_2_assign")
                }
                k => monty_trait_forms(op, regs, p, k - 2),
            },
            // BoxedMontyForm has no conditional-selection API: keep the history aligned with a clone
            Kind::Select => (if op.choice { b.clone() } else { a.clone() }, "(no select API) clone"),
            Kind::CopyFrom => monty_trait_forms(op, regs, p, 0),
            Kind::FromMont => (BoxedMontyForm::from_montgomery(a.to_montgomery(), p.clone()), "BoxedMontyForm::from_montgomery(to_montgomery)"),
            Kind::Renew => match f % 2 {
                0 => (BoxedMontyForm::new(a.retrieve(), p.clone()), "BoxedMontyForm::new(retrieve)"),
                _ => (<Self as Monty>::new(Retrieve::retrieve(a), p.clone()), "Monty::new(Retrieve::retrieve)"),
            },
            Kind::MulChain => monty_chain(a, b, p, f % 2),
        }
    }
    fn mont(&self) -> Limbs {
        bl(Monty::as_montgomery(self))
    }
    fn accessors(&self) -> Vec<(&'static str, Limbs)> {
        vec![("BoxedMontyForm::as_montgomery", bl(self.as_montgomery())), ("BoxedMontyForm::to_montgomery", bl(&self.to_montgomery()))]
    }
    fn retrieves(&self) -> Vec<(&'static str, Limbs)> {
        vec![("BoxedMontyForm::retrieve", bl(&self.retrieve())), ("Retrieve::retrieve", bl(&Retrieve::retrieve(self)))]
    }
    fn zero_queries(&self) -> Vec<(&'static str, bool)> {
        vec![("BoxedMontyForm::is_zero", bool::from(self.is_zero())), ("!BoxedMontyForm::is_nonzero", !bool::from(self.is_nonzero()))]
    }
    fn params_ok(&self, p: &Self::P) -> bool {
        self.params() == p && Monty::params(self) == p && self.bits_precision() == p.bits_precision()
    }
    fn ones(p: &Self::P) -> Vec<(&'static str, Self)> {
        vec![("BoxedMontyForm::one", BoxedMontyForm::one(p.clone())), ("Monty::one", <Self as Monty>::one(p.clone()))]
    }
    fn zero_plain(p: &Self::P) -> Self {
        BoxedMontyForm::zero(p.clone())
    }
}

// ---- ConstMontyForm<P, N> ----

/// A compiled-in modulus: `ConstMontyParams` plus the `const_monty_form!` macro form, which needs
/// the concrete modulus identifier.
pub trait ConstMod<const N: usize>: ConstMontyParams<N> {
    const LABEL: &'static str;
    fn via_macro(v: &Uint<N>) -> ConstMontyForm<Self, N>;
}

impl<M: ConstMod<N>, const N: usize> Rep for ConstMontyForm<M, N> {
    type P = ();
    const NAME: &'static str = "ConstMontyForm";
    fn exec(op: &Op, regs: &[Self], _p: &()) -> Out<Self> {
        let (a, b) = (&regs[op.a], &regs[op.b]);
        let f = op.form;
        match op.kind {
            Kind::New => {
                let v = uint::<N>(&op.val);
                match f % 2 {
                    0 => (ConstMontyForm::new(&v), "ConstMontyForm::new"),
                    _ => (M::via_macro(&v), "const_monty_form!"),
                }
            }
            Kind::Zero => match f % 4 {
                0 => (Self::ZERO, "ConstMontyForm::ZERO"),
                1 => (Self::default(), "Default::default"),
                2 => (<Self as ConstZero>::ZERO, "ConstZero::ZERO"),
                _ => (<Self as num_traits::Zero>::zero(), "num_traits::Zero::zero"),
            },
            Kind::One => (Self::ONE, "ConstMontyForm::ONE"),
            Kind::Add => Self::add_c(a, b, f % BIN_FORMS),
            Kind::Sub => Self::sub_c(a, b, f % BIN_FORMS),
            Kind::Mul => Self::mul_c(a, b, f % BIN_FORMS),
            Kind::Neg => Self::neg_c(a, f % NEG_FORMS),
            Kind::Square => Self::square_c(a, f % SQ_FORMS),
            Kind::Double => Self::double_c(a),
            Kind::DivBy2 => Self::half_c(a),
            Kind::Select => {
                let ch = Choice::from(op.choice as u8);
                match f % 3 {
                    0 => (Self::conditional_select(a, b, ch), "ConditionallySelectable::conditional_select"),
                    1 => {
                        let mut x = *a;
                        x.conditional_assign(b, ch);
                        (x, "ConditionallySelectable::conditional_assign")
                    }
                    _ => {
                        let (mut x, mut y) = (*a, *b);
                        Self::conditional_swap(&mut x, &mut y, ch);
                        (x, "ConditionallySelectable::conditional_swap")
                    }
                }
            }
            Kind::CopyFrom => (*a, "copy"),
            Kind::FromMont => match f % 2 {
                0 => (ConstMontyForm::from_montgomery(a.to_montgomery()), "ConstMontyForm::from_montgomery(to_montgomery)"),
                _ => {
                    let mut x = Self::ZERO;
                    *x.as_montgomery_mut() = *a.as_montgomery();
                    (x, "ConstMontyForm::as_montgomery_mut")
                }
            },
            Kind::Renew => match f % 2 {
                0 => (ConstMontyForm::new(&a.retrieve()), "ConstMontyForm::new(retrieve)"),
                _ => (ConstMontyForm::new(&Retrieve::retrieve(a)), "ConstMontyForm::new(Retrieve::retrieve)"),
            },
            Kind::MulChain => (<Self>::mul(&<Self>::square(&<Self>::mul(a, b)), a), "inherent mul, square, mul"),
        }
    }
    fn mont(&self) -> Limbs {
        ul(self.as_montgomery())
    }
    fn accessors(&self) -> Vec<(&'static str, Limbs)> {
        vec![("ConstMontyForm::to_montgomery", ul(&self.to_montgomery()))]
    }
    fn retrieves(&self) -> Vec<(&'static str, Limbs)> {
        vec![("ConstMontyForm::retrieve", ul(&self.retrieve())), ("Retrieve::retrieve", ul(&Retrieve::retrieve(self)))]
    }
    fn zero_queries(&self) -> Vec<(&'static str, bool)> {
        vec![("num_traits::Zero::is_zero", num_traits::Zero::is_zero(self))]
    }
    fn ct_eq_(&self, o: &Self) -> Option<bool> {
        Some(bool::from(self.ct_eq(o)))
    }
    fn ones(_p: &()) -> Vec<(&'static str, Self)> {
        vec![("ConstMontyForm::ONE", Self::ONE)]
    }
    fn zero_plain(_p: &()) -> Self {
        Self::ZERO
    }
}

// ------------------------------------------------------------------------------------------------
// runner

#[derive(Default)]
pub struct RunState {
    /// the F-08 signature was observed (modulus 1: `one` stored as 1) and `one` was replaced by
    /// zero so that the rest of the history still runs
    pub f08: Option<String>,
}

/// F-08 probe for modulus 1: every `one` constructor must give the canonical value 0; the exact
/// known wrong result is "stored representation == 1", and then: retrieve() == 0 for the
/// fixed-width forms (their reduction corrects it), retrieve() == 1 for the boxed form, whose
/// inherent accessors hit their canonicity debug assertion in the checked profile. Anything else
/// is an ordinary failure.
fn probe_one_mod1<R: Rep>(p: &R::P, n: usize, st: &mut RunState) -> CaseResult {
    let mut one_l = vec![0u64; n];
    one_l[0] = 1;
    let zero_l = vec![0u64; n];
    for (name, x) in total("one (m = 1)", || R::ones(p))? {
        let mont = total("as_montgomery of one (m = 1)", || x.mont())?;
        if mont == zero_l {
            let rs = total("retrieve of one (m = 1)", || x.retrieves())?;
            for (rn, r) in rs {
                veq!(r, zero_l, "{}: {rn} of {name} with modulus 1", R::NAME);
            }
            continue;
        }
        if mont != one_l {
            vfail!("{}: {name} with modulus 1 stores {}, want 0", R::NAME, hex(&mont));
        }
        // signature: stored representation is exactly 1 (non-canonical, >= m)
        let mut detail = format!("{}: {name} with modulus 1 stores the non-canonical representation 1 (R mod 1 = 0)", R::NAME);
        let boxed_rep = R::NAME == "BoxedMontyForm";
        // fixed-width reduction still corrects the value on the way out; the boxed `mul_by_one`
        // does not (documented there as "no reduction is required")
        let want_retr = if boxed_rep { &one_l } else { &zero_l };
        for (rn, r) in total("retrieve of one (m = 1)", || x.retrieves())? {
            if r != *want_retr {
                vfail!("{}: {rn} of {name} with modulus 1 returned {}; the F-08 signature has {}", R::NAME, hex(&r), hex(want_retr));
            }
            if boxed_rep {
                detail.push_str(&format!("; {rn} returns 1"));
            }
        }
        match guard(|| x.accessors()) {
            Ok(acc) => {
                for (an, av) in acc {
                    veq!(av, one_l, "{}: accessor {an} of {name} with modulus 1", R::NAME);
                }
            }
            Err(pm) => {
                vensure!(
                    boxed_rep && PROFILE == "dbg" && pm.contains("assertion failed: self.montgomery_form < self.params.modulus"),
                    "{}: accessor of {name} (m = 1) panicked: {pm}",
                    R::NAME
                );
                detail.push_str("; inherent as_montgomery()/to_montgomery() hit their canonicity debug assertion");
            }
        }
        if st.f08.is_none() {
            st.f08 = Some(detail);
        }
    }
    Ok(())
}

/// Run the history on one representation; returns the value produced by every step.
pub fn run<R: Rep>(h: &History, tr: &Trace, def: &ParamsDef, p: &R::P, st: &mut RunState) -> Result<Vec<R>, Fail> {
    let n = def.n;
    let mut regs: Vec<R> = (0..NREGS).map(|_| R::zero_plain(p)).collect();
    let mut outs: Vec<R> = Vec::with_capacity(h.ops.len());
    for (i, (op, step)) in h.ops.iter().zip(tr.steps.iter()).enumerate() {
        let ctx = |form: &str| format!("{} step {} [{}] via {}", R::NAME, i, op.describe(), form);
        let (out, form) = if op.kind == Kind::One && def.m_is_one() {
            probe_one_mod1::<R>(p, n, st)?;
            if st.f08.is_some() {
                // excluded source (DESIGN C08): continue with the canonical zero
                (R::zero_plain(p), "one() excluded for modulus 1")
            } else {
                total(&ctx("one"), || R::exec(op, &regs, p))?
            }
        } else {
            total(&ctx("?"), || R::exec(op, &regs, p))?
        };
        let mont = total(&ctx(form), || out.mont())?;
        vensure!(
            big(&mont) < def.m,
            "{}: stored Montgomery representation {} is not canonical (>= m = {})",
            ctx(form),
            hex(&mont),
            hex(&h.m)
        );
        vensure!(mont.len() == n, "{}: representation has {} limbs, want {}", ctx(form), mont.len(), n);
        veq!(mont, step.want_mont, "{}: stored representation != model·R mod m", ctx(form));
        for (an, av) in total(&ctx(form), || out.accessors())? {
            veq!(av, step.want_mont, "{}: accessor {an}", ctx(form));
        }
        for (rn, rv) in total(&ctx(form), || out.retrieves())? {
            veq!(rv, step.want_limbs, "{}: {rn} != value of the expression in Z/mZ", ctx(form));
        }
        let is_zero = is_zero(&step.want_limbs);
        for (qn, qv) in total(&ctx(form), || out.zero_queries())? {
            veq!(qv, is_zero, "{}: {qn}", ctx(form));
        }
        vensure!(out.params_ok(p), "{}: params() of the result differ from the parameters in use", ctx(form));
        // equality with the first source register must coincide with equality in Z/mZ
        // (canonical representations are unique)
        let other = &regs[op.a];
        let other_mont = other.mont();
        let want_eq = other_mont == step.want_mont;
        veq!(out == *other, want_eq, "{}: PartialEq against r{}", ctx(form), op.a);
        if let Some(e) = out.ct_eq_(other) {
            veq!(e, want_eq, "{}: ct_eq against r{}", ctx(form), op.a);
        }
        regs[op.dst] = out.clone();
        outs.push(out);
    }
    // sources must not have been disturbed: every register still holds its model value
    for (r, want) in regs.iter().zip(tr.fin.iter()) {
        let wl = limbs_exact(want, n);
        for (rn, rv) in total("final retrieve", || r.retrieves())? {
            veq!(rv, wl, "{}: final register state, {rn}", R::NAME);
        }
        veq!(r.mont(), limbs_exact(&def.mont(want), n), "{}: final register representation", R::NAME);
    }
    Ok(outs)
}
