fn main() {
    vmodel::cli_main(c08::spec())
}
