//! Direct checks of the public reduction primitive and of the one-shot users of Montgomery form
//! (`Uint::mul_mod`, `BoxedUint::mul_mod`).

use crate::hist;
use crate::model::*;
use crate::params::{boxed_len, boxed_odd};
use crypto_bigint::modular::{montgomery_reduction, BoxedMontyForm, BoxedMontyParams, MontyForm, MontyParams};
use crypto_bigint::{Concat, Limb, MulMod, NonZero, Odd, Split, Uint};
use num_bigint::BigUint;
use num_traits::One;
use vmodel::gen;
use vmodel::*;

/// `montgomery_reduction` is documented as HAC Algorithm 14.32: input T < m·R, output T·R⁻¹ mod m
/// (so: result < m and result·R ≡ T mod m). T is drawn from the shapes that stress the final
/// correction: products of residues, m·R − 1, (m−1)², values with a zero upper half, random.
pub fn reduction_direct<const N: usize>(t: &mut Tape, c: &mut Case) -> CaseResult {
    let (ml, class) = hist::modulus(t, N);
    let def = ParamsDef::new(&ml);
    let m = &def.m;
    let mr = m * &def.r;
    let one = BigUint::one();
    let (tt, tclass): (BigUint, &'static str) = match t.weighted(&[4, 2, 2, 2, 3, 3]) {
        0 => (gen::residue(t, m) * gen::residue(t, m), "T = product of two residues"),
        1 => (&mr - &one, "T = mR-1"),
        2 => ((m - &one) * (m - &one), "T = (m-1)^2"),
        3 => (big(&gen::limbs(t, N)), "T = (x, 0): retrieval of an arbitrary word"),
        4 => (gen::below_big(t, &mr), "T random < mR"),
        _ => {
            // T = q·R + r with q < m near the top: upper half m-1, lower half patterned
            let lo = big(&gen::limbs(t, N));
            ((m - &one) * &def.r + lo, "T = (m-1)R + x")
        }
    };
    let tt = tt % &mr;
    let lo = limbs_of(&tt, N);
    let hi = limbs_of(&(&tt >> (64 * N as u64)), N);
    c.limbs("m", &ml);
    c.limbs("T.lo", &lo);
    c.limbs("T.hi", &hi);
    c.label(format!("m: {class}"));
    c.label(tclass);
    let (fs, tc) = def.redc_class_raw(&tt);
    if fs {
        c.label("needs the final subtraction (t >= m)");
    }
    if tc {
        c.label("carries out of the top limb (t >= R)");
    }
    c.nontrivial(fs || tc || hist::adversarial_class(class) || !is_zero(&hi));
    let odd = Odd::new(uint::<N>(&ml)).expect("harness: odd modulus");
    let got = total("montgomery_reduction", || montgomery_reduction::<N>(&(uint::<N>(&lo), uint::<N>(&hi)), &odd, Limb(def.neg_inv)))?;
    let g = ubig(&got);
    vensure!(g < *m, "montgomery_reduction result {} is not reduced (m = {})", hex(&ul(&got)), hex(&ml));
    let back = (&g * &def.r) % m;
    let want = &tt % m;
    vensure!(back == want, "montgomery_reduction: result·R mod m = {:x}, want T mod m = {:x} (result {})", back, want, hex(&ul(&got)));
    Ok(())
}

fn mulmod_operand(t: &mut Tape, def: &ParamsDef) -> (Limbs, &'static str) {
    hist::value(t, def)
}

/// `Uint::mul_mod` (documented: "Computes self * rhs mod p for odd p"; built from
/// `MontyParams::new` + `MontyForm::new` + `*` + `retrieve`) for arbitrary operands.
pub fn mul_mod_fixed<const N: usize, const W: usize>(t: &mut Tape, c: &mut Case) -> CaseResult
where
    Uint<N>: Concat<Output = Uint<W>>,
    Uint<W>: Split<Output = Uint<N>>,
{
    let (ml, class) = hist::modulus(t, N);
    let def = ParamsDef::new(&ml);
    let (a, ac) = mulmod_operand(t, &def);
    let (b, bc) = mulmod_operand(t, &def);
    c.limbs("m", &ml);
    c.limbs("a", &a);
    c.limbs("b", &b);
    c.label(format!("m: {class}"));
    c.label(format!("new: {ac}"));
    c.label(format!("new: {bc}"));
    let want = limbs_exact(&((big(&a) * big(&b)) % &def.m), N);
    c.nontrivial(hist::adversarial_class(class) || (bit_len(&a) > 1 && bit_len(&b) > 1));
    let p = NonZero::new(uint::<N>(&ml)).expect("harness: non-zero modulus");
    let (ua, ub) = (uint::<N>(&a), uint::<N>(&b));
    let got = total("Uint::mul_mod", || ua.mul_mod(&ub, &p))?;
    veq!(ul(&got), want, "Uint::mul_mod");
    // the same computation spelled out with the vartime parameter constructor
    let params = MontyParams::new_vartime(Odd::new(uint::<N>(&ml)).expect("harness: odd"));
    let got2 = total("MontyForm new*new retrieve", || (MontyForm::new(&ua, params) * MontyForm::new(&ub, params)).retrieve())?;
    veq!(ul(&got2), want, "(MontyForm::new(a) * MontyForm::new(b)).retrieve() with new_vartime params");
    Ok(())
}

pub fn mul_mod_boxed(max: usize) -> impl Fn(&mut Tape, &mut Case) -> CaseResult {
    move |t, c| {
        let n = boxed_len(t, max);
        let (ml, class) = hist::modulus(t, n);
        let def = ParamsDef::new(&ml);
        let (a, ac) = mulmod_operand(t, &def);
        let (b, bc) = mulmod_operand(t, &def);
        c.limbs("m", &ml);
        c.limbs("a", &a);
        c.limbs("b", &b);
        c.label(format!("m: {class}"));
        c.label(format!("new: {ac}"));
        c.label(format!("new: {bc}"));
        let want = limbs_exact(&((big(&a) * big(&b)) % &def.m), n);
        c.nontrivial(hist::adversarial_class(class) || (bit_len(&a) > 1 && bit_len(&b) > 1));
        let (ba, bb, bp) = (boxed(&a), boxed(&b), boxed(&ml));
        let got = total("BoxedUint::mul_mod", || ba.mul_mod(&bb, &bp))?;
        veq!(bl(&got), want, "BoxedUint::mul_mod ({n} limbs)");
        let got_t = total("MulMod::mul_mod", || MulMod::mul_mod(&ba, &bb, &bp))?;
        veq!(bl(&got_t), want, "MulMod for BoxedUint ({n} limbs)");
        let params = BoxedMontyParams::new_vartime(boxed_odd(&ml));
        let got2 = total("BoxedMontyForm new*new retrieve", || (BoxedMontyForm::new(ba.clone(), params.clone()) * BoxedMontyForm::new(bb.clone(), params.clone())).retrieve())?;
        veq!(bl(&got2), want, "(BoxedMontyForm::new(a) * BoxedMontyForm::new(b)).retrieve() with new_vartime params");
        Ok(())
    }
}
