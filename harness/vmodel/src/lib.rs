//! Shared machinery for the crypto-bigint property checks (see /verif/DESIGN.md §2).
pub mod bridge;
pub mod engine;
pub mod gen;
pub mod tape;

pub use bridge::*;
pub use engine::{cli_main, FuzzHost, guard, must_panic, total, Case, CaseResult, Ctx, Fail, PropSpec, SubCheck, Tier, PROFILE};
pub use tape::Tape;

pub use crypto_bigint;
pub use num_bigint;
pub use num_integer;
pub use num_traits;
pub use rand_chacha;
pub use rand_core;
pub use serde_json;
pub use subtle;
