//! Edge-biased structured generators over limb vectors (DESIGN.md §2.3). Everything draws from the
//! [`Tape`], so cases shrink and replay.

use crate::bridge::*;
use crate::tape::Tape;
use num_bigint::BigUint;
use num_traits::{One, Zero};

pub const M: u64 = u64::MAX;

/// Limb alphabet for patterned values (shape L).
const LIMB_ALPHABET: [u64; 12] = [
    0,
    M,
    1,
    1 << 63,
    M - 1,
    (1 << 32) - 1,
    1 << 32,
    (1 << 32) + 1,
    (1 << 63) - 1,
    (1 << 63) + 1,
    0x5555_5555_5555_5555,
    0xAAAA_AAAA_AAAA_AAAA,
];

pub fn limb_word(t: &mut Tape) -> u64 {
    match t.weighted(&[6, 2]) {
        0 => t.pick(&LIMB_ALPHABET),
        _ => t.u64(),
    }
}

/// An arbitrary single word with edge bias (carry-ins, limb operands).
pub fn word(t: &mut Tape) -> u64 {
    match t.weighted(&[4, 2, 3]) {
        0 => t.pick(&LIMB_ALPHABET),
        1 => {
            let k = t.below(64);
            let base = 1u64 << k;
            match t.below(3) {
                0 => base,
                1 => base.wrapping_sub(1),
                _ => base.wrapping_add(1),
            }
        }
        _ => t.u64(),
    }
}

fn set_bit(v: &mut [u64], k: u64) {
    let i = (k / 64) as usize;
    if i < v.len() {
        v[i] |= 1 << (k % 64);
    }
}

pub fn inc(v: &mut [u64]) {
    for w in v.iter_mut() {
        let (r, c) = w.overflowing_add(1);
        *w = r;
        if !c {
            return;
        }
    }
}
pub fn dec(v: &mut [u64]) {
    for w in v.iter_mut() {
        let (r, b) = w.overflowing_sub(1);
        *w = r;
        if !b {
            return;
        }
    }
}
pub fn not(v: &mut [u64]) {
    for w in v.iter_mut() {
        *w = !*w;
    }
}
pub fn neg(v: &mut [u64]) {
    not(v);
    inc(v);
}

/// K: constants
pub fn shape_k(t: &mut Tape, n: usize) -> Limbs {
    let b = 64 * n as u64;
    let mut v = vec![0u64; n];
    match t.below(13) {
        0 => {}
        1 => v[0] = 1,
        2 => v[0] = 2,
        3 => v[0] = 3,
        4 => v.iter_mut().for_each(|w| *w = M),
        5 => {
            v.iter_mut().for_each(|w| *w = M);
            v[0] = M - 1;
        }
        6 => set_bit(&mut v, b - 1),
        7 => {
            set_bit(&mut v, b - 1);
            inc(&mut v)
        }
        8 => {
            set_bit(&mut v, b - 1);
            dec(&mut v)
        }
        9 => set_bit(&mut v, b / 2),
        10 => {
            set_bit(&mut v, b / 2);
            dec(&mut v)
        }
        11 => {
            set_bit(&mut v, b / 2);
            inc(&mut v)
        }
        _ => {
            // MAX >> 1 ( = signed MAX)
            v.iter_mut().for_each(|w| *w = M);
            v[n - 1] = M >> 1;
        }
    }
    v
}

/// P: 2^k, 2^k ± 1
pub fn shape_p(t: &mut Tape, n: usize) -> Limbs {
    let b = 64 * n as u64;
    let mut v = vec![0u64; n];
    let k = t.edgy(b - 1);
    set_bit(&mut v, k);
    match t.below(3) {
        0 => {}
        1 => dec(&mut v),
        _ => inc(&mut v),
    }
    v
}

/// L: each limb from a small alphabet (long carry chains, alternating 0/MAX)
pub fn shape_l(t: &mut Tape, n: usize) -> Limbs {
    match t.weighted(&[3, 1, 1]) {
        0 => (0..n).map(|_| limb_word(t)).collect(),
        1 => {
            // alternating pattern
            let a = limb_word(t);
            let b = limb_word(t);
            (0..n).map(|i| if i % 2 == 0 { a } else { b }).collect()
        }
        _ => {
            // mostly one limb value with a few exceptions
            let a = t.pick(&[0u64, M]);
            let mut v = vec![a; n];
            let k = t.below(3) + 1;
            for _ in 0..k {
                let i = t.index(n);
                v[i] = limb_word(t);
            }
            v
        }
    }
}

/// R: run of ones over bits [lo, hi), boundaries biased to multiples of 64
pub fn shape_r(t: &mut Tape, n: usize) -> Limbs {
    let b = 64 * n as u64;
    let x = t.edgy(b);
    let y = t.edgy(b);
    let (lo, hi) = if x <= y { (x, y) } else { (y, x) };
    let mut v = vec![0u64; n];
    for k in lo..hi {
        set_bit(&mut v, k);
    }
    v
}

/// T: uniformly chosen bit length, top bit set, random below
pub fn shape_t(t: &mut Tape, n: usize) -> Limbs {
    let b = 64 * n as u64;
    let len = t.edgy(b);
    let mut v = t.expand(n);
    if is_zero(&v) {
        v = vec![0; n];
    }
    // mask to len bits
    for (i, w) in v.iter_mut().enumerate() {
        let lo = 64 * i as u64;
        if lo >= len {
            *w = 0;
        } else if len - lo < 64 {
            *w &= (1u64 << (len - lo)) - 1;
        }
    }
    if len > 0 {
        set_bit(&mut v, len - 1);
    }
    v
}

/// U: uniform
pub fn shape_u(t: &mut Tape, n: usize) -> Limbs {
    if n <= 4 {
        (0..n).map(|_| t.u64()).collect()
    } else {
        let mut v = t.expand(n);
        if is_zero(&v) {
            v[0] = 0;
        }
        v
    }
}

/// Z: a narrow value zero-padded to n limbs
pub fn shape_z(t: &mut Tape, n: usize) -> Limbs {
    let k = if n <= 1 { 1 } else { t.usize_in(1, n.min(3)) };
    let mut v = limbs(t, k);
    v.resize(n, 0);
    v
}

pub const SHAPE_NAMES: [&str; 7] = ["K", "P", "L", "R", "T", "U", "Z"];

/// Mixture of all shapes; `n >= 1`.
pub fn limbs(t: &mut Tape, n: usize) -> Limbs {
    assert!(n >= 1);
    match t.weighted(&[3, 3, 5, 2, 3, 3, if n > 1 { 2 } else { 0 }]) {
        0 => shape_k(t, n),
        1 => shape_p(t, n),
        2 => shape_l(t, n),
        3 => shape_r(t, n),
        4 => shape_t(t, n),
        5 => shape_u(t, n),
        _ => shape_z(t, n),
    }
}

pub fn nonzero(t: &mut Tape, n: usize) -> Limbs {
    let mut v = limbs(t, n);
    if is_zero(&v) {
        v[0] = 1;
    }
    v
}

pub fn odd(t: &mut Tape, n: usize) -> Limbs {
    let mut v = limbs(t, n);
    v[0] |= 1;
    v
}

/// Rel: a value related to `a` (same width): a, a±1, !a, -a, a>>1, 2a, or fresh.
pub fn related(t: &mut Tape, a: &[u64]) -> Limbs {
    let n = a.len();
    let mut v = a.to_vec();
    match t.weighted(&[2, 2, 2, 1, 1, 1, 1, 6]) {
        0 => {}
        1 => inc(&mut v),
        2 => dec(&mut v),
        3 => not(&mut v),
        4 => neg(&mut v),
        5 => {
            // >> 1
            let mut carry = 0u64;
            for w in v.iter_mut().rev() {
                let nc = *w & 1;
                *w = (*w >> 1) | (carry << 63);
                carry = nc;
            }
        }
        6 => {
            let mut carry = 0u64;
            for w in v.iter_mut() {
                let nc = *w >> 63;
                *w = (*w << 1) | carry;
                carry = nc;
            }
        }
        _ => v = limbs(t, n),
    }
    v
}

/// Pair of operands of the same width: independent shapes or related.
pub fn pair(t: &mut Tape, n: usize) -> (Limbs, Limbs) {
    let a = limbs(t, n);
    let b = related(t, &a);
    if t.bool() {
        (a, b)
    } else {
        (b, a)
    }
}

/// Uniform-ish value in [0, m) built from the tape (m > 0), as BigUint.
pub fn below_big(t: &mut Tape, m: &BigUint) -> BigUint {
    let n = ((m.bits() + 63) / 64).max(1) as usize;
    let v = limbs(t, n + 1);
    big(&v) % m
}

/// Residue classes for modular checks: {0, 1, m-1, floor(m/2), ceil(m/2), m-2, random mod m}
pub fn residue(t: &mut Tape, m: &BigUint) -> BigUint {
    let one = BigUint::one();
    let r = match t.weighted(&[2, 2, 3, 1, 1, 1, 8]) {
        0 => BigUint::zero(),
        1 => one.clone(),
        2 => m - &one,
        3 => m >> 1u32,
        4 => (m + &one) >> 1u32,
        5 => {
            if *m >= BigUint::from(2u32) {
                m - BigUint::from(2u32)
            } else {
                BigUint::zero()
            }
        }
        _ => below_big(t, m),
    };
    r % m
}

pub const SMALL_PRIMES: [u64; 12] = [3, 5, 7, 11, 13, 251, 257, 65537, 4294967291, 4294967311, 18446744073709551557, 9223372036854775783];

/// Odd modulus classes (DESIGN §2.3) in n limbs. Returns (limbs, class name).
pub fn odd_modulus(t: &mut Tape, n: usize) -> (Limbs, &'static str) {
    let b = 64 * n as u64;
    let (m, class): (BigUint, &'static str) = match t.weighted(&[1, 2, 2, 2, 2, 2, 2, 3, 2, 2, 6]) {
        0 => (BigUint::one(), "m=1"),
        1 => (BigUint::from(3u32), "m=3"),
        2 => (mask(b), "m=2^B-1"),
        3 => (pow2(b - 1) + BigUint::one(), "m=2^(B-1)+1"),
        4 => ((pow2(b) / BigUint::from(3u32)) | BigUint::one(), "m~2^B/3"),
        5 => ((pow2(b) / BigUint::from(4u32)) | BigUint::one(), "m~2^B/4"),
        6 => (BigUint::from(t.pick(&SMALL_PRIMES)), "m=small prime"),
        7 => {
            // small m in a wide type: whole zero high limbs
            let k = if n <= 1 { 1 } else { t.usize_in(1, n - 1) };
            (big(&limbs(t, k)) | BigUint::one(), "m zero high limbs")
        }
        8 => (pow2(b) - BigUint::from(word(t) | 1).min(mask(b) ) , "m=2^B-c"),
        9 => {
            // top limb MAX or 1
            let mut v = limbs(t, n);
            v[n - 1] = t.pick(&[M, 1, 1 << 63, (1 << 63) - 1]);
            v[0] |= 1;
            (big(&v), "m top-limb edge")
        }
        _ => (big(&odd(t, n)), "m random odd"),
    };
    let m = if m.is_zero() || (&m & BigUint::one()).is_zero() { m | BigUint::one() } else { m };
    (limbs_exact(&m, n), class)
}

/// A limb count chosen from a list, biased to the first entries only through shrinking.
pub fn pick_n(t: &mut Tape, ns: &[usize]) -> usize {
    t.pick(ns)
}

/// A shift / bit index in 0..=max with boundaries over-weighted.
pub fn shift_amount(t: &mut Tape, bits: u64) -> u64 {
    match t.weighted(&[2, 4, 2, 1]) {
        0 => t.below(3),
        1 => t.edgy(2 * bits + 1),
        2 => t.pick(&[bits - 1, bits, bits + 1, 2 * bits, 2 * bits + 1]),
        _ => u32::MAX as u64,
    }
}

/// Random byte string of length len with an edge-biased alphabet.
pub fn bytes(t: &mut Tape, len: usize) -> Vec<u8> {
    let mode = t.weighted(&[2, 2, 3]);
    let mut out = Vec::with_capacity(len);
    let mut i = 0;
    while i < len {
        let w = match mode {
            0 => t.pick(&[0u64, M, 0x0101_0101_0101_0101, 0x8080_8080_8080_8080, 0x7f7f_7f7f_7f7f_7f7f, 0x00ff_00ff_00ff_00ff]),
            1 => limb_word(t),
            _ => t.u64(),
        };
        for b in w.to_be_bytes() {
            if i < len {
                out.push(b);
                i += 1;
            }
        }
    }
    out
}

// ------------------------------------------------------------------------------------------------
// dictionary of integer literals harvested from the code under test

/// Integer literals (>= 2^16, <= u64::MAX) that occur in the non-test source of crypto-bigint
/// (`$VERIF_REPO/src`, default /repo/src), read at run time from the current working tree. The same
/// idea as a fuzzer dictionary: a comparison against, or a special treatment of, a "magic" word is
/// invisible to random and edge-shaped limbs but trivially reached once the word itself is used as
/// (or solved into) an operand limb. Sorted, without duplicates; empty when the directory is missing.
pub fn source_literals() -> &'static [u64] {
    static LITS: std::sync::OnceLock<Vec<u64>> = std::sync::OnceLock::new();
    LITS.get_or_init(|| {
        let root = std::env::var("VERIF_REPO").unwrap_or_else(|_| "/repo".to_string());
        let mut out = std::collections::BTreeSet::new();
        let mut stack = vec![std::path::PathBuf::from(root).join("src")];
        while let Some(dir) = stack.pop() {
            let Ok(rd) = std::fs::read_dir(&dir) else { continue };
            let mut entries: Vec<_> = rd.filter_map(|e| e.ok()).map(|e| e.path()).collect();
            entries.sort();
            for p in entries {
                if p.is_dir() {
                    stack.push(p);
                } else if p.extension().map(|e| e == "rs").unwrap_or(false) {
                    if let Ok(text) = std::fs::read_to_string(&p) {
                        // unit tests sit in a trailing `#[cfg(test)]` module
                        let code = text.split("#[cfg(test)]").next().unwrap_or("");
                        scan_literals(code, &mut out);
                    }
                }
            }
        }
        out.into_iter().collect()
    })
}

fn scan_literals(code: &str, out: &mut std::collections::BTreeSet<u64>) {
    let b = code.as_bytes();
    let mut i = 0;
    let is_ident = |c: u8| c.is_ascii_alphanumeric() || c == b'_';
    while i < b.len() {
        // comments carry prose, not code
        if b[i] == b'/' && i + 1 < b.len() && b[i + 1] == b'/' {
            while i < b.len() && b[i] != b'\n' {
                i += 1;
            }
            continue;
        }
        if b[i].is_ascii_digit() && (i == 0 || !(is_ident(b[i - 1]) || b[i - 1] == b'.')) {
            let start = i;
            let (radix, mut j) = if b[i] == b'0' && i + 1 < b.len() && (b[i + 1] == b'x' || b[i + 1] == b'X') { (16u32, i + 2) } else { (10u32, i) };
            let mut v: u128 = 0;
            let mut digits = 0;
            let mut overflow = false;
            while j < b.len() {
                let c = b[j];
                if c == b'_' {
                    j += 1;
                    continue;
                }
                match (c as char).to_digit(radix) {
                    Some(d) => {
                        v = match v.checked_mul(radix as u128).and_then(|x| x.checked_add(d as u128)) {
                            Some(x) => x,
                            None => {
                                overflow = true;
                                0
                            }
                        };
                        digits += 1;
                        j += 1;
                    }
                    None => break,
                }
            }
            if digits > 0 && !overflow && v >= 1 << 16 {
                if v <= u64::MAX as u128 {
                    out.insert(v as u64);
                } else {
                    // a 128-bit literal: both halves
                    out.insert(v as u64);
                    out.insert((v >> 64) as u64);
                }
            }
            i = j.max(start + 1);
            // skip a type suffix / the rest of an identifier-like token
            while i < b.len() && is_ident(b[i]) {
                i += 1;
            }
            continue;
        }
        i += 1;
    }
}

/// One case in twelve: a limb of the pair is tied to an integer literal K harvested from the source
/// of crypto-bigint (`source_literals`, a fuzzer-style dictionary; K, K + 1 or K - 1): an
/// operand limb equals K, or a_i + b_i = K, or a_i - b_i = K, or b_i - a_i = K (limb-wise, before
/// carries / borrows). A special treatment of one "magic" word — in an operand, a sum or a difference
/// limb — is out of reach of random and edge-shaped limbs but not of this.
pub fn dict_salt(t: &mut Tape, a: &mut [u64], b: &mut [u64]) {
    if !t.chance(1, 12) {
        return;
    }
    let d = source_literals();
    let n = a.len().min(b.len());
    if d.is_empty() || n == 0 {
        return;
    }
    let k = d[t.index(d.len())];
    let k = match t.below(3) {
        0 => k,
        1 => k.wrapping_add(1),
        _ => k.wrapping_sub(1),
    };
    let i = t.index(n);
    match t.below(4) {
        0 => b[i] = k.wrapping_sub(a[i]),
        1 => b[i] = a[i].wrapping_sub(k),
        2 => a[i] = k,
        _ => b[i] = a[i].wrapping_add(k),
    }
}

