//! The choice tape: every random choice a case makes is drawn from a `Vec<u64>` that proptest
//! generated (and shrinks). Draws are mapped *monotonically* (a smaller tape word gives an earlier /
//! simpler choice), so proptest's element-wise shrinking towards 0 and its element removal simplify
//! the case. An exhausted tape yields 0 (the simplest choice).

#[derive(Clone, Debug)]
pub struct Tape {
    data: Vec<u64>,
    pos: usize,
}

impl Tape {
    pub fn new(data: Vec<u64>) -> Self {
        Tape { data, pos: 0 }
    }
    pub fn data(&self) -> &[u64] {
        &self.data
    }
    pub fn consumed(&self) -> usize {
        self.pos
    }
    /// Next raw word (0 when exhausted).
    #[inline]
    pub fn u64(&mut self) -> u64 {
        let v = self.data.get(self.pos).copied().unwrap_or(0);
        self.pos += 1;
        v
    }
    /// Uniform in `0..n` (n >= 1), monotone in the tape word.
    #[inline]
    pub fn below(&mut self, n: u64) -> u64 {
        debug_assert!(n >= 1);
        ((self.u64() as u128 * n as u128) >> 64) as u64
    }
    /// Uniform in `lo..=hi`.
    #[inline]
    pub fn range(&mut self, lo: u64, hi: u64) -> u64 {
        debug_assert!(lo <= hi);
        if lo == 0 && hi == u64::MAX {
            return self.u64();
        }
        lo + self.below(hi - lo + 1)
    }
    #[inline]
    pub fn usize_in(&mut self, lo: usize, hi: usize) -> usize {
        self.range(lo as u64, hi as u64) as usize
    }
    #[inline]
    pub fn u32_in(&mut self, lo: u32, hi: u32) -> u32 {
        self.range(lo as u64, hi as u64) as u32
    }
    #[inline]
    pub fn bool(&mut self) -> bool {
        self.u64() >> 63 == 1
    }
    /// true with probability num/den.
    #[inline]
    pub fn chance(&mut self, num: u64, den: u64) -> bool {
        // simplest (tape word 0) => false
        self.below(den) >= den - num
    }
    #[inline]
    pub fn pick<T: Clone>(&mut self, xs: &[T]) -> T {
        xs[self.below(xs.len() as u64) as usize].clone()
    }
    #[inline]
    pub fn index(&mut self, len: usize) -> usize {
        self.below(len as u64) as usize
    }
    /// Index chosen with the given weights; index 0 is the shrink target.
    pub fn weighted(&mut self, weights: &[u32]) -> usize {
        let total: u64 = weights.iter().map(|&w| w as u64).sum();
        let mut x = self.below(total.max(1));
        for (i, &w) in weights.iter().enumerate() {
            if x < w as u64 {
                return i;
            }
            x -= w as u64;
        }
        weights.len() - 1
    }
    /// A value that is "interesting" around boundaries of 0..=max: small, near multiples of 64, near max.
    pub fn edgy(&mut self, max: u64) -> u64 {
        let v = match self.weighted(&[3, 3, 3, 3]) {
            0 => self.below(4),
            1 => {
                // around a multiple of 64
                let k = self.below(max / 64 + 2) * 64;
                let d = self.below(3);
                (k + d).saturating_sub(1)
            }
            2 => max.saturating_sub(self.below(3)),
            _ => self.range(0, max),
        };
        v.min(max)
    }
    /// Pseudo-random expansion keyed by one tape word (seed 0 => all zero): lets one tape word stand
    /// for many uniform limbs.
    pub fn expand(&mut self, n: usize) -> Vec<u64> {
        let seed = self.u64();
        let mut out = Vec::with_capacity(n);
        if seed == 0 {
            out.resize(n, 0);
            return out;
        }
        let mut s = seed;
        for _ in 0..n {
            out.push(splitmix(&mut s));
        }
        out
    }
}

#[inline]
pub fn splitmix(s: &mut u64) -> u64 {
    *s = s.wrapping_add(0x9E37_79B9_7F4A_7C15);
    let mut z = *s;
    z = (z ^ (z >> 30)).wrapping_mul(0xBF58_476D_1CE4_E5B9);
    z = (z ^ (z >> 27)).wrapping_mul(0x94D0_49BB_1331_11EB);
    z ^ (z >> 31)
}

pub fn fnv1a(s: &[u8]) -> u64 {
    let mut h: u64 = 0xcbf2_9ce4_8422_2325;
    for &b in s {
        h ^= b as u64;
        h = h.wrapping_mul(0x1000_0000_01b3);
    }
    h
}
