//! Bridges between limb vectors (little-endian `u64`), num-bigint (the oracle side) and the
//! crypto-bigint types (the implementation side). Only `from_words` / `to_words` / `as_words` are
//! used on the implementation side, so the oracle never depends on the arithmetic under test.

use crypto_bigint::{BoxedUint, Int, Limb, Uint};
use num_bigint::{BigInt, BigUint, Sign};
use num_traits::{One, Zero};

pub type Limbs = Vec<u64>;

pub fn big(l: &[u64]) -> BigUint {
    let mut bytes = Vec::with_capacity(l.len() * 8);
    for w in l {
        bytes.extend_from_slice(&w.to_le_bytes());
    }
    BigUint::from_bytes_le(&bytes)
}

/// `x mod 2^(64 n)` as exactly `n` limbs.
pub fn limbs_of(x: &BigUint, n: usize) -> Limbs {
    let mut d = x.to_u64_digits();
    d.resize(n.max(d.len()), 0);
    d.truncate(n);
    d
}

/// Exactly-fitting limbs (panics if x does not fit n limbs) — for oracle-side construction.
pub fn limbs_exact(x: &BigUint, n: usize) -> Limbs {
    assert!(x.bits() <= 64 * n as u64, "harness: value does not fit {n} limbs");
    limbs_of(x, n)
}

pub fn pow2(k: u64) -> BigUint {
    BigUint::one() << k
}

pub fn mask(k: u64) -> BigUint {
    pow2(k) - BigUint::one()
}

/// two's complement interpretation of `l` as a signed integer of `64*l.len()` bits
pub fn sbig(l: &[u64]) -> BigInt {
    let u = big(l);
    let bits = 64 * l.len() as u64;
    if l.last().map(|w| w >> 63 == 1).unwrap_or(false) {
        BigInt::from_biguint(Sign::Plus, u) - BigInt::from_biguint(Sign::Plus, pow2(bits))
    } else {
        BigInt::from_biguint(Sign::Plus, u)
    }
}

/// `x mod 2^(64 n)` in two's complement as `n` limbs
pub fn twos(x: &BigInt, n: usize) -> Limbs {
    let m = BigInt::from_biguint(Sign::Plus, pow2(64 * n as u64));
    let mut r = x % &m;
    if r.sign() == Sign::Minus {
        r += &m;
    }
    limbs_of(&r.to_biguint().unwrap(), n)
}

pub fn smin(n: usize) -> BigInt {
    -BigInt::from_biguint(Sign::Plus, pow2(64 * n as u64 - 1))
}
pub fn smax(n: usize) -> BigInt {
    BigInt::from_biguint(Sign::Plus, pow2(64 * n as u64 - 1)) - BigInt::one()
}
pub fn fits_signed(x: &BigInt, n: usize) -> bool {
    *x >= smin(n) && *x <= smax(n)
}
pub fn fits_unsigned(x: &BigUint, n: usize) -> bool {
    x.bits() <= 64 * n as u64
}
pub fn fits_unsigned_i(x: &BigInt, n: usize) -> bool {
    x.sign() != Sign::Minus && x.bits() <= 64 * n as u64
}

// ---- implementation side ----

pub fn uint<const N: usize>(l: &[u64]) -> Uint<N> {
    let mut w = [0u64; N];
    assert!(l.len() <= N || l[N..].iter().all(|&x| x == 0), "harness: limbs do not fit Uint<{N}>");
    for (i, x) in l.iter().take(N).enumerate() {
        w[i] = *x;
    }
    Uint::from_words(w)
}

pub fn int<const N: usize>(l: &[u64]) -> Int<N> {
    assert_eq!(l.len(), N, "harness: Int limbs must be exact");
    let mut w = [0u64; N];
    w.copy_from_slice(l);
    Int::from_words(w)
}

pub fn boxed(l: &[u64]) -> BoxedUint {
    assert!(!l.is_empty(), "harness: boxed needs >= 1 limb");
    BoxedUint::from_words(l.iter().copied())
}

pub fn limb(x: u64) -> Limb {
    Limb(x)
}

pub fn ul<const N: usize>(x: &Uint<N>) -> Limbs {
    x.as_words().to_vec()
}
pub fn il<const N: usize>(x: &Int<N>) -> Limbs {
    x.as_words().to_vec()
}
pub fn bl(x: &BoxedUint) -> Limbs {
    x.as_words().to_vec()
}
pub fn ubig<const N: usize>(x: &Uint<N>) -> BigUint {
    big(x.as_words())
}
pub fn bbig(x: &BoxedUint) -> BigUint {
    big(x.as_words())
}
pub fn ibig<const N: usize>(x: &Int<N>) -> BigInt {
    sbig(x.as_words())
}

pub fn hex(l: &[u64]) -> String {
    if l.is_empty() {
        return "0x(empty)".into();
    }
    let mut s = String::from("0x");
    for (i, w) in l.iter().rev().enumerate() {
        if i > 0 {
            s.push('_');
        }
        s.push_str(&format!("{:016x}", w));
    }
    s
}

pub fn is_zero(l: &[u64]) -> bool {
    l.iter().all(|&x| x == 0)
}

pub fn bit_len(l: &[u64]) -> u64 {
    for (i, w) in l.iter().enumerate().rev() {
        if *w != 0 {
            return 64 * i as u64 + (64 - w.leading_zeros() as u64);
        }
    }
    0
}

pub fn zero_big() -> BigUint {
    BigUint::zero()
}
