//! Runner: sub-checks driven by proptest over choice tapes, counters, known-finding matching,
//! replay files, watchdog, evidence JSON.

use crate::tape::{fnv1a, splitmix, Tape};
use proptest::strategy::ValueTree;
use proptest::test_runner::{Config, RngAlgorithm, TestCaseError, TestError, TestRng, TestRunner};
use serde_json::{json, Value};
use std::borrow::Cow;
use std::cell::RefCell;
use std::collections::{BTreeMap, HashSet};
use std::hash::{Hash, Hasher};
use std::panic::{catch_unwind, AssertUnwindSafe};
use std::path::PathBuf;
use std::sync::atomic::{AtomicBool, AtomicU64, AtomicUsize, Ordering};
use std::sync::{Arc, Mutex};
use std::time::Instant;

// ------------------------------------------------------------------------------------------------
// basic types

#[derive(Clone, Copy, PartialEq, Eq, Debug)]
pub enum Tier {
    Quick,
    Thorough,
}

pub const PROFILE: &str = if cfg!(debug_assertions) { "dbg" } else { "rel" };

#[derive(Clone, Debug)]
pub struct Ctx {
    pub tier: Tier,
    pub seed: u64,
    /// multiplier applied to every sub-check's case count
    pub scale: f64,
}

impl Ctx {
    pub fn thorough(&self) -> bool {
        self.tier == Tier::Thorough
    }
    pub fn is_dbg(&self) -> bool {
        cfg!(debug_assertions)
    }
}

#[derive(Debug, Clone)]
pub struct Fail {
    pub msg: String,
    /// signature id of a known finding this failure matches exactly (e.g. "F-14")
    pub known: Option<&'static str>,
}

impl Fail {
    pub fn new(msg: impl Into<String>) -> Self {
        Fail { msg: msg.into(), known: None }
    }
    pub fn known(sig: &'static str, msg: impl Into<String>) -> Self {
        Fail { msg: msg.into(), known: Some(sig) }
    }
}

pub type CaseResult = Result<(), Fail>;

#[macro_export]
macro_rules! vfail {
    ($($arg:tt)*) => { return Err($crate::Fail::new(format!($($arg)*))) };
}
#[macro_export]
macro_rules! vensure {
    ($cond:expr, $($arg:tt)*) => { if !($cond) { return Err($crate::Fail::new(format!($($arg)*))); } };
}
#[macro_export]
macro_rules! veq {
    ($got:expr, $want:expr, $($arg:tt)*) => {{
        let g = &$got; let w = &$want;
        if g != w { return Err($crate::Fail::new(format!("{}: got {:x?}, want {:x?}", format!($($arg)*), g, w))); }
    }};
}

/// Per-case recorder: inputs (fingerprint + optional text), class labels, non-triviality.
pub struct Case {
    hasher: std::collections::hash_map::DefaultHasher,
    pub record: bool,
    args: Vec<(Cow<'static, str>, String)>,
    labels: Vec<Cow<'static, str>>,
    nontrivial: bool,
    skipped: bool,
}

impl Case {
    fn new(record: bool) -> Self {
        Case {
            hasher: std::collections::hash_map::DefaultHasher::new(),
            record,
            args: Vec::new(),
            labels: Vec::new(),
            nontrivial: false,
            skipped: false,
        }
    }
    pub fn limbs(&mut self, name: &'static str, v: &[u64]) {
        v.hash(&mut self.hasher);
        if self.record {
            self.args.push((name.into(), crate::bridge::hex(v)));
        }
    }
    pub fn num(&mut self, name: &'static str, v: u64) {
        v.hash(&mut self.hasher);
        if self.record {
            self.args.push((name.into(), v.to_string()));
        }
    }
    pub fn inum(&mut self, name: &'static str, v: i128) {
        v.hash(&mut self.hasher);
        if self.record {
            self.args.push((name.into(), v.to_string()));
        }
    }
    pub fn text(&mut self, name: &'static str, v: &str) {
        v.hash(&mut self.hasher);
        if self.record {
            self.args.push((name.into(), v.to_string()));
        }
    }
    pub fn bytes(&mut self, name: &'static str, v: &[u8]) {
        v.hash(&mut self.hasher);
        if self.record {
            let mut s = String::with_capacity(v.len() * 2);
            for b in v {
                s.push_str(&format!("{:02x}", b));
            }
            self.args.push((name.into(), s));
        }
    }
    /// Free-form note (not part of the fingerprint).
    pub fn note(&mut self, name: &'static str, v: impl FnOnce() -> String) {
        if self.record {
            self.args.push((name.into(), v()));
        }
    }
    pub fn label(&mut self, l: impl Into<Cow<'static, str>>) {
        self.labels.push(l.into());
    }
    /// Mark the case non-trivial by the sub-check's stated rule (sticky).
    pub fn nontrivial(&mut self, b: bool) {
        self.nontrivial |= b;
    }
    /// The generated case is outside the domain (counted as skipped, not evaluated).
    pub fn skip(&mut self) {
        self.skipped = true;
    }
    fn fingerprint(&self) -> u64 {
        self.hasher.finish()
    }
    fn describe(&self) -> Value {
        let mut m = serde_json::Map::new();
        for (k, v) in &self.args {
            let mut key = k.to_string();
            let mut i = 2;
            while m.contains_key(&key) {
                key = format!("{k}#{i}");
                i += 1;
            }
            m.insert(key, Value::String(v.clone()));
        }
        Value::Object(m)
    }
}

pub type CaseFn = Arc<dyn Fn(&mut Tape, &mut Case) -> CaseResult + Send + Sync>;

#[derive(Clone)]
pub struct SubCheck {
    pub name: String,
    /// cases in the quick tier (before Ctx::scale)
    pub cases: u64,
    /// multiplier for the thorough tier
    pub thorough_mult: u64,
    pub tape_len: usize,
    pub shrink_iters: u32,
    /// per-case watchdog in seconds
    pub case_timeout_s: u64,
    pub f: CaseFn,
}

impl SubCheck {
    pub fn new(
        name: impl Into<String>,
        cases: u64,
        f: impl Fn(&mut Tape, &mut Case) -> CaseResult + Send + Sync + 'static,
    ) -> Self {
        SubCheck {
            name: name.into(),
            cases,
            thorough_mult: 30,
            tape_len: 96,
            shrink_iters: 3000,
            case_timeout_s: 180,
            f: Arc::new(f),
        }
    }
    pub fn tape(mut self, n: usize) -> Self {
        self.tape_len = n;
        self
    }
    pub fn thorough(mut self, mult: u64) -> Self {
        self.thorough_mult = mult;
        self
    }
    pub fn shrink(mut self, iters: u32) -> Self {
        self.shrink_iters = iters;
        self
    }
    pub fn timeout(mut self, s: u64) -> Self {
        self.case_timeout_s = s;
        self
    }
}

pub struct PropSpec {
    pub id: &'static str,
    /// how cases are generated and what makes one non-trivial / distinct
    pub rule: &'static str,
    pub assumptions: Vec<String>,
    pub subchecks: fn(&Ctx) -> Vec<SubCheck>,
}

// ------------------------------------------------------------------------------------------------
// panic capture

thread_local! {
    static LAST_PANIC: RefCell<Option<String>> = const { RefCell::new(None) };
}

pub fn install_quiet_panic_hook() {
    std::panic::set_hook(Box::new(|info| {
        let msg = if let Some(s) = info.payload().downcast_ref::<&str>() {
            s.to_string()
        } else if let Some(s) = info.payload().downcast_ref::<String>() {
            s.clone()
        } else {
            "<non-string panic>".to_string()
        };
        let loc = info.location().map(|l| format!(" @ {}:{}", l.file(), l.line())).unwrap_or_default();
        LAST_PANIC.with(|p| *p.borrow_mut() = Some(format!("{msg}{loc}")));
    }));
}

/// Run the operation under test; a panic becomes data.
pub fn guard<R>(f: impl FnOnce() -> R) -> Result<R, String> {
    match catch_unwind(AssertUnwindSafe(f)) {
        Ok(r) => Ok(r),
        Err(_) => Err(LAST_PANIC.with(|p| p.borrow_mut().take()).unwrap_or_else(|| "<panic>".into())),
    }
}

/// The operation must not panic (in-domain input): a panic is a failure labelled with `what`.
pub fn total<R>(what: &str, f: impl FnOnce() -> R) -> Result<R, Fail> {
    guard(f).map_err(|p| Fail::new(format!("{what}: unexpected panic: {p}")))
}

/// The operation must panic (documented panicking case).
pub fn must_panic<R>(what: &str, f: impl FnOnce() -> R) -> Result<String, Fail> {
    match guard(f) {
        Ok(_) => Err(Fail::new(format!("{what}: expected a panic (documented), but it returned"))),
        Err(m) => Ok(m),
    }
}

// ------------------------------------------------------------------------------------------------
// known findings

#[derive(Clone, Debug)]
pub struct KnownFinding {
    pub id: String,
    pub properties: Vec<String>,
    pub status: String,
    pub what: String,
}

pub fn verif_root() -> PathBuf {
    std::env::var("VERIF_ROOT").map(PathBuf::from).unwrap_or_else(|_| PathBuf::from("/verif"))
}

pub fn load_known() -> Vec<KnownFinding> {
    let p = verif_root().join("known_findings.json");
    let Ok(s) = std::fs::read_to_string(&p) else { return vec![] };
    let v: Value = serde_json::from_str(&s).expect("known_findings.json must parse");
    let mut out = vec![];
    for f in v["findings"].as_array().cloned().unwrap_or_default() {
        out.push(KnownFinding {
            id: f["id"].as_str().unwrap_or("").to_string(),
            properties: f["properties"].as_array().map(|a| a.iter().filter_map(|x| x.as_str().map(String::from)).collect()).unwrap_or_default(),
            status: f["status"].as_str().unwrap_or("").to_string(),
            what: f["what"].as_str().unwrap_or("").to_string(),
        });
    }
    out
}

// ------------------------------------------------------------------------------------------------
// statistics

#[derive(Default)]
struct Stats {
    evaluations: u64,
    skipped: u64,
    nontrivial: u64,
    distinct: HashSet<u64>,
    classes: BTreeMap<String, u64>,
    samples: Vec<Value>,
    nontrivial_samples: usize,
    known_hits: BTreeMap<String, (u64, Value, String)>,
}

impl Stats {
    fn merge(&mut self, o: Stats) {
        self.evaluations += o.evaluations;
        self.skipped += o.skipped;
        self.nontrivial += o.nontrivial;
        self.distinct.extend(o.distinct);
        for (k, v) in o.classes {
            *self.classes.entry(k).or_default() += v;
        }
        for s in o.samples {
            if self.samples.len() < 3 {
                self.samples.push(s);
            }
        }
        for (k, (n, d, m)) in o.known_hits {
            let e = self.known_hits.entry(k).or_insert((0, d, m));
            e.0 += n;
        }
    }
}

#[derive(Clone)]
pub struct Failure {
    pub subcheck: String,
    pub message: String,
    pub tape: Vec<u64>,
    pub case: Value,
    pub replay_path: String,
}

// ------------------------------------------------------------------------------------------------
// watchdog

struct Slot {
    start_ms: AtomicU64, // 0 = idle
    limit_s: AtomicU64,
    what: Mutex<(String, Vec<u64>)>,
}

struct Watch {
    t0: Instant,
    slots: Vec<Slot>,
}

impl Watch {
    fn now_ms(&self) -> u64 {
        self.t0.elapsed().as_millis() as u64 + 1
    }
}

// ------------------------------------------------------------------------------------------------
// running one case

enum Ran {
    Pass,
    Skip,
    Known(&'static str, String),
    Fail(String),
}

fn run_case(f: &CaseFn, tape: &[u64], record: bool) -> (Ran, Case) {
    let mut t = Tape::new(tape.to_vec());
    let mut c = Case::new(record);
    let r = catch_unwind(AssertUnwindSafe(|| f(&mut t, &mut c)));
    let ran = match r {
        Ok(Ok(())) => {
            if c.skipped {
                Ran::Skip
            } else {
                Ran::Pass
            }
        }
        Ok(Err(Fail { msg, known: Some(sig) })) => Ran::Known(sig, msg),
        Ok(Err(Fail { msg, known: None })) => Ran::Fail(msg),
        Err(_) => {
            let m = LAST_PANIC.with(|p| p.borrow_mut().take()).unwrap_or_else(|| "<panic>".into());
            Ran::Fail(format!("unguarded panic while running the case: {m}"))
        }
    };
    (ran, c)
}

fn seed32(seed: u64, name: &str, shard: u64) -> [u8; 32] {
    let mut s = seed ^ fnv1a(name.as_bytes()).rotate_left(17) ^ shard.wrapping_mul(0xA24B_AED4_963E_E407);
    let mut out = [0u8; 32];
    for i in 0..4 {
        out[i * 8..i * 8 + 8].copy_from_slice(&splitmix(&mut s).to_le_bytes());
    }
    out
}

struct ShardOut {
    stats: Stats,
    failure: Option<(String, Vec<u64>)>,
}

fn run_shard(
    prop: &str,
    sc: &SubCheck,
    cases: u64,
    seed: u64,
    shard: u64,
    known: &[KnownFinding],
    watch: &Watch,
    slot: usize,
    stop: &AtomicBool,
) -> ShardOut {
    let cfg = Config {
        cases: cases as u32,
        failure_persistence: None,
        max_shrink_iters: sc.shrink_iters,
        max_local_rejects: 1_000_000,
        max_global_rejects: 1_000_000,
        ..Config::default()
    };
    let rng = TestRng::from_seed(RngAlgorithm::ChaCha, &seed32(seed, &sc.name, shard));
    let mut runner = TestRunner::new_with_rng(cfg, rng);
    let lo = sc.tape_len / 2;
    let strat = proptest::collection::vec(proptest::num::u64::ANY, lo..=sc.tape_len);
    let stats = RefCell::new(Stats::default());
    let failed = std::cell::Cell::new(false);
    let slot_ref = &watch.slots[slot];
    slot_ref.limit_s.store(sc.case_timeout_s, Ordering::Relaxed);

    let is_known = |sig: &str| known.iter().any(|k| k.id == sig && k.status == "known" && k.properties.iter().any(|p| p == prop));

    let result = runner.run(&strat, |tape| {
        if stop.load(Ordering::Relaxed) && !failed.get() {
            return Ok(());
        }
        {
            let mut w = slot_ref.what.lock().unwrap();
            w.0.clear();
            w.0.push_str(&sc.name);
            w.1.clear();
            w.1.extend_from_slice(&tape);
        }
        slot_ref.start_ms.store(watch.now_ms(), Ordering::SeqCst);
        let counting = !failed.get();
        let record = {
            let s = stats.borrow();
            counting && (s.samples.len() < 3 && (s.evaluations < 6 || s.evaluations % 256 == 0))
        };
        let (ran, case) = run_case(&sc.f, &tape, record);
        slot_ref.start_ms.store(0, Ordering::SeqCst);
        match ran {
            Ran::Pass => {
                if counting {
                    let mut s = stats.borrow_mut();
                    s.evaluations += 1;
                    for l in &case.labels {
                        *s.classes.entry(l.to_string()).or_default() += 1;
                    }
                    if case.nontrivial {
                        s.nontrivial += 1;
                        s.distinct.insert(case.fingerprint());
                    }
                    if record && s.samples.len() < 3 && (case.nontrivial || s.evaluations >= 6) {
                        let mut d = case.describe();
                        d["_subcheck"] = json!(sc.name);
                        d["_nontrivial"] = json!(case.nontrivial);
                        d["_labels"] = json!(case.labels.iter().map(|l| l.to_string()).collect::<Vec<_>>());
                        s.samples.push(d);
                        if case.nontrivial {
                            s.nontrivial_samples += 1;
                        }
                    }
                }
                Ok(())
            }
            Ran::Skip => {
                if counting {
                    stats.borrow_mut().skipped += 1;
                }
                Ok(())
            }
            Ran::Known(sig, msg) => {
                if is_known(sig) {
                    if counting {
                        let mut s = stats.borrow_mut();
                        s.evaluations += 1;
                        if !s.known_hits.contains_key(sig) {
                            // describe the first hit
                            let (_, c2) = run_case(&sc.f, &tape, true);
                            s.known_hits.insert(sig.to_string(), (0, c2.describe(), msg.clone()));
                        }
                        s.known_hits.get_mut(sig).unwrap().0 += 1;
                    }
                    Ok(())
                } else {
                    failed.set(true);
                    Err(TestCaseError::fail(format!("[matches finding signature {sig}, which is not listed as known for {prop}] {msg}")))
                }
            }
            Ran::Fail(msg) => {
                failed.set(true);
                Err(TestCaseError::fail(msg))
            }
        }
    });
    slot_ref.start_ms.store(0, Ordering::SeqCst);
    let failure = match result {
        Ok(()) => None,
        Err(TestError::Fail(reason, tape)) => Some((reason.message().to_string(), tape)),
        Err(TestError::Abort(reason)) => {
            // too many rejects etc.: harness problem, not a verdict
            eprintln!("INCONCLUSIVE: proptest aborted in {}: {}", sc.name, reason.message());
            std::process::exit(2);
        }
    };
    ShardOut { stats: stats.into_inner(), failure }
}

// ------------------------------------------------------------------------------------------------
// replay files

fn write_replay(prop: &str, sc_name: &str, tape: &[u64], msg: &str, case: &Value, kind: &str) -> String {
    let dir = verif_root().join("replays").join(prop);
    let _ = std::fs::create_dir_all(&dir);
    let mut h = fnv1a(sc_name.as_bytes());
    for w in tape {
        h = (h ^ w).wrapping_mul(0x1000_0000_01b3);
    }
    let safe: String = sc_name.chars().map(|c| if c.is_ascii_alphanumeric() || c == '-' || c == '_' { c } else { '_' }).collect();
    let path = dir.join(format!("{kind}{safe}-{:08x}.{}.json", h as u32, PROFILE));
    let v = json!({
        "property": prop,
        "subcheck": sc_name,
        "profile": PROFILE,
        "message": msg,
        "case": case,
        "tape": tape.iter().map(|w| format!("{:#x}", w)).collect::<Vec<_>>(),
    });
    let _ = std::fs::write(&path, serde_json::to_string_pretty(&v).unwrap());
    path.to_string_lossy().to_string()
}

pub fn read_replay(path: &str) -> (String, Vec<u64>, Value) {
    let s = std::fs::read_to_string(path).unwrap_or_else(|e| {
        eprintln!("INCONCLUSIVE: cannot read replay {path}: {e}");
        std::process::exit(2)
    });
    let v: Value = serde_json::from_str(&s).expect("replay file must be JSON");
    let tape = v["tape"]
        .as_array()
        .expect("tape")
        .iter()
        .map(|x| {
            let s = x.as_str().expect("tape word");
            u64::from_str_radix(s.trim_start_matches("0x"), 16).expect("hex word")
        })
        .collect();
    (v["subcheck"].as_str().expect("subcheck").to_string(), tape, v)
}

// ------------------------------------------------------------------------------------------------
// main entry

struct Args {
    tier: Tier,
    seed: u64,
    scale: f64,
    out: Option<String>,
    replay: Option<String>,
    only: Option<String>,
    list: bool,
    threads: usize,
}

fn parse_args() -> Args {
    let mut a = Args {
        tier: match std::env::var("VERIF_TIER").as_deref() {
            Ok("thorough") => Tier::Thorough,
            _ => Tier::Quick,
        },
        seed: std::env::var("VERIF_SEED").ok().and_then(|s| s.trim().parse::<i128>().ok()).map(|v| v as u64).unwrap_or(0),
        scale: std::env::var("VERIF_SCALE").ok().and_then(|s| s.parse().ok()).unwrap_or(1.0),
        out: None,
        replay: None,
        only: None,
        list: false,
        threads: std::env::var("VERIF_THREADS").ok().and_then(|s| s.parse().ok()).unwrap_or_else(|| std::thread::available_parallelism().map(|n| n.get()).unwrap_or(8)),
    };
    let mut it = std::env::args().skip(1);
    while let Some(x) = it.next() {
        match x.as_str() {
            "--tier" => {
                a.tier = match it.next().as_deref() {
                    Some("thorough") => Tier::Thorough,
                    _ => Tier::Quick,
                }
            }
            "--seed" => a.seed = it.next().and_then(|s| s.parse::<i128>().ok()).map(|v| v as u64).unwrap_or(0),
            "--scale" => a.scale = it.next().and_then(|s| s.parse().ok()).unwrap_or(1.0),
            "--out" => a.out = it.next(),
            "--replay" => a.replay = it.next(),
            "--only" => a.only = it.next(),
            "--list" => a.list = true,
            "--threads" => a.threads = it.next().and_then(|s| s.parse().ok()).unwrap_or(8),
            other => {
                eprintln!("unknown argument {other}");
                std::process::exit(2);
            }
        }
    }
    a
}

/// Entry point of every property binary. Exit codes: 0 held / only known findings, 1 violation,
/// 2 inconclusive (harness error, watchdog).
pub fn cli_main(spec: PropSpec) -> ! {
    let args = parse_args();
    install_quiet_panic_hook();
    let ctx = Ctx { tier: args.tier, seed: args.seed, scale: args.scale };
    let mut subs = (spec.subchecks)(&ctx);
    {
        let mut seen = HashSet::new();
        for s in &subs {
            assert!(seen.insert(s.name.clone()), "duplicate sub-check name {}", s.name);
        }
    }
    if args.list {
        for s in &subs {
            println!("{}\t{}", s.name, s.cases);
        }
        std::process::exit(0);
    }
    let known = load_known();
    let prop = spec.id;

    // ---- replay mode: one case, no proptest ----
    if let Some(path) = &args.replay {
        let (name, tape, _) = read_replay(path);
        let Some(sc) = subs.iter().find(|s| s.name == name) else {
            eprintln!("INCONCLUSIVE: sub-check {name} not found in {prop}");
            std::process::exit(2);
        };
        let (ran, case) = run_case(&sc.f, &tape, true);
        println!("replay {} [{}] case: {}", name, PROFILE, case.describe());
        match ran {
            Ran::Pass => {
                println!("replay: PASS");
                std::process::exit(0)
            }
            Ran::Skip => {
                println!("replay: case is outside the domain (skipped)");
                std::process::exit(0)
            }
            Ran::Known(sig, msg) => {
                let listed = known.iter().any(|k| k.id == sig && k.status == "known" && k.properties.iter().any(|p| p == prop));
                if listed {
                    println!("KNOWN-FINDING: property={prop} {sig} {msg}");
                    std::process::exit(0)
                }
                println!("replay: FAIL [{sig}] {msg}");
                println!("VIOLATION property={prop} replay={path}");
                std::process::exit(1)
            }
            Ran::Fail(msg) => {
                println!("replay: FAIL {msg}");
                println!("VIOLATION property={prop} replay={path}");
                std::process::exit(1)
            }
        }
    }

    if let Some(o) = &args.only {
        subs.retain(|s| s.name.contains(o.as_str()));
    }
    let t0 = Instant::now();

    // ---- regression tier: committed replays first ----
    let mut failures: Vec<Failure> = vec![];
    let mut regress_run = 0u64;
    let mut known_lines: BTreeMap<String, (u64, Value, String)> = BTreeMap::new();
    let regdir = verif_root().join("regressions").join(prop);
    if let Ok(rd) = std::fs::read_dir(&regdir) {
        let mut files: Vec<_> = rd.filter_map(|e| e.ok()).map(|e| e.path()).filter(|p| p.extension().map(|x| x == "json").unwrap_or(false)).collect();
        files.sort();
        for p in files {
            let ps = p.to_string_lossy().to_string();
            let (name, tape, v) = read_replay(&ps);
            if let Some(pr) = v["only_profile"].as_str() {
                if pr != PROFILE {
                    continue;
                }
            }
            let Some(sc) = subs.iter().find(|s| s.name == name) else { continue };
            regress_run += 1;
            let (ran, case) = run_case(&sc.f, &tape, true);
            match ran {
                Ran::Pass | Ran::Skip => {}
                Ran::Known(sig, msg) => {
                    let listed = known.iter().any(|k| k.id == sig && k.status == "known" && k.properties.iter().any(|p| p == prop));
                    if listed {
                        let e = known_lines.entry(sig.to_string()).or_insert((0, case.describe(), msg));
                        e.0 += 1;
                    } else {
                        failures.push(Failure { subcheck: name, message: format!("[regression {ps}; signature {sig} not listed as known] {msg}"), tape, case: case.describe(), replay_path: ps });
                    }
                }
                Ran::Fail(msg) => failures.push(Failure { subcheck: name, message: format!("[regression] {msg}"), tape, case: case.describe(), replay_path: ps }),
            }
        }
    }

    // ---- generated search ----
    struct Job {
        sc: usize,
        shard: u64,
        cases: u64,
    }
    let mut jobs = vec![];
    for (i, sc) in subs.iter().enumerate() {
        let mult = if ctx.tier == Tier::Thorough { sc.thorough_mult } else { 1 };
        let total = ((sc.cases * mult) as f64 * ctx.scale).ceil().max(1.0) as u64;
        let shards = (total / 400).clamp(1, 64);
        for s in 0..shards {
            let c = total / shards + if s < total % shards { 1 } else { 0 };
            if c > 0 {
                jobs.push(Job { sc: i, shard: s, cases: c });
            }
        }
    }
    let nthreads = args.threads.max(1);
    let watch = Arc::new(Watch {
        t0: Instant::now(),
        slots: (0..nthreads).map(|_| Slot { start_ms: AtomicU64::new(0), limit_s: AtomicU64::new(60), what: Mutex::new((String::new(), vec![])) }).collect(),
    });
    // watchdog thread
    {
        let w = watch.clone();
        let prop = prop.to_string();
        std::thread::spawn(move || loop {
            std::thread::sleep(std::time::Duration::from_millis(500));
            let now = w.now_ms();
            for s in &w.slots {
                let st = s.start_ms.load(Ordering::SeqCst);
                if st != 0 && now.saturating_sub(st) > s.limit_s.load(Ordering::Relaxed) * 1000 {
                    let g = s.what.lock().unwrap();
                    let p = write_replay(&prop, &g.0, &g.1, "watchdog: case exceeded its time limit", &Value::Null, "hang-");
                    println!("INCONCLUSIVE: property={prop} watchdog fired in {} (case saved to {p}); a time budget is not a verdict", g.0);
                    std::process::exit(2);
                }
            }
        });
    }
    let next = AtomicUsize::new(0);
    let stop = AtomicBool::new(false);
    let merged: Vec<Mutex<Stats>> = subs.iter().map(|_| Mutex::new(Stats::default())).collect();
    let fails: Mutex<Vec<(usize, String, Vec<u64>)>> = Mutex::new(vec![]);
    std::thread::scope(|scope| {
        for tid in 0..nthreads {
            let (jobs, subs, known, watch, next, stop, merged, fails) = (&jobs, &subs, &known, &watch, &next, &stop, &merged, &fails);
            std::thread::Builder::new()
                .stack_size(64 << 20)
                .spawn_scoped(scope, move || loop {
                    let j = next.fetch_add(1, Ordering::SeqCst);
                    if j >= jobs.len() {
                        break;
                    }
                    let job = &jobs[j];
                    let sc = &subs[job.sc];
                    if stop.load(Ordering::Relaxed) {
                        break;
                    }
                    let out = run_shard(prop, sc, job.cases, ctx.seed, job.shard, known, watch, tid, stop);
                    merged[job.sc].lock().unwrap().merge(out.stats);
                    if let Some((m, t)) = out.failure {
                        // a failing sub-check stops only its own further shards
                        fails.lock().unwrap().push((job.sc, m, t));
                    }
                })
                .unwrap();
        }
    });
    let mut seen_sc = HashSet::new();
    for (i, msg, tape) in fails.into_inner().unwrap() {
        if !seen_sc.insert(i) {
            continue; // one (shrunk) failure per sub-check is enough
        }
        let sc = &subs[i];
        let (_, case) = run_case(&sc.f, &tape, true);
        let d = case.describe();
        let path = write_replay(prop, &sc.name, &tape, &msg, &d, "");
        failures.push(Failure { subcheck: sc.name.clone(), message: msg, tape, case: d, replay_path: path });
    }

    // ---- aggregate ----
    let mut evaluations = 0u64;
    let mut distinct = 0u64;
    let mut skipped = 0u64;
    let mut samples: Vec<Value> = vec![];
    let mut sub_json = vec![];
    let mut classes: BTreeMap<String, u64> = BTreeMap::new();
    for (i, sc) in subs.iter().enumerate() {
        let s = merged[i].lock().unwrap();
        evaluations += s.evaluations;
        distinct += s.distinct.len() as u64;
        skipped += s.skipped;
        for (k, v) in &s.classes {
            *classes.entry(k.clone()).or_default() += v;
        }
        for (k, (n, d, m)) in &s.known_hits {
            let e = known_lines.entry(k.clone()).or_insert((0, d.clone(), m.clone()));
            e.0 += n;
        }
        sub_json.push(json!({
            "name": sc.name,
            "evaluations": s.evaluations,
            "skipped_out_of_domain": s.skipped,
            "nontrivial": s.nontrivial,
            "distinct_nontrivial": s.distinct.len(),
            "classes": s.classes,
            "known_finding_hits": s.known_hits.iter().map(|(k, v)| (k.clone(), json!(v.0))).collect::<serde_json::Map<_, _>>(),
        }));
        if let Some(x) = s.samples.iter().find(|x| x["_nontrivial"] == json!(true)).or(s.samples.first()) {
            samples.push(x.clone());
        }
    }
    // keep the evidence file readable: at most 40 samples, spread over sub-checks
    if samples.len() > 40 {
        let step = samples.len() as f64 / 40.0;
        samples = (0..40).map(|i| samples[(i as f64 * step) as usize].clone()).collect();
    }

    for (sig, (n, d, m)) in &known_lines {
        let what = known.iter().find(|k| &k.id == sig).map(|k| k.what.clone()).unwrap_or_default();
        println!("KNOWN-FINDING: property={prop} {sig} {what} (hits={n}; e.g. {m}; case {d})");
    }
    for k in known.iter().filter(|k| k.status == "known" && k.properties.iter().any(|p| p == prop)) {
        if !known_lines.contains_key(&k.id) && args.only.is_none() {
            println!("NOTE: listed known finding {} was not reproduced by this run [{}]", k.id, PROFILE);
        }
    }
    for f in &failures {
        println!("FAIL [{}] {} :: {}", PROFILE, f.subcheck, f.message);
        println!("     case: {}", f.case);
        println!("VIOLATION property={prop} replay={}", f.replay_path);
    }
    let wall = t0.elapsed().as_secs_f64();
    let ev = json!({
        "property_id": prop,
        "tier": if ctx.tier == Tier::Quick { "quick" } else { "thorough" },
        "seed": ctx.seed as i64,
        "level": "exploration",
        "coverage": {
            "evaluations": evaluations + regress_run,
            "distinct_nontrivial": distinct,
            "rule": spec.rule,
            "samples": samples,
            "profile": PROFILE,
            "regression_replays_run": regress_run,
            "skipped_out_of_domain": skipped,
            "class_histogram": classes,
            "subchecks": sub_json,
            "known_findings_hit": known_lines.iter().map(|(k, v)| json!({"id": k, "hits": v.0, "example": v.2, "case": v.1})).collect::<Vec<_>>(),
            "failures": failures.iter().map(|f| json!({"subcheck": f.subcheck, "message": f.message, "case": f.case, "replay": f.replay_path})).collect::<Vec<_>>(),
        },
        "assumptions": spec.assumptions,
        "wall_s": wall,
        "violations": failures.len(),
    });
    if let Some(out) = &args.out {
        if let Some(parent) = std::path::Path::new(out).parent() {
            let _ = std::fs::create_dir_all(parent);
        }
        std::fs::write(out, serde_json::to_string_pretty(&ev).unwrap()).expect("write evidence part");
    }
    println!(
        "{prop} [{}] tier={:?} seed={} subchecks={} evaluations={} distinct_nontrivial={} skipped={} known_hits={} violations={} wall={:.1}s",
        PROFILE,
        ctx.tier,
        ctx.seed,
        subs.len(),
        evaluations,
        distinct,
        skipped,
        known_lines.values().map(|v| v.0).sum::<u64>(),
        failures.len(),
        wall
    );
    std::process::exit(if failures.is_empty() { 0 } else { 1 });
}

#[allow(dead_code)]
fn _unused(_: &dyn ValueTree<Value = u8>) {}

// ------------------------------------------------------------------------------------------------
// coverage-guided fuzzing entry: libFuzzer bytes -> (sub-check selector, choice tape)

/// State shared by the iterations of one fuzz target (built once).
pub struct FuzzHost {
    prop: &'static str,
    subs: Vec<SubCheck>,
    known: Vec<KnownFinding>,
    strict: bool,
}

/// True inside a coverage-guided fuzz target (set by [`FuzzHost::new`]): generators with an expensive
/// one-time construction (tables built by search) leave that class out there — under ASan and debug
/// assertions the construction alone would be reported by libFuzzer as a slow unit / out of memory.
pub fn in_fuzz_host() -> bool {
    IN_FUZZ_HOST.load(std::sync::atomic::Ordering::Relaxed)
}
static IN_FUZZ_HOST: std::sync::atomic::AtomicBool = std::sync::atomic::AtomicBool::new(false);

impl FuzzHost {
    pub fn new(spec: PropSpec) -> Self {
        IN_FUZZ_HOST.store(true, std::sync::atomic::Ordering::Relaxed);
        // libfuzzer-sys installs an aborting panic hook; expected panics are data for us
        install_quiet_panic_hook();
        let ctx = Ctx { tier: Tier::Quick, seed: 0, scale: 1.0 };
        let mut subs = (spec.subchecks)(&ctx);
        if let Ok(only) = std::env::var("VERIF_FUZZ_ONLY") {
            subs.retain(|s| s.name.contains(&only));
        }
        if let Ok(skip) = std::env::var("VERIF_FUZZ_SKIP") {
            // sub-checks whose single case is a long statistical / exhaustive run are not fuzz material
            subs.retain(|s| !skip.split(',').any(|k| !k.is_empty() && s.name.contains(k)));
        }
        assert!(!subs.is_empty());
        FuzzHost { prop: spec.id, subs, known: load_known(), strict: std::env::var("VERIF_FUZZ_STRICT").is_ok() }
    }

    /// First two bytes select the sub-check, the rest is the choice tape (little-endian u64 words).
    /// A genuine failure prints `VIOLATION ...`, saves a replay file and aborts (libFuzzer then
    /// saves the crashing input); known findings are tolerated unless VERIF_FUZZ_STRICT is set.
    pub fn one(&self, data: &[u8]) {
        if data.len() < 2 {
            return;
        }
        let sel = u16::from_le_bytes([data[0], data[1]]) as usize;
        let sc = &self.subs[(sel * self.subs.len()) >> 16];
        let tape: Vec<u64> = data[2..]
            .chunks(8)
            .map(|c| {
                let mut w = [0u8; 8];
                w[..c.len()].copy_from_slice(c);
                u64::from_le_bytes(w)
            })
            .collect();
        let (ran, case) = run_case(&sc.f, &tape, false);
        let fail = match ran {
            Ran::Pass | Ran::Skip => return,
            Ran::Known(sig, msg) => {
                let listed = self.known.iter().any(|k| k.id == sig && k.status == "known" && k.properties.iter().any(|p| p == self.prop));
                if listed && !self.strict {
                    return;
                }
                format!("[{sig}] {msg}")
            }
            Ran::Fail(msg) => msg,
        };
        let _ = case;
        let (_, case) = run_case(&sc.f, &tape, true);
        let path = write_replay(self.prop, &sc.name, &tape, &fail, &case.describe(), "fuzz-");
        println!("FAIL [fuzz] {} :: {}", sc.name, fail);
        println!("     case: {}", case.describe());
        println!("VIOLATION property={} replay={}", self.prop, path);
        std::process::abort();
    }
}
